// C04 — encrypted messages round-trip: byte-exact correspondence of crypto.Cipher.Encrypt (with a
// deterministic random reader) and Cipher.DecryptFromBuffer with the Lean model TdModel.C04 executed
// on Lean's own SHA-256/AES, plus the property monitor on the implementation (round-trip, body % 16,
// padding 12..1024 on both the sending and the accepting side — defect D2).
package main

import (
	"bytes"
	"context"
	"errors"
	"fmt"
	"io"
	"runtime"
	"sync"
	"time"

	"github.com/gotd/td/bin"
	"github.com/gotd/td/crypto"
	"github.com/gotd/td/mtproto"
	"github.com/gotd/td/proto"

	"verif/harness/c04shared"
	"verif/harness/hc"
)

var t3cDur time.Duration

func main() {
	hc.Main(hc.Spec{Prop: "C04", Facts: facts, Run: run})
}

func facts(f *hc.Facts) {
	c04shared.FactsC04(f)
	c04shared.RefreshSiblings(f, map[string]func(*hc.Facts){"C06": c04shared.FactsC06})
}

type rawEnc []byte

func (r rawEnc) Encode(b *bin.Buffer) error { b.Put(r); return nil }

func run(c *hc.Ctx) error {
	r := c.Rng
	var q c04shared.Queue
	var rt c04shared.Retainer
	// ---- 1. countPadding: exhaustive over l mod 16 × every random byte, plus large l
	var ls []int
	for l := 0; l < 64; l++ {
		ls = append(ls, l)
	}
	ls = append(ls, 1<<20, 1<<24-4, 1<<24, 1<<31-1)
	for _, l := range ls {
		for rb := 0; rb < 256; rb++ {
			p := crypto.VerifC04CountPadding(l, byte(rb))
			line := fmt.Sprintf("pad %d %d", l, rb)
			c.Eval(line, true)
			if p < 12 || p > 1024 || (l+p)%16 != 0 {
				c.Fail("countPadding-out-of-spec", line, fmt.Sprintf("countPadding = %d", p))
			}
			q.Add(line, fmt.Sprint(p))
		}
	}
	c.Count("countPadding.grid")
	// ---- 2. round trips
	var sizes []int
	if c.Thorough() {
		for n := 0; n <= 4096; n += 4 {
			sizes = append(sizes, n)
		}
		for rep := 0; rep < 9; rep++ { // every aligned length again, with other keys / sides / paths
			for n := 0; n <= 4096; n += 4 {
				sizes = append(sizes, n)
			}
		}
		for i := 0; i < 1500; i++ {
			sizes = append(sizes, 4*r.Range(1024, 16384))
		}
		sizes = append(sizes, 1<<20, 1<<20-4, 1<<20+4)
	} else {
		for n := 0; n <= 4096; n += 4 {
			sizes = append(sizes, n)
		}
		for i := 0; i < 100; i++ {
			sizes = append(sizes, 4*r.Range(1024, 4096))
		}
		sizes = append(sizes, 65536, 1<<18)
	}
	for _, n := range sizes {
		side := hc.Pick(r, crypto.Client, crypto.Server)
		roundTrip(c, &q, &rt, side, r.Bytes(n), r.Intn(3))
		rt.MaybeVerify(c, 512)
		if err := q.MaybeFlush(c); err != nil {
			return err
		}
	}
	// ---- 3. hand-made frames: padding below / at / above the bounds, misaligned length fields (D2)
	nf := c.N(4000, 100000)
	for i := 0; i < nf; i++ {
		c04shared.CraftedFrame(c, &q, &rt, "C04")
		rt.MaybeVerify(c, 512)
		if err := q.MaybeFlush(c); err != nil {
			return err
		}
	}
	// ---- 3a. reused objects behave like fresh ones (decode targets, output buffers)
	for i := c.N(150, 5000); i > 0; i-- {
		c04shared.ReuseCase(c, &q, "C04")
		if err := q.MaybeFlush(c); err != nil {
			return err
		}
	}
	// ---- 3b. the compression-threshold path: mtproto.Conn.newEncryptedMessage picks Message / GZIP / raw
	for i := c.N(1200, 40000); i > 0; i-- {
		thresholdCase(c, &q, &rt)
		rt.MaybeVerify(c, 512)
		if err := q.MaybeFlush(c); err != nil {
			return err
		}
	}
	// ---- 3c. whole request sequences through Conn.write (pooled buffers): requests whose payload fails to
	// encode mixed with good ones, GC cycles between steps (ageing of sync.Pool), bursts of concurrent writers
	rt.Verify(c)
	if err := q.Flush(c); err != nil && !errors.Is(err, hc.ErrNoModel) { // small live heap: the GC cycles below stay cheap
		return err
	}
	t3c := time.Now()
	defer func() { c.Note("stage 3c (Conn.write sequences incl. GC cycles) took %.1fs of the run", t3cDur.Seconds()) }()
	for i := c.N(100, 3000); i > 0; i-- {
		writerSequence(c, &q)
		if err := q.MaybeFlush(c); err != nil {
			return err
		}
	}
	t3cDur = time.Since(t3c)
	rt.Verify(c)
	// ---- 4. the same from 2..4 goroutines at once (every worker owns its ciphers and random reader;
	// Cipher is a value type without shared state): round trip checked immediately, every ciphertext
	// and every decrypted message re-read after all workers are done
	workers := r.Range(2, 4)
	c04shared.Concurrently(c, &rt, workers, c.N(300, 6000)/workers, func(r *hc.RNG, w, i int) {
		key := c04shared.GenKey(r)
		ak := key.WithID()
		side := hc.Pick(r, crypto.Client, crypto.Server)
		payload := r.Bytes(4 * hc.Pick(r, 0, 1, 4, 16, 64, r.Range(0, 512)))
		rnd := r.Bytes(1 + 16*17)
		var enc, dec crypto.Cipher
		if side == crypto.Client {
			enc, dec = crypto.NewClientCipher(bytes.NewReader(rnd)), crypto.NewServerCipher(nil)
		} else {
			enc, dec = crypto.NewServerCipher(bytes.NewReader(rnd)), crypto.NewClientCipher(nil)
		}
		d := crypto.EncryptedMessageData{Salt: int64(r.U64()), SessionID: int64(r.U64()), MessageID: int64(r.U64()), SeqNo: int32(r.U64()), Message: rawEnc(payload)}
		line := fmt.Sprintf("enc %s %s %s %d %d %d %d %d %s %s", c04shared.SideName(side), hc.Hex(key[:]), hc.Hex(ak.ID[:]),
			uint64(d.Salt), uint64(d.SessionID), uint64(d.MessageID), uint32(d.SeqNo), uint32(len(payload)), hc.Hex(payload), hc.Hex(rnd))
		b := &bin.Buffer{}
		c.Count("concurrent.roundtrip")
		if err := enc.Encrypt(ak, d, b); err != nil {
			c.Fail("encrypt-error", line, err.Error())
			return
		}
		rt.Keep("Cipher.Encrypt(concurrent)", line, func() []byte { return b.Buf })
		got, err := dec.DecryptFromBuffer(ak, &bin.Buffer{Buf: append([]byte{}, b.Buf...)})
		if err != nil {
			c.Fail("roundtrip-rejected", line, fmt.Sprintf("concurrent use, %d goroutines: %v", workers, err))
			return
		}
		if got.Salt != d.Salt || got.SessionID != d.SessionID || got.MessageID != d.MessageID || got.SeqNo != d.SeqNo || !bytes.Equal(got.Data(), payload) {
			c.Fail("roundtrip-differs", line, fmt.Sprintf("concurrent use, %d goroutines", workers))
		}
		c04shared.KeepDecrypted(&rt, line, got)
	})
	if err := q.Flush(c); err != nil {
		return err
	}
	c.Res.Rule = "countPadding: every residue l mod 16 (l = 0..63 and four large lengths) × all 256 random bytes (exhaustive for the function's case split). Round trips: every payload length 0..4096 step 4 (once in quick, ten times in thorough) + random up to 16 KiB (64 KiB thorough) + 64 KiB, 256 KiB (quick) / 1 MiB (thorough), both directions, random keys (5% all-zero/all-FF/low entropy), header fields random and at their extremes (0, ±1, min/max, sign bits), four encoder paths (Message encoder and proto.GZIP through EncodeWithoutCopy — model entry encm; raw MessageDataWithPadding and raw with a shorter declared length through Encode — model entry enc). Conn.newEncryptedMessage with threshold options −5, −1, 0 (=1024), 1, 4, 8, 64, 1023..1025, random and encoded payload lengths on and around the threshold (compressible and random payloads). Conn.write sequences on one connection (8..20 steps: good requests, requests whose Encode fails after a partial write, runtime.GC() between steps, bursts of 2..4 concurrent writers with failing requests among them), every frame decrypted with the server cipher and compared with the payload and — for sequential writes — with the model. Hand-made frames with padding 0..11, 12, 1024, 1028.. and length fields ≡ 1,2,3 mod 4 or negative. Every ciphertext buffer and every accepted *EncryptedMessageData is retained as returned and re-read after later calls; the round trip also runs from 2..4 goroutines at once. Non-trivial = all; distinct = distinct input line"
	c.PartialNote("gzip compression is a parameter of the model (law gunz(gz d) = d): the executable model is given the bytes the Go compressor produced; the monitor checks that the decrypted object gunzips to the original data; the 10 MB decompression limit of proto.GZIP.Decode is not modelled")
	return nil
}

func roundTrip(c *hc.Ctx, q *c04shared.Queue, rt *c04shared.Retainer, side crypto.Side, payload []byte, path int) {
	r := c.Rng
	key := c04shared.GenKey(r)
	ak := key.WithID()
	if r.Chance(5) {
		copy(ak.ID[:], r.Bytes(8))
	}
	// header values: random, and the extremes of every field (sign bits, all ones, zero)
	x64 := func() int64 {
		return hc.Pick(r, int64(r.U64()), int64(r.U64()), 0, 1, -1, -1<<63, 1<<63-1, int64(r.U64())&0xffffffff, -int64(r.U64()&0xffffffff))
	}
	salt, sid, mid := x64(), x64(), x64()
	seq := hc.Pick(r, int32(r.U64()), int32(r.U64()), 0, 1, -1, -1<<31, 1<<31-1, -2)
	rnd := r.Bytes(1 + 16 + 16*16 + r.Intn(8))
	d := crypto.EncryptedMessageData{Salt: salt, SessionID: sid, MessageID: mid, SeqNo: seq}
	wire := payload
	pathName := ""
	declared := -1 // raw path only: MessageDataLen as given by the caller
	if path == 1 && len(payload) >= 8 && r.Chance(25) {
		path = 3
	}
	switch path {
	case 0:
		d.Message = rawEnc(payload)
		pathName = "message-encoder"
	case 1:
		d.MessageDataLen = int32(len(payload))
		d.MessageDataWithPadding = payload
		pathName = "raw-bytes"
	case 3: // raw path, caller declares fewer bytes than it passes (the rest travels as extra padding)
		declared = len(payload) - 4*r.Range(1, min(len(payload)/4, 170))
		d.MessageDataLen = int32(declared)
		d.MessageDataWithPadding = payload
		pathName = "raw-bytes-short-len"
	case 2:
		g := proto.GZIP{Data: payload}
		var gb bin.Buffer
		if err := g.Encode(&gb); err != nil {
			c.Fail("gzip-encode", fmt.Sprintf("len=%d", len(payload)), err.Error())
			return
		}
		wire = append([]byte{}, gb.Buf...)
		d.Message = g
		pathName = "gzip"
	}
	c.Count("roundtrip.path=" + pathName)
	c.Count(fmt.Sprintf("roundtrip.side=%d", side))
	c.Count("roundtrip.len" + c04shared.SizeBucket(len(payload)))
	var enc, dec crypto.Cipher
	if side == crypto.Client {
		enc, dec = crypto.NewClientCipher(bytes.NewReader(rnd)), crypto.NewServerCipher(nil)
	} else {
		enc, dec = crypto.NewServerCipher(bytes.NewReader(rnd)), crypto.NewClientCipher(nil)
	}
	b := &bin.Buffer{} // own buffer per call: its contents are the API's result and are retained
	line := fmt.Sprintf("enc %s %s %s %d %d %d %d %d %s %s", c04shared.SideName(side), hc.Hex(key[:]), hc.Hex(ak.ID[:]),
		uint64(salt), uint64(sid), uint64(mid), uint32(seq), uint32(len(wire)), hc.Hex(wire), hc.Hex(rnd))
	if declared >= 0 {
		line = fmt.Sprintf("enc %s %s %s %d %d %d %d %d %s %s", c04shared.SideName(side), hc.Hex(key[:]), hc.Hex(ak.ID[:]),
			uint64(salt), uint64(sid), uint64(mid), uint32(seq), uint32(declared), hc.Hex(wire), hc.Hex(rnd))
	}
	if path == 0 || path == 2 { // Message != nil: the EncodeWithoutCopy path has its own model entry
		line = fmt.Sprintf("encm %s %s %s %d %d %d %d %s %s", c04shared.SideName(side), hc.Hex(key[:]), hc.Hex(ak.ID[:]),
			uint64(salt), uint64(sid), uint64(mid), uint32(seq), hc.Hex(wire), hc.Hex(rnd))
	}
	c.Eval(c04shared.Sig(line), true)
	if err := enc.Encrypt(ak, d, b); err != nil {
		c.Fail("encrypt-error", line, err.Error())
		return
	}
	ct := append([]byte{}, b.Buf...)
	rt.Keep("Cipher.Encrypt", line, func() []byte { return b.Buf })
	q.Add(line, "ok "+hc.Hex(ct))
	// monitor on the ciphertext
	if len(ct) < 24 || (len(ct)-24)%16 != 0 {
		c.Fail("body-not-block-aligned", line, fmt.Sprintf("ciphertext length %d", len(ct)))
	}
	pad := len(ct) - 24 - 32 - len(wire)
	want := wire
	if declared >= 0 {
		want = wire[:declared]
	}
	if pad < 12 || pad > 1024 {
		c.Fail("sent-padding-out-of-bounds", line, fmt.Sprintf("padding %d", pad))
	}
	c.Count(fmt.Sprintf("roundtrip.pad-blocks=%d", (pad-12)/16))
	got, err := dec.DecryptFromBuffer(ak, &bin.Buffer{Buf: append([]byte{}, ct...)})
	dline := fmt.Sprintf("dec %s %s %s %s", c04shared.SideName(side^1), hc.Hex(key[:]), hc.Hex(ak.ID[:]), hc.Hex(ct))
	q.Add(dline, c04shared.ShowDecrypt(got, err))
	if err != nil {
		c.Fail("roundtrip-rejected", line, err.Error())
		return
	}
	c04shared.KeepDecrypted(rt, dline, got)
	if got.Salt != salt || got.SessionID != sid || got.MessageID != mid || got.SeqNo != seq ||
		int(got.MessageDataLen) != len(want) || !bytes.Equal(got.Data(), want) {
		c.Fail("roundtrip-differs", line, fmt.Sprintf("got salt=%d sid=%d mid=%d seq=%d len=%d", got.Salt, got.SessionID, got.MessageID, got.SeqNo, got.MessageDataLen))
	}
	if path == 2 {
		var g proto.GZIP
		if err := g.Decode(&bin.Buffer{Buf: got.Data()}); err != nil || !bytes.Equal(g.Data, payload) {
			c.Fail("gzip-roundtrip-differs", line, fmt.Sprint(err))
		}
	}
	// the same ciphertext must not be accepted by the sender's own cipher (reflection) — C05 goes deeper
	if back, err := enc.DecryptFromBuffer(ak, &bin.Buffer{Buf: append([]byte{}, ct...)}); (err == nil || back != nil) && !c04shared.Degenerate(key) {
		c.Fail("reflection-accepted", line, "the sending side decrypted its own message")
	}
}

// thresholdCase drives Conn.newEncryptedMessage with a threshold option and an encoded payload length
// on and around the threshold; the model gets the bytes gzip produced (compression is a parameter of
// the model) and must output the same ciphertext and take the same branch.
func thresholdCase(c *hc.Ctx, q *c04shared.Queue, rt *c04shared.Retainer) {
	r := c.Rng
	opt := hc.Pick(r, -1, -5, 0, 0, 1, 4, 8, 64, 1023, 1024, 1025, 4*r.Range(1, 600))
	eff := opt
	if eff == 0 {
		eff = 1024
	}
	n := 4 * r.Range(0, 64)
	if eff > 0 {
		n = max(0, 4*((eff+hc.Pick(r, -8, -4, -1, 0, 1, 3, 4, 8, 12, r.Range(-40, 400)))/4))
		if r.Chance(10) {
			n = 0
		}
	}
	var payload []byte
	if r.Bool() { // compressible
		payload = bytes.Repeat(r.Bytes(4), n/4)
	} else {
		payload = r.Bytes(n)
	}
	key := c04shared.GenKey(r)
	ak := key.WithID()
	side := hc.Pick(r, crypto.Client, crypto.Server)
	rnd := r.Bytes(1 + 16*17)
	var enc, dec crypto.Cipher
	if side == crypto.Client {
		enc, dec = crypto.NewClientCipher(bytes.NewReader(rnd)), crypto.NewServerCipher(nil)
	} else {
		enc, dec = crypto.NewServerCipher(bytes.NewReader(rnd)), crypto.NewClientCipher(nil)
	}
	salt, sid, mid, seq := int64(r.U64()), int64(r.U64()), int64(r.U64()), int32(r.U64())
	want := "raw"
	switch {
	case eff <= 0:
		want = "message"
	case len(payload) > eff:
		want = "gzip"
	}
	gz := []byte(nil)
	if want == "gzip" {
		var gb bin.Buffer
		if err := (proto.GZIP{Data: payload}).Encode(&gb); err == nil && gb.ConsumeID(proto.GZIPTypeID) == nil {
			gz, _ = gb.Bytes()
		}
	}
	line := fmt.Sprintf("newmsg %s %s %s %d %d %d %d %d %s %s %s", c04shared.SideName(side), hc.Hex(key[:]), hc.Hex(ak.ID[:]), opt,
		uint64(salt), uint64(sid), uint64(mid), uint32(seq), hc.Hex(payload), hc.Hex(gz), hc.Hex(rnd))
	c.Count("threshold.path=" + want)
	c.Eval(c04shared.Sig(line), true)
	b := &bin.Buffer{}
	err := mtproto.VerifC04NewEncryptedMessage(mtproto.Options{CompressThreshold: opt, Cipher: enc, Random: r}, ak, sid, salt, mid, seq, rawEnc(payload), b)
	if err != nil {
		c.Fail("newEncryptedMessage-error", line, err.Error())
		return
	}
	q.Add(line, "ok "+want+" "+hc.Hex(b.Buf))
	rt.Keep("Conn.newEncryptedMessage", line, func() []byte { return b.Buf })
	got, err := dec.DecryptFromBuffer(ak, &bin.Buffer{Buf: append([]byte{}, b.Buf...)})
	if err != nil {
		c.Fail("roundtrip-rejected", line, "threshold path "+want+": "+err.Error())
		return
	}
	if got.Salt != salt || got.SessionID != sid || got.MessageID != mid || got.SeqNo != seq {
		c.Fail("roundtrip-differs", line, "threshold path "+want+": header fields differ")
	}
	data := got.Data()
	if want == "gzip" {
		var g proto.GZIP
		if err := g.Decode(&bin.Buffer{Buf: append([]byte{}, data...)}); err != nil || !bytes.Equal(g.Data, payload) {
			c.Fail("gzip-roundtrip-differs", line, fmt.Sprintf("payload of %d bytes over threshold %d: err=%v", len(payload), eff, err))
		}
	} else if !bytes.Equal(data, payload) {
		c.Fail("roundtrip-differs", line, fmt.Sprintf("threshold path %s: %d bytes sent, %d bytes received", want, len(payload), len(data)))
	}
	c04shared.KeepDecrypted(rt, line, got)
}

// brokenEnc writes part of itself and then reports an encoding error, like a generated TL type with a
// missing required field.
type brokenEnc struct{ partial []byte }

func (b brokenEnc) Encode(buf *bin.Buffer) error {
	buf.Put(b.partial)
	return errors.New("unable to encode: field is nil")
}

// recReader hands out PRNG bytes and records them (the model needs exactly the bytes the cipher read).
type recReader struct {
	mu  sync.Mutex
	r   *hc.RNG
	rec []byte
}

func (rr *recReader) Read(p []byte) (int, error) {
	rr.mu.Lock()
	defer rr.mu.Unlock()
	n, err := io.ReadFull(rr.r, p)
	rr.rec = append(rr.rec, p[:n]...)
	return n, err
}

func (rr *recReader) take() []byte {
	rr.mu.Lock()
	defer rr.mu.Unlock()
	b := rr.rec
	rr.rec = nil
	return b
}

func joinSteps(h []string) string {
	s := ""
	for i, x := range h {
		if i > 0 {
			s += " "
		}
		s += x
	}
	return s
}

// writerSequence drives one connection through a sequence of writes.  Error paths must not corrupt
// shared pools or state: every frame written after (or concurrently with) a failed request must still
// decrypt on the other side to exactly the header and payload that were sent.
func writerSequence(c *hc.Ctx, q *c04shared.Queue) {
	r := c.Rng
	opt := hc.Pick(r, 0, 0, 1024, 64, 256, 16, -1)
	eff := opt
	if eff == 0 {
		eff = 1024
	}
	key := c04shared.GenKey(r)
	ak := key.WithID()
	sid, salt := int64(r.U64()), int64(r.U64())
	rr := &recReader{r: r.Fork()}
	w := mtproto.VerifC04NewWriter(mtproto.Options{CompressThreshold: opt, Cipher: crypto.NewClientCipher(rr), Random: r.Fork()}, ak, sid, salt)
	defer w.CloseConn()
	server := crypto.NewServerCipher(nil)
	ctx := context.Background()
	history := []string{fmt.Sprintf("threshold=%d", opt)}
	mkPayload := func(r *hc.RNG) []byte {
		n := 4 * r.Range(0, 80)
		if eff > 0 && r.Chance(60) {
			n = max(0, 4*((eff+hc.Pick(r, -8, -4, 0, 4, 8, 64, 400))/4))
		}
		if r.Bool() {
			return bytes.Repeat(r.Bytes(4), n/4)
		}
		return r.Bytes(n)
	}
	// verify one frame against what was sent
	verify := func(frame []byte, sent map[int64][]byte, seqs map[int64]int32, how string) (int64, bool) {
		got, err := server.DecryptFromBuffer(ak, &bin.Buffer{Buf: append([]byte{}, frame...)})
		input := fmt.Sprintf("frame %s key %s   [Conn.write sequence: %s]", hc.Hex(frame), hc.Hex(key[:]), joinSteps(history))
		if err != nil {
			c.Fail("written-message-rejected", input, how+": "+err.Error())
			return 0, false
		}
		payload, known := sent[got.MessageID]
		if !known || got.Salt != salt || got.SessionID != sid || got.SeqNo != seqs[got.MessageID] {
			c.Fail("written-message-differs-from-payload", input, fmt.Sprintf("%s: header fields differ (msg_id %d known=%v)", how, got.MessageID, known))
			return got.MessageID, false
		}
		data := got.Data()
		if id, _ := (&bin.Buffer{Buf: data}).PeekID(); id == proto.GZIPTypeID && eff > 0 && len(payload) > eff {
			var g proto.GZIP
			if err := g.Decode(&bin.Buffer{Buf: append([]byte{}, data...)}); err != nil {
				c.Fail("written-message-differs-from-payload", input, fmt.Sprintf("%s: %d bytes sent, gzip payload does not unpack: %v", how, len(payload), err))
				return got.MessageID, false
			}
			data = g.Data
		}
		if !bytes.Equal(data, payload) {
			c.Fail("written-message-differs-from-payload", input, fmt.Sprintf("%s: sent %d bytes %s…, the other side decrypts %d bytes %s…", how, len(payload), hc.Hex(payload[:min(24, len(payload))]), len(data), hc.Hex(data[:min(24, len(data))])))
			return got.MessageID, false
		}
		return got.MessageID, true
	}
	// a corrupted pool can make the write path panic (e.g. IGE on a buffer another writer is filling)
	write := func(id int64, seq int32, enc bin.Encoder) (err error, p any) {
		defer func() { p = recover() }()
		return w.Write(ctx, id, seq, enc), nil
	}
	steps := r.Range(8, 20)
	nextID := int64(r.U64() >> 8)
	for s := 0; s < steps; s++ {
		switch k := r.Intn(10); {
		case k < 2: // a request that fails to serialise
			history = append(history, "fail")
			c.Count("writer.step=encode-error")
			rr.take()
			if err, p := write(nextID, int32(2*s+1), brokenEnc{r.Bytes(4 * r.Range(0, 40))}); err == nil || p != nil {
				c.Fail("encode-error-swallowed", joinSteps(history), fmt.Sprintf("Conn.write for a payload whose Encode failed: err=%v panic=%v", err, p))
			}
			if fs := w.Frames(); len(fs) != 0 {
				c.Fail("frame-sent-for-failed-request", joinSteps(history), fmt.Sprintf("%d frames", len(fs)))
			}
			nextID++
			if r.Bool() { // the pool ages right after the failed request
				history = append(history, "gc")
				c.Count("writer.step=gc")
				runtime.GC()
			}
		case k < 3:
			history = append(history, "gc")
			c.Count("writer.step=gc")
			runtime.GC()
		case k < 4: // burst of concurrent writers, some of them failing
			n := r.Range(2, 4)
			history = append(history, fmt.Sprintf("burst%d", n))
			c.Count("writer.step=concurrent-burst")
			sent, seqs := map[int64][]byte{}, map[int64]int32{}
			type job struct {
				id   int64
				seq  int32
				enc  bin.Encoder
				fail bool
			}
			var jobs [][]job
			for g := 0; g < n; g++ {
				var js []job
				for j := r.Range(1, 3); j > 0; j-- {
					nextID++
					if r.Chance(25) {
						js = append(js, job{nextID, 1, brokenEnc{r.Bytes(8)}, true})
						continue
					}
					p := mkPayload(r)
					sent[nextID], seqs[nextID] = p, int32(2*j)
					js = append(js, job{nextID, int32(2 * j), rawEnc(p), false})
				}
				jobs = append(jobs, js)
			}
			var wg sync.WaitGroup
			for _, js := range jobs {
				wg.Add(1)
				go func(js []job) {
					defer wg.Done()
					for _, j := range js {
						err, p := write(j.id, j.seq, j.enc)
						if p != nil {
							c.Fail("write-panic", fmt.Sprintf("msg_id %d, one of %d concurrent writers [Conn.write sequence: %s] key %s", j.id, n, joinSteps(history), hc.Hex(key[:])), fmt.Sprint(p))
						} else if (err != nil) != j.fail {
							c.Fail("concurrent-write-error", fmt.Sprintf("msg_id %d [%s]", j.id, joinSteps(history)), fmt.Sprint(err))
						}
					}
				}(js)
			}
			wg.Wait()
			rr.take()
			seen := map[int64]bool{}
			for _, f := range w.Frames() {
				if id, ok := verify(f, sent, seqs, fmt.Sprintf("one of %d concurrent writers", n)); ok {
					seen[id] = true
				}
			}
			if len(seen) != len(sent) {
				c.Fail("written-message-differs-from-payload", joinSteps(history), fmt.Sprintf("%d of %d concurrently written messages arrived intact", len(seen), len(sent)))
			}
			nextID++
		default: // a good request, compared with the model too
			p := mkPayload(r)
			history = append(history, fmt.Sprintf("ok%d", len(p)))
			c.Count("writer.step=ok")
			rr.take()
			seq := int32(r.U64())
			nextID++
			if err, pn := write(nextID, seq, rawEnc(p)); err != nil || pn != nil {
				key2 := "write-error"
				if pn != nil {
					key2 = "write-panic"
				}
				c.Fail(key2, fmt.Sprintf("payload %s [Conn.write sequence: %s] key %s", hc.Hex(p), joinSteps(history), hc.Hex(key[:])), fmt.Sprintf("err=%v panic=%v", err, pn))
				w.Frames()
				continue
			}
			rnd := rr.take()
			fs := w.Frames()
			if len(fs) != 1 {
				c.Fail("write-frame-count", joinSteps(history), fmt.Sprintf("%d frames for one write", len(fs)))
				continue
			}
			verify(fs[0], map[int64][]byte{nextID: p}, map[int64]int32{nextID: seq}, "sequential write")
			want := "raw"
			switch {
			case eff <= 0:
				want = "message"
			case len(p) > eff:
				want = "gzip"
			}
			gz := []byte(nil)
			if want == "gzip" {
				var gb bin.Buffer
				if err := (proto.GZIP{Data: p}).Encode(&gb); err == nil && gb.ConsumeID(proto.GZIPTypeID) == nil {
					gz, _ = gb.Bytes()
				}
			}
			line := fmt.Sprintf("newmsg c %s %s %d %d %d %d %d %s %s %s", hc.Hex(key[:]), hc.Hex(ak.ID[:]), opt,
				uint64(salt), uint64(sid), uint64(nextID), uint32(seq), hc.Hex(p), hc.Hex(gz), hc.Hex(rnd))
			c.Eval("writer "+c04shared.Sig(line), true)
			q.Add(line, "ok "+want+" "+hc.Hex(fs[0]))
		}
	}
}
