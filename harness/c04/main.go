// C04 — encrypted messages round-trip: byte-exact correspondence of crypto.Cipher.Encrypt (with a
// deterministic random reader) and Cipher.DecryptFromBuffer with the Lean model TdModel.C04 executed
// on Lean's own SHA-256/AES, plus the property monitor on the implementation (round-trip, body % 16,
// padding 12..1024 on both the sending and the accepting side — defect D2).
package main

import (
	"bytes"
	"fmt"

	"github.com/gotd/td/bin"
	"github.com/gotd/td/crypto"
	"github.com/gotd/td/mtproto"
	"github.com/gotd/td/proto"

	"verif/harness/c04shared"
	"verif/harness/hc"
)

func main() {
	hc.Main(hc.Spec{Prop: "C04", Facts: facts, Run: run})
}

func facts(f *hc.Facts) {
	c04shared.FactsC04(f)
	c04shared.RefreshSiblings(f, map[string]func(*hc.Facts){"C06": c04shared.FactsC06})
}

type rawEnc []byte

func (r rawEnc) Encode(b *bin.Buffer) error { b.Put(r); return nil }

func run(c *hc.Ctx) error {
	r := c.Rng
	var q c04shared.Queue
	var rt c04shared.Retainer
	// ---- 1. countPadding: exhaustive over l mod 16 × every random byte, plus large l
	var ls []int
	for l := 0; l < 64; l++ {
		ls = append(ls, l)
	}
	ls = append(ls, 1<<20, 1<<24-4, 1<<24, 1<<31-1)
	for _, l := range ls {
		for rb := 0; rb < 256; rb++ {
			p := crypto.VerifC04CountPadding(l, byte(rb))
			line := fmt.Sprintf("pad %d %d", l, rb)
			c.Eval(line, true)
			if p < 12 || p > 1024 || (l+p)%16 != 0 {
				c.Fail("countPadding-out-of-spec", line, fmt.Sprintf("countPadding = %d", p))
			}
			q.Add(line, fmt.Sprint(p))
		}
	}
	c.Count("countPadding.grid")
	// ---- 2. round trips
	var sizes []int
	if c.Thorough() {
		for n := 0; n <= 4096; n += 4 {
			sizes = append(sizes, n)
		}
		for rep := 0; rep < 9; rep++ { // every aligned length again, with other keys / sides / paths
			for n := 0; n <= 4096; n += 4 {
				sizes = append(sizes, n)
			}
		}
		for i := 0; i < 1500; i++ {
			sizes = append(sizes, 4*r.Range(1024, 16384))
		}
		sizes = append(sizes, 1<<20, 1<<20-4, 1<<20+4)
	} else {
		for n := 0; n <= 4096; n += 4 {
			sizes = append(sizes, n)
		}
		for i := 0; i < 100; i++ {
			sizes = append(sizes, 4*r.Range(1024, 4096))
		}
		sizes = append(sizes, 65536, 1<<18)
	}
	for _, n := range sizes {
		side := hc.Pick(r, crypto.Client, crypto.Server)
		roundTrip(c, &q, &rt, side, r.Bytes(n), r.Intn(3))
		rt.MaybeVerify(c, 512)
		if err := q.MaybeFlush(c); err != nil {
			return err
		}
	}
	// ---- 3. hand-made frames: padding below / at / above the bounds, misaligned length fields (D2)
	nf := c.N(4000, 100000)
	for i := 0; i < nf; i++ {
		c04shared.CraftedFrame(c, &q, &rt, "C04")
		rt.MaybeVerify(c, 512)
		if err := q.MaybeFlush(c); err != nil {
			return err
		}
	}
	// ---- 3a. reused objects behave like fresh ones (decode targets, output buffers)
	for i := c.N(150, 5000); i > 0; i-- {
		c04shared.ReuseCase(c, &q, "C04")
		if err := q.MaybeFlush(c); err != nil {
			return err
		}
	}
	// ---- 3b. the compression-threshold path: mtproto.Conn.newEncryptedMessage picks Message / GZIP / raw
	for i := c.N(1200, 40000); i > 0; i-- {
		thresholdCase(c, &q, &rt)
		rt.MaybeVerify(c, 512)
		if err := q.MaybeFlush(c); err != nil {
			return err
		}
	}
	rt.Verify(c)
	// ---- 4. the same from 2..4 goroutines at once (every worker owns its ciphers and random reader;
	// Cipher is a value type without shared state): round trip checked immediately, every ciphertext
	// and every decrypted message re-read after all workers are done
	workers := r.Range(2, 4)
	c04shared.Concurrently(c, &rt, workers, c.N(300, 6000)/workers, func(r *hc.RNG, w, i int) {
		key := c04shared.GenKey(r)
		ak := key.WithID()
		side := hc.Pick(r, crypto.Client, crypto.Server)
		payload := r.Bytes(4 * hc.Pick(r, 0, 1, 4, 16, 64, r.Range(0, 512)))
		rnd := r.Bytes(1 + 16*17)
		var enc, dec crypto.Cipher
		if side == crypto.Client {
			enc, dec = crypto.NewClientCipher(bytes.NewReader(rnd)), crypto.NewServerCipher(nil)
		} else {
			enc, dec = crypto.NewServerCipher(bytes.NewReader(rnd)), crypto.NewClientCipher(nil)
		}
		d := crypto.EncryptedMessageData{Salt: int64(r.U64()), SessionID: int64(r.U64()), MessageID: int64(r.U64()), SeqNo: int32(r.U64()), Message: rawEnc(payload)}
		line := fmt.Sprintf("enc %s %s %s %d %d %d %d %d %s %s", c04shared.SideName(side), hc.Hex(key[:]), hc.Hex(ak.ID[:]),
			uint64(d.Salt), uint64(d.SessionID), uint64(d.MessageID), uint32(d.SeqNo), uint32(len(payload)), hc.Hex(payload), hc.Hex(rnd))
		b := &bin.Buffer{}
		c.Count("concurrent.roundtrip")
		if err := enc.Encrypt(ak, d, b); err != nil {
			c.Fail("encrypt-error", line, err.Error())
			return
		}
		rt.Keep("Cipher.Encrypt(concurrent)", line, func() []byte { return b.Buf })
		got, err := dec.DecryptFromBuffer(ak, &bin.Buffer{Buf: append([]byte{}, b.Buf...)})
		if err != nil {
			c.Fail("roundtrip-rejected", line, fmt.Sprintf("concurrent use, %d goroutines: %v", workers, err))
			return
		}
		if got.Salt != d.Salt || got.SessionID != d.SessionID || got.MessageID != d.MessageID || got.SeqNo != d.SeqNo || !bytes.Equal(got.Data(), payload) {
			c.Fail("roundtrip-differs", line, fmt.Sprintf("concurrent use, %d goroutines", workers))
		}
		c04shared.KeepDecrypted(&rt, line, got)
	})
	if err := q.Flush(c); err != nil {
		return err
	}
	c.Res.Rule = "countPadding: every residue l mod 16 (l = 0..63 and four large lengths) × all 256 random bytes (exhaustive for the function's case split). Round trips: every payload length 0..4096 step 4 (once in quick, ten times in thorough) + random up to 16 KiB (64 KiB thorough) + 64 KiB, 256 KiB (quick) / 1 MiB (thorough), both directions, random keys (5% all-zero/all-FF/low entropy), header fields random and at their extremes (0, ±1, min/max, sign bits), four encoder paths (Message encoder and proto.GZIP through EncodeWithoutCopy — model entry encm; raw MessageDataWithPadding and raw with a shorter declared length through Encode — model entry enc). Conn.newEncryptedMessage with threshold options −5, −1, 0 (=1024), 1, 4, 8, 64, 1023..1025, random and encoded payload lengths on and around the threshold (compressible and random payloads). Hand-made frames with padding 0..11, 12, 1024, 1028.. and length fields ≡ 1,2,3 mod 4 or negative. Every ciphertext buffer and every accepted *EncryptedMessageData is retained as returned and re-read after later calls; the round trip also runs from 2..4 goroutines at once. Non-trivial = all; distinct = distinct input line"
	c.PartialNote("gzip compression is a parameter of the model (law gunz(gz d) = d): the executable model is given the bytes the Go compressor produced; the monitor checks that the decrypted object gunzips to the original data; the 10 MB decompression limit of proto.GZIP.Decode is not modelled")
	return nil
}

func roundTrip(c *hc.Ctx, q *c04shared.Queue, rt *c04shared.Retainer, side crypto.Side, payload []byte, path int) {
	r := c.Rng
	key := c04shared.GenKey(r)
	ak := key.WithID()
	if r.Chance(5) {
		copy(ak.ID[:], r.Bytes(8))
	}
	// header values: random, and the extremes of every field (sign bits, all ones, zero)
	x64 := func() int64 {
		return hc.Pick(r, int64(r.U64()), int64(r.U64()), 0, 1, -1, -1<<63, 1<<63-1, int64(r.U64())&0xffffffff, -int64(r.U64()&0xffffffff))
	}
	salt, sid, mid := x64(), x64(), x64()
	seq := hc.Pick(r, int32(r.U64()), int32(r.U64()), 0, 1, -1, -1<<31, 1<<31-1, -2)
	rnd := r.Bytes(1 + 16 + 16*16 + r.Intn(8))
	d := crypto.EncryptedMessageData{Salt: salt, SessionID: sid, MessageID: mid, SeqNo: seq}
	wire := payload
	pathName := ""
	declared := -1 // raw path only: MessageDataLen as given by the caller
	if path == 1 && len(payload) >= 8 && r.Chance(25) {
		path = 3
	}
	switch path {
	case 0:
		d.Message = rawEnc(payload)
		pathName = "message-encoder"
	case 1:
		d.MessageDataLen = int32(len(payload))
		d.MessageDataWithPadding = payload
		pathName = "raw-bytes"
	case 3: // raw path, caller declares fewer bytes than it passes (the rest travels as extra padding)
		declared = len(payload) - 4*r.Range(1, min(len(payload)/4, 170))
		d.MessageDataLen = int32(declared)
		d.MessageDataWithPadding = payload
		pathName = "raw-bytes-short-len"
	case 2:
		g := proto.GZIP{Data: payload}
		var gb bin.Buffer
		if err := g.Encode(&gb); err != nil {
			c.Fail("gzip-encode", fmt.Sprintf("len=%d", len(payload)), err.Error())
			return
		}
		wire = append([]byte{}, gb.Buf...)
		d.Message = g
		pathName = "gzip"
	}
	c.Count("roundtrip.path=" + pathName)
	c.Count(fmt.Sprintf("roundtrip.side=%d", side))
	c.Count("roundtrip.len" + c04shared.SizeBucket(len(payload)))
	var enc, dec crypto.Cipher
	if side == crypto.Client {
		enc, dec = crypto.NewClientCipher(bytes.NewReader(rnd)), crypto.NewServerCipher(nil)
	} else {
		enc, dec = crypto.NewServerCipher(bytes.NewReader(rnd)), crypto.NewClientCipher(nil)
	}
	b := &bin.Buffer{} // own buffer per call: its contents are the API's result and are retained
	line := fmt.Sprintf("enc %s %s %s %d %d %d %d %d %s %s", c04shared.SideName(side), hc.Hex(key[:]), hc.Hex(ak.ID[:]),
		uint64(salt), uint64(sid), uint64(mid), uint32(seq), uint32(len(wire)), hc.Hex(wire), hc.Hex(rnd))
	if declared >= 0 {
		line = fmt.Sprintf("enc %s %s %s %d %d %d %d %d %s %s", c04shared.SideName(side), hc.Hex(key[:]), hc.Hex(ak.ID[:]),
			uint64(salt), uint64(sid), uint64(mid), uint32(seq), uint32(declared), hc.Hex(wire), hc.Hex(rnd))
	}
	if path == 0 || path == 2 { // Message != nil: the EncodeWithoutCopy path has its own model entry
		line = fmt.Sprintf("encm %s %s %s %d %d %d %d %s %s", c04shared.SideName(side), hc.Hex(key[:]), hc.Hex(ak.ID[:]),
			uint64(salt), uint64(sid), uint64(mid), uint32(seq), hc.Hex(wire), hc.Hex(rnd))
	}
	c.Eval(c04shared.Sig(line), true)
	if err := enc.Encrypt(ak, d, b); err != nil {
		c.Fail("encrypt-error", line, err.Error())
		return
	}
	ct := append([]byte{}, b.Buf...)
	rt.Keep("Cipher.Encrypt", line, func() []byte { return b.Buf })
	q.Add(line, "ok "+hc.Hex(ct))
	// monitor on the ciphertext
	if len(ct) < 24 || (len(ct)-24)%16 != 0 {
		c.Fail("body-not-block-aligned", line, fmt.Sprintf("ciphertext length %d", len(ct)))
	}
	pad := len(ct) - 24 - 32 - len(wire)
	want := wire
	if declared >= 0 {
		want = wire[:declared]
	}
	if pad < 12 || pad > 1024 {
		c.Fail("sent-padding-out-of-bounds", line, fmt.Sprintf("padding %d", pad))
	}
	c.Count(fmt.Sprintf("roundtrip.pad-blocks=%d", (pad-12)/16))
	got, err := dec.DecryptFromBuffer(ak, &bin.Buffer{Buf: append([]byte{}, ct...)})
	dline := fmt.Sprintf("dec %s %s %s %s", c04shared.SideName(side^1), hc.Hex(key[:]), hc.Hex(ak.ID[:]), hc.Hex(ct))
	q.Add(dline, c04shared.ShowDecrypt(got, err))
	if err != nil {
		c.Fail("roundtrip-rejected", line, err.Error())
		return
	}
	c04shared.KeepDecrypted(rt, dline, got)
	if got.Salt != salt || got.SessionID != sid || got.MessageID != mid || got.SeqNo != seq ||
		int(got.MessageDataLen) != len(want) || !bytes.Equal(got.Data(), want) {
		c.Fail("roundtrip-differs", line, fmt.Sprintf("got salt=%d sid=%d mid=%d seq=%d len=%d", got.Salt, got.SessionID, got.MessageID, got.SeqNo, got.MessageDataLen))
	}
	if path == 2 {
		var g proto.GZIP
		if err := g.Decode(&bin.Buffer{Buf: got.Data()}); err != nil || !bytes.Equal(g.Data, payload) {
			c.Fail("gzip-roundtrip-differs", line, fmt.Sprint(err))
		}
	}
	// the same ciphertext must not be accepted by the sender's own cipher (reflection) — C05 goes deeper
	if back, err := enc.DecryptFromBuffer(ak, &bin.Buffer{Buf: append([]byte{}, ct...)}); (err == nil || back != nil) && !c04shared.Degenerate(key) {
		c.Fail("reflection-accepted", line, "the sending side decrypted its own message")
	}
}

// thresholdCase drives Conn.newEncryptedMessage with a threshold option and an encoded payload length
// on and around the threshold; the model gets the bytes gzip produced (compression is a parameter of
// the model) and must output the same ciphertext and take the same branch.
func thresholdCase(c *hc.Ctx, q *c04shared.Queue, rt *c04shared.Retainer) {
	r := c.Rng
	opt := hc.Pick(r, -1, -5, 0, 0, 1, 4, 8, 64, 1023, 1024, 1025, 4*r.Range(1, 600))
	eff := opt
	if eff == 0 {
		eff = 1024
	}
	n := 4 * r.Range(0, 64)
	if eff > 0 {
		n = max(0, 4*((eff+hc.Pick(r, -8, -4, -1, 0, 1, 3, 4, 8, 12, r.Range(-40, 400)))/4))
		if r.Chance(10) {
			n = 0
		}
	}
	var payload []byte
	if r.Bool() { // compressible
		payload = bytes.Repeat(r.Bytes(4), n/4)
	} else {
		payload = r.Bytes(n)
	}
	key := c04shared.GenKey(r)
	ak := key.WithID()
	side := hc.Pick(r, crypto.Client, crypto.Server)
	rnd := r.Bytes(1 + 16*17)
	var enc, dec crypto.Cipher
	if side == crypto.Client {
		enc, dec = crypto.NewClientCipher(bytes.NewReader(rnd)), crypto.NewServerCipher(nil)
	} else {
		enc, dec = crypto.NewServerCipher(bytes.NewReader(rnd)), crypto.NewClientCipher(nil)
	}
	salt, sid, mid, seq := int64(r.U64()), int64(r.U64()), int64(r.U64()), int32(r.U64())
	want := "raw"
	switch {
	case eff <= 0:
		want = "message"
	case len(payload) > eff:
		want = "gzip"
	}
	gz := []byte(nil)
	if want == "gzip" {
		var gb bin.Buffer
		if err := (proto.GZIP{Data: payload}).Encode(&gb); err == nil && gb.ConsumeID(proto.GZIPTypeID) == nil {
			gz, _ = gb.Bytes()
		}
	}
	line := fmt.Sprintf("newmsg %s %s %s %d %d %d %d %d %s %s %s", c04shared.SideName(side), hc.Hex(key[:]), hc.Hex(ak.ID[:]), opt,
		uint64(salt), uint64(sid), uint64(mid), uint32(seq), hc.Hex(payload), hc.Hex(gz), hc.Hex(rnd))
	c.Count("threshold.path=" + want)
	c.Eval(c04shared.Sig(line), true)
	b := &bin.Buffer{}
	err := mtproto.VerifC04NewEncryptedMessage(mtproto.Options{CompressThreshold: opt, Cipher: enc, Random: r}, ak, sid, salt, mid, seq, rawEnc(payload), b)
	if err != nil {
		c.Fail("newEncryptedMessage-error", line, err.Error())
		return
	}
	q.Add(line, "ok "+want+" "+hc.Hex(b.Buf))
	rt.Keep("Conn.newEncryptedMessage", line, func() []byte { return b.Buf })
	got, err := dec.DecryptFromBuffer(ak, &bin.Buffer{Buf: append([]byte{}, b.Buf...)})
	if err != nil {
		c.Fail("roundtrip-rejected", line, "threshold path "+want+": "+err.Error())
		return
	}
	if got.Salt != salt || got.SessionID != sid || got.MessageID != mid || got.SeqNo != seq {
		c.Fail("roundtrip-differs", line, "threshold path "+want+": header fields differ")
	}
	data := got.Data()
	if want == "gzip" {
		var g proto.GZIP
		if err := g.Decode(&bin.Buffer{Buf: append([]byte{}, data...)}); err != nil || !bytes.Equal(g.Data, payload) {
			c.Fail("gzip-roundtrip-differs", line, fmt.Sprintf("payload of %d bytes over threshold %d: err=%v", len(payload), eff, err))
		}
	} else if !bytes.Equal(data, payload) {
		c.Fail("roundtrip-differs", line, fmt.Sprintf("threshold path %s: %d bytes sent, %d bytes received", want, len(payload), len(data)))
	}
	c04shared.KeepDecrypted(rt, line, got)
}
