// C18 — obfuscated2 handshake: correspondence of obfuscated2.{Obfuscated2.Handshake/Write/Read, Accept}
// with the Lean model TdModel.C18 (driver: real AES-CTR and SHA-256 from TdModel.Prim), plus the
// property monitor on the implementation, also composed with the transport codecs through
// transport.ObfuscatedListener.
package main

import (
	"bytes"
	"context"
	"encoding/binary"
	"errors"
	"fmt"
	"go/ast"
	"go/token"
	"io"
	"net"
	"strconv"
	"strings"
	"time"

	"github.com/gotd/td/bin"
	"github.com/gotd/td/mtproxy"
	"github.com/gotd/td/mtproxy/obfuscated2"
	"github.com/gotd/td/proto/codec"
	"github.com/gotd/td/transport"

	"verif/harness/hc"
)

func main() {
	hc.Main(hc.Spec{Prop: "C18", Facts: facts, Run: run})
}

const dir = "mtproxy/obfuscated2"

func squash(s string) string { return strings.Join(strings.Fields(s), "") }

// cint evaluates a small constant integer expression (literals, + - *).
func cint(x ast.Expr) (int, bool) {
	switch x := x.(type) {
	case nil:
		return 0, false
	case *ast.BasicLit:
		v, err := strconv.ParseInt(x.Value, 0, 64)
		return int(v), err == nil
	case *ast.ParenExpr:
		return cint(x.X)
	case *ast.BinaryExpr:
		a, ok1 := cint(x.X)
		b, ok2 := cint(x.Y)
		if !ok1 || !ok2 {
			return 0, false
		}
		switch x.Op {
		case token.ADD:
			return a + b, true
		case token.SUB:
			return a - b, true
		case token.MUL:
			return a * b, true
		}
	}
	return 0, false
}

// sliceOf finds the first slice expression of identifier `of` inside node n; a missing low bound is 0.
func sliceOf(f *hc.Facts, n ast.Node, of string) (lo, hi int, ok bool) {
	ast.Inspect(n, func(m ast.Node) bool {
		se, is := m.(*ast.SliceExpr)
		if !is || ok || squash(f.Src(se.X)) != of {
			return true
		}
		l, lok := 0, true
		if se.Low != nil {
			l, lok = cint(se.Low)
		}
		h, hok := cint(se.High)
		if lok && hok {
			lo, hi, ok = l, h, true
		}
		return true
	})
	return
}

// stmtWith returns the first statement (at any depth) of fd whose squashed source contains all of subs.
func stmtWith(f *hc.Facts, fd *ast.FuncDecl, subs ...string) ast.Stmt {
	var out ast.Stmt
	if fd == nil || fd.Body == nil {
		return nil
	}
	ast.Inspect(fd.Body, func(m ast.Node) bool {
		st, is := m.(ast.Stmt)
		if !is || out != nil {
			return true
		}
		if _, isBlock := st.(*ast.BlockStmt); isBlock {
			return true
		}
		src := squash(f.Src(st))
		for _, s := range subs {
			if !strings.Contains(src, s) {
				return true
			}
		}
		switch st.(type) {
		case *ast.AssignStmt, *ast.ExprStmt:
			out = st
		}
		return true
	})
	return out
}

func rangeFact(f *hc.Facts, name string, fd *ast.FuncDecl, of string, subs ...string) {
	st := stmtWith(f, fd, subs...)
	if st == nil {
		f.Missing(name+"Lo", "statement with "+strings.Join(subs, " & ")+" not found")
		f.Missing(name+"Hi", "statement with "+strings.Join(subs, " & ")+" not found")
		return
	}
	lo, hi, ok := sliceOf(f, st, of)
	if !ok {
		f.Missing(name+"Lo", "slice of "+of+" with constant bounds not found in `"+squash(f.Src(st))+"`")
		f.Missing(name+"Hi", "slice of "+of+" with constant bounds not found")
		return
	}
	f.Nat(name+"Lo", lo, of+"[lo:hi] in `"+squash(f.Src(st))+"`")
	f.Nat(name+"Hi", hi, "")
}

// layoutFacts: the byte ranges the handshake code uses, as numbers the model interprets.
func layoutFacts(f *hc.Facts) {
	cs := f.FuncDecl(dir, "keys.createStreams")
	rangeFact(f, "encKey", cs, "init", "encryptKey:=")
	rangeFact(f, "encIV", cs, "init", "encryptIV:=")
	rangeFact(f, "decKey", cs, "initRev", "decryptKey:=")
	rangeFact(f, "decIV", cs, "initRev", "decryptIV:=")
	rangeFact(f, "secretCut", cs, "secret", "secret=secret[")
	gd := f.FuncDecl(dir, "getDecryptInit")
	rangeFact(f, "rev", gd, "init", "copy(initRev[:]")
	gk := f.FuncDecl(dir, "generateKeys")
	rangeFact(f, "tag", gk, "init", "copy(init[", "protocol[:]")
	rangeFact(f, "dc", gk, "init", "PutUint16(init[")
	rangeFact(f, "hdrPlain", gk, "init", "copy(k.header,init[")
	rangeFact(f, "hdrEnc", gk, "encryptedInit", "copy(k.header[")
	// k.header[N:] — where the encrypted part goes
	at := -1
	if st := stmtWith(f, gk, "copy(k.header["); st != nil {
		ast.Inspect(st, func(m ast.Node) bool {
			if se, ok := m.(*ast.SliceExpr); ok && squash(f.Src(se.X)) == "k.header" && se.High == nil {
				if v, ok := cint(se.Low); ok {
					at = v
				}
			}
			return true
		})
	}
	if at < 0 {
		f.Missing("hdrEncAt", "copy(k.header[N:], …) not found")
	} else {
		f.Nat("hdrEncAt", at, "copy(k.header[N:], encryptedInit[…])")
	}
	// len(secret) < K
	smin := -1
	if cs != nil {
		ast.Inspect(cs, func(m ast.Node) bool {
			be, ok := m.(*ast.BinaryExpr)
			if ok && be.Op == token.LSS && squash(f.Src(be.X)) == "len(secret)" {
				if v, ok := cint(be.Y); ok {
					smin = v
				}
			}
			return true
		})
	}
	if smin < 0 {
		f.Missing("secretMin", "len(secret) < K not found in createStreams")
	} else {
		f.Nat("secretMin", smin, "createStreams: len(secret) < K is an error")
	}
	hl := -1
	if st := stmtWith(f, gk, "k.header=make([]byte,"); st != nil {
		ast.Inspect(st, func(m ast.Node) bool {
			if c, ok := m.(*ast.CallExpr); ok && f.Src(c.Fun) == "make" && len(c.Args) == 2 {
				if v, ok := cint(c.Args[1]); ok {
					hl = v
				}
			}
			return true
		})
	}
	if hl < 0 {
		f.Missing("headerLen", "k.header = make([]byte, N) not found")
	} else {
		f.Nat("headerLen", hl, "generateKeys: k.header = make([]byte, N)")
	}
	ac := f.FuncDecl(dir, "Accept")
	rangeFact(f, "metaTag", ac, "decrypted", "copy(meta.Protocol[:]")
	rangeFact(f, "metaDC", ac, "decrypted", "meta.DC=")
}

func facts(f *hc.Facts) {
	layoutFacts(f)
	gi := f.FuncDecl(dir, "generateInit")
	var reserved []string
	abr, zeroSecond := -1, false
	if gi != nil {
		ast.Inspect(gi, func(n ast.Node) bool {
			be, ok := n.(*ast.BinaryExpr)
			if !ok || be.Op != token.EQL {
				return true
			}
			lit, ok := be.Y.(*ast.BasicLit)
			if !ok {
				return true
			}
			v, err := strconv.ParseUint(lit.Value, 0, 64)
			if err != nil {
				return true
			}
			switch squash(f.Src(be.X)) {
			case "firstInt":
				reserved = append(reserved, strconv.FormatUint(v, 10))
			case "init[0]":
				abr = int(v)
			case "secondInt":
				if v == 0 {
					zeroSecond = true
				}
			}
			return true
		})
	}
	if abr < 0 {
		f.Missing("abridgedByte", "generateInit: init[0] == const not found")
	} else {
		f.Nat("abridgedByte", abr, "generateInit: init[0] == …")
	}
	if len(reserved) == 0 {
		f.Missing("reserved", "generateInit: firstInt == const list not found")
	} else {
		f.Raw("def reserved : List Nat := [" + strings.Join(reserved, ", ") + "] -- generateInit: firstInt == … (in source order)")
	}
	src := squash(f.FuncSrc(dir, "generateInit"))
	f.Bool("secondIntZeroRejected", zeroSecond && strings.Contains(src, "secondInt:=binary.LittleEndian.Uint32(init[4:8]);secondInt==0{continue}"), "generateInit: secondInt == 0 → continue")
	f.Bool("firstIntIsLE0to4", strings.Contains(src, "firstInt:=binary.LittleEndian.Uint32(init[0:4])"), "generateInit: firstInt = LE32(init[0:4])")
	gd := squash(f.FuncSrc(dir, "getDecryptInit"))
	f.Bool("decryptInitIsReversed", strings.Contains(gd, "initRev[left],initRev[right]=initRev[right],initRev[left]"), "getDecryptInit: the copied range is reversed in place")
	ac := squash(f.FuncSrc(dir, "Accept"))
	f.Bool("acceptSwaps", strings.Contains(ac, "k.encrypt,k.decrypt=k.decrypt,k.encrypt"), "Accept: k.encrypt, k.decrypt = k.decrypt, k.encrypt")
	// Obfuscated2.Read: on which errors of the underlying Read the n bytes are handed back WITHOUT being
	// decrypted (0 = never, 1 = on errors other than io.EOF, 2 = on every error) — interpreted by the model
	skip := -1
	if fd := f.FuncDecl(dir, "Obfuscated2.Read"); fd != nil && fd.Body != nil {
		skip = 0
		for _, st := range fd.Body.List {
			src := squash(f.Src(st))
			if strings.Contains(src, "XORKeyStream(") {
				break // statements from here on run after (or together with) the decryption
			}
			is, ok := st.(*ast.IfStmt)
			if !ok || !strings.Contains(squash(f.Src(is.Cond)), "err!=nil") {
				continue
			}
			if _, ret := is.Body.List[len(is.Body.List)-1].(*ast.ReturnStmt); !ret {
				continue
			}
			if strings.Contains(squash(f.Src(is.Cond)), "io.EOF") {
				if skip < 1 {
					skip = 1
				}
			} else {
				skip = 2
			}
		}
		if !strings.Contains(squash(f.FuncSrc(dir, "Obfuscated2.Read")), "XORKeyStream(") {
			skip = -1
		}
	}
	if skip < 0 {
		f.Missing("readSkipsDecryptOn", "Obfuscated2.Read: XORKeyStream not found")
	} else {
		f.Nat("readSkipsDecryptOn", skip, "Obfuscated2.Read returns before XORKeyStream: 0 never, 1 on non-EOF errors, 2 on any error")
	}
}

type pipeRW struct {
	out bytes.Buffer
	in  io.Reader
}

func (p *pipeRW) Write(b []byte) (int, error) { return p.out.Write(b) }
func (p *pipeRW) Read(b []byte) (int, error)  { return p.in.Read(b) }

// chunks cuts data into PRNG-chosen pieces (each ≥ 1 byte).
func chunks(r *hc.RNG, data []byte) [][]byte {
	var out [][]byte
	for len(data) > 0 {
		n := 1 + r.Intn(hc.Pick(r, 1, 2, 5, 16, 64, 300))
		if n > len(data) {
			n = len(data)
		}
		out = append(out, data[:n])
		data = data[n:]
	}
	return out
}

// errTemporary is a non-EOF error a connection may deliver together with data (e.g. a deadline that
// fires while bytes were already received); reading can go on afterwards.
var errTemporary = errors.New("temporary read error (delivered together with data)")

// listReader returns exactly the prepared chunks, one per Read.  With eofWithLast the last chunk is
// returned together with io.EOF; chunks listed in tempErr are returned together with errTemporary.
// Both are allowed by the io.Reader contract ("callers should always process the n > 0 bytes
// returned before considering the error").
type listReader struct {
	chunks      [][]byte
	eofWithLast bool
	tempErr     map[int]bool // index (in the original list) of chunks delivered with errTemporary
	idx         int
}

func (l *listReader) Read(p []byte) (int, error) {
	if len(l.chunks) == 0 {
		return 0, io.EOF
	}
	c := l.chunks[0]
	n := copy(p, c)
	whole := n == len(c)
	if !whole {
		l.chunks[0] = c[n:]
	} else {
		l.chunks = l.chunks[1:]
	}
	if l.eofWithLast && len(l.chunks) == 0 {
		return n, io.EOF
	}
	if whole {
		i := l.idx
		l.idx++
		if l.tempErr[i] && n > 0 {
			return n, errTemporary
		}
	}
	return n, nil
}

// readTolerant reads until io.EOF, going on after errTemporary (keeping the bytes that came with it).
func readTolerant(r io.Reader) []byte {
	var out []byte
	buf := make([]byte, 4096)
	for {
		n, err := r.Read(buf)
		out = append(out, buf[:n]...)
		if err != nil && !errors.Is(err, errTemporary) {
			return out
		}
	}
}

// hexListE renders chunks, marking those delivered with errTemporary by a trailing `t`.
func hexListE(bs [][]byte, tempErr map[int]bool) string {
	if len(bs) == 0 {
		return "-"
	}
	s := make([]string, len(bs))
	for i, b := range bs {
		s[i] = hc.Hex(b)
		if tempErr[i] {
			s[i] += "t"
		}
	}
	return strings.Join(s, ",")
}

func hexList(bs [][]byte) string {
	if len(bs) == 0 {
		return "-"
	}
	s := make([]string, len(bs))
	for i, b := range bs {
		s[i] = hc.Hex(b)
	}
	return strings.Join(s, ",")
}

var failSeen = map[string]int{}

func fail(c *hc.Ctx, key, input, detail string) {
	failSeen[key]++
	c.Count("monitor." + key)
	if failSeen[key] <= 2 {
		c.Fail(key, input, detail)
	}
}

var reservedFirst = [][]byte{[]byte("HEAD"), []byte("POST"), []byte("GET "), []byte("OPTI"), {0x16, 0x03, 0x01, 0x02},
	{0xdd, 0xdd, 0xdd, 0xdd}, {0xee, 0xee, 0xee, 0xee}}

func genTape(r *hc.RNG) (tape []byte, retries int) {
	for {
		blk := r.Bytes(64)
		bad := false
		if r.Chance(35) && retries < 4 {
			bad = true
			switch r.Intn(3) {
			case 0:
				blk[0] = 0xef
			case 1:
				copy(blk, hc.Pick(r, reservedFirst...))
			case 2:
				copy(blk[4:8], []byte{0, 0, 0, 0})
			}
		}
		tape = append(tape, blk...)
		// the block may be bad by chance as well; the implementation decides
		if !bad {
			return tape, retries
		}
		retries++
	}
}

func run(c *hc.Ctx) error {
	r := c.Rng
	var lines, impls []string
	add := func(line, impl string) {
		lines = append(lines, line)
		impls = append(impls, impl)
	}
	tags := [][4]byte{{0xef, 0xef, 0xef, 0xef}, {0xee, 0xee, 0xee, 0xee}, {0xdd, 0xdd, 0xdd, 0xdd}}
	n := c.N(4000, 60000)
	for i := 0; i < n; i++ {
		tape, retries := genTape(r)
		tape = append(tape, r.Bytes(64)...) // spare block: unused unless the last candidate is rejected by chance
		tag := hc.Pick(r, tags...)
		if r.Chance(20) {
			copy(tag[:], r.Bytes(4))
		}
		dc := hc.Pick(r, 1, 2, 3, 4, 5, -1, -2, -5, 10002, -10002, 32767, -32768, 65535, 70000, r.Range(-40000, 70000))
		var secret []byte
		switch r.Intn(10) {
		case 0, 1, 2, 3:
		case 4, 5, 6, 7:
			secret = r.Bytes(16)
		case 8:
			secret = r.Bytes(hc.Pick(r, 17, 20, 32))
		case 9:
			secret = r.Bytes(r.Range(1, 15))
		}
		c.Count(fmt.Sprintf("retries=%d", retries))
		c.Count(fmt.Sprintf("secret.len=%s", map[bool]string{true: "0", false: map[bool]string{true: "<16", false: ">=16"}[len(secret) < 16]}[len(secret) == 0]))
		hline := fmt.Sprintf("hs %s %s %d %s", hc.Hex(tape), hc.Hex(tag[:]), dc, hc.Hex(secret))
		c.Eval(hline, true)

		// client
		cconn := &pipeRW{}
		cl := obfuscated2.NewObfuscated2(bytes.NewReader(tape), cconn)
		err := cl.Handshake(tag, dc, mtproxy.Secret{Secret: secret})
		if err != nil {
			cls := "err other:" + err.Error()
			if strings.Contains(err.Error(), "invalid secret size") {
				cls = "err secret-size"
			} else if errors.Is(err, io.EOF) || errors.Is(err, io.ErrUnexpectedEOF) {
				cls = "err short" // every candidate on the tape was rejected (by chance) and the tape ended
				c.Count("tape.exhausted-by-chance")
			}
			add(hline, cls)
			continue
		}
		header := append([]byte{}, cconn.out.Bytes()...)
		// monitor: header never starts with a pattern reserved for unobfuscated protocols
		if len(header) != 64 {
			fail(c, "header-length", hline, fmt.Sprintf("header has %d bytes", len(header)))
			continue
		}
		bad := header[0] == 0xef || binary.LittleEndian.Uint32(header[4:8]) == 0
		for _, p := range reservedFirst {
			if bytes.Equal(header[:4], p) {
				bad = true
			}
		}
		if bad {
			fail(c, "header-reserved-prefix", hline, "header starts with "+hc.Hex(header[:8]))
		}
		// the client sends its data right behind the header, before the server gets to Accept: whatever is
		// queued behind the 64 header bytes must still reach the server's Read calls
		var c2s, s2c [][]byte
		for j := r.Intn(5); j > 0; j-- {
			c2s = append(c2s, r.Bytes(hc.Pick(r, 0, 1, 15, 16, 17, 48, r.Range(1, 200))))
		}
		for j := r.Intn(5); j > 0; j-- {
			s2c = append(s2c, r.Bytes(hc.Pick(r, 0, 1, 15, 16, 17, 48, r.Range(1, 200))))
		}
		if i <= 100 { // dense sweep: every write size 0..302, three consecutive sizes per direction
			c2s = [][]byte{r.Bytes(3 * i), r.Bytes(3*i + 1), r.Bytes(3*i + 2)}
			s2c = [][]byte{r.Bytes(3*i + 2), r.Bytes(3 * i), r.Bytes(3*i + 1)}
			c.Count("data.dense-sizes")
		}
		cconn.out.Reset()
		for _, w := range c2s {
			if n, err := cl.Write(append([]byte{}, w...)); err != nil || n != len(w) {
				fail(c, "write-result", hline, fmt.Sprintf("client Write(%d) = %d, %v", len(w), n, err))
			}
		}
		wireUp := append([]byte{}, cconn.out.Bytes()...)
		// server: header and data arrive in PRNG-chosen pieces that need not respect the header boundary
		all := append(append([]byte{}, header...), wireUp...)
		var allChunks [][]byte
		switch r.Intn(4) {
		case 0:
			allChunks = [][]byte{all} // everything readable at once
		case 1:
			allChunks = append(chunks(r, header), chunks(r, wireUp)...)
		default:
			allChunks = chunks(r, all)
		}
		// what the server's Read calls will see after Accept took its 64 bytes
		var upChunks [][]byte
		skip := 64
		for _, ch := range allChunks {
			if skip >= len(ch) {
				skip -= len(ch)
				continue
			}
			upChunks = append(upChunks, ch[skip:])
			skip = 0
		}
		eofLast := r.Chance(30)
		if eofLast {
			c.Count("data.last-chunk-with-EOF")
		}
		upTemp, downTemp := map[int]bool{}, map[int]bool{}
		if r.Chance(30) {
			c.Count("data.chunk-with-temporary-error")
			for k := range upChunks {
				if r.Chance(40) {
					upTemp[k] = true
				}
			}
		}
		// the reader numbers whole chunks as it delivers them; Accept consumes the chunks before upChunks
		srvTemp := map[int]bool{}
		off := len(allChunks) - len(upChunks)
		for k := range upTemp {
			srvTemp[off+k] = true
		}
		if len(upChunks) > 0 && len(allChunks) > 0 && len(upChunks[0]) != len(allChunks[off]) {
			// the first data piece shares a chunk with the header: it is delivered by a partial copy first
			delete(upTemp, 0)
			delete(srvTemp, off)
		}
		sconn := &pipeRW{in: &listReader{chunks: allChunks, eofWithLast: eofLast, tempErr: srvTemp}}
		srv, md, err := obfuscated2.Accept(sconn, secret)
		if err != nil {
			fail(c, "accept-error", hline, err.Error())
			continue
		}
		if md.Protocol != tag || md.DC != uint16(dc) {
			fail(c, "metadata", hline, fmt.Sprintf("accepted protocol %x dc %d, client sent %x dc %d", md.Protocol, md.DC, tag, uint16(dc)))
		}
		add(hline, fmt.Sprintf("ok %s %s %d", hc.Hex(header), hc.Hex(md.Protocol[:]), md.DC))
		gotUp := readTolerant(srv)

		for _, w := range s2c {
			if n, err := srv.Write(append([]byte{}, w...)); err != nil || n != len(w) {
				fail(c, "write-result", hline, fmt.Sprintf("server Write(%d) = %d, %v", len(w), n, err))
			}
		}
		wireDown := append([]byte{}, sconn.out.Bytes()...)
		downChunks := chunks(r, wireDown)
		if len(upTemp) > 0 || r.Chance(15) {
			for k := range downChunks {
				if r.Chance(40) {
					downTemp[k] = true
				}
			}
		}
		cconn.in = &listReader{chunks: append([][]byte{}, downChunks...), eofWithLast: eofLast, tempErr: downTemp}
		gotDown := readTolerant(cl)
		wantUp, wantDown := bytes.Join(c2s, nil), bytes.Join(s2c, nil)
		dline := fmt.Sprintf("data %s %s %d %s %s %s %s %s %v", hc.Hex(tape), hc.Hex(tag[:]), dc, hc.Hex(secret), hexList(c2s), hexListE(upChunks, upTemp), hexList(s2c), hexListE(downChunks, downTemp), eofLast)
		c.Eval(dline, len(wantUp)+len(wantDown) > 0)
		if !bytes.Equal(gotUp, wantUp) {
			fail(c, "stream-client-to-server", dline, fmt.Sprintf("server read %d bytes, client wrote %d (or content differs)", len(gotUp), len(wantUp)))
		}
		if !bytes.Equal(gotDown, wantDown) {
			fail(c, "stream-server-to-client", dline, fmt.Sprintf("client read %d bytes, server wrote %d (or content differs)", len(gotDown), len(wantDown)))
		}
		if len(wireUp) > 0 && bytes.Equal(wireUp, wantUp) && len(wantUp) >= 8 {
			fail(c, "not-obfuscated", dline, "the bytes on the wire equal the plaintext")
		}
		add(dline, fmt.Sprintf("%s %s %s %s", hc.Hex(wireUp), hc.Hex(gotUp), hc.Hex(wireDown), hc.Hex(gotDown)))
	}

	// tapes that end before an acceptable candidate appears / short tapes
	for i := 0; i < c.N(60, 1000); i++ {
		var tape []byte
		for j := r.Intn(3); j > 0; j-- {
			blk := r.Bytes(64)
			blk[0] = 0xef
			tape = append(tape, blk...)
		}
		tape = append(tape, r.Bytes(r.Intn(64))...)
		cl := obfuscated2.NewObfuscated2(bytes.NewReader(tape), &pipeRW{})
		err := cl.Handshake([4]byte{0xee, 0xee, 0xee, 0xee}, 2, mtproxy.Secret{})
		line := fmt.Sprintf("hs %s eeeeeeee 2 -", hc.Hex(tape))
		c.Eval(line, true)
		c.Count("tape.exhausted")
		if err == nil {
			fail(c, "handshake-without-randomness", line, "Handshake succeeded on an exhausted random source")
			continue
		}
		add(line, "err short")
	}

	if err := endToEnd(c); err != nil {
		return err
	}

	c.Res.Rule = "handshakes over random tapes (35% of candidates forced to a reserved prefix: ef, HEAD/POST/GET /OPTI/16030102/dd×4/ee×4, zero second word → retry loop), the three codec tags + random tags, dc ∈ {±1..5, ±10002, 32767, −32768, 65535, 70000, random −40000..70000}, secrets of 0, 16, >16 and 1–15 bytes; then 0–4 writes per direction (0, 1, 15, 16, 17, 48, random ≤ 200 bytes: around the AES block) read back through PRNG-chunked reads; exhausted random sources; end to end through transport.ObfuscatedListener + transport.Listen with a codec on top. Non-trivial = all handshakes, data cases with at least one byte; distinct = distinct driver line"
	c.PartialNote("AES-CTR and SHA-256 are parameters of the theorems (XOR with an arbitrary keystream); the driver runs TdModel.Prim.aesCtrAt / sha256 and is compared byte for byte with crypto/aes + cipher.NewCTR here")
	outs, err := c.Drv.Batch(lines)
	if err != nil {
		return err
	}
	for i, o := range outs {
		if c.Compare(lines[i], impls[i], o) {
			c.Res.TracesValidated++
		}
	}
	return nil
}

type memListener struct{ ch chan net.Conn }

func (l *memListener) Accept() (net.Conn, error) {
	c, ok := <-l.ch
	if !ok {
		return nil, io.EOF
	}
	return c, nil
}
func (l *memListener) Close() error   { return nil }
func (l *memListener) Addr() net.Addr { return &net.TCPAddr{} }

// endToEnd composes the obfuscated2 client with a transport codec and reads the frames on a server
// built from transport.ObfuscatedListener + transport.Listen (protocol detected from the tag).
func endToEnd(c *hc.Ctx) error {
	r := c.Rng
	type proto struct {
		name string
		tag  [4]byte
		cd   codec.Codec
	}
	protos := []proto{
		{"abridged", [4]byte{0xef, 0xef, 0xef, 0xef}, codec.Abridged{}},
		{"intermediate", [4]byte{0xee, 0xee, 0xee, 0xee}, codec.Intermediate{}},
		{"padded", [4]byte{0xdd, 0xdd, 0xdd, 0xdd}, codec.PaddedIntermediate{}},
	}
	for i := 0; i < c.N(40, 1500); i++ {
		p := hc.Pick(r, protos...)
		ln := &memListener{ch: make(chan net.Conn, 1)}
		cl, sv := net.Pipe()
		ln.ch <- sv
		type acc struct {
			conn transport.Conn
			err  error
		}
		accCh := make(chan acc, 1)
		go func() {
			conn, err := transport.Listen(transport.ObfuscatedListener(ln)).Accept()
			accCh <- acc{conn, err}
		}()
		sig := fmt.Sprintf("e2e %s case=%d", p.name, i)
		c.Eval(sig, true)
		c.Count("e2e." + p.name)
		cl.SetDeadline(time.Now().Add(10 * time.Minute))
		ob := obfuscated2.NewObfuscated2(r, cl)
		if err := ob.Handshake(p.tag, hc.Pick(r, 2, -2, 10004), mtproxy.Secret{}); err != nil {
			return err
		}
		nf := r.Range(1, 6)
		var sent [][]byte
		errc := make(chan error, 1)
		for j := 0; j < nf; j++ {
			sent = append(sent, r.Bytes(4*hc.Pick(r, 2, 3, 126, 127, 128, r.Range(2, 300))))
		}
		go func() {
			defer func() {
				if r := recover(); r != nil {
					errc <- fmt.Errorf("Write panicked: %v", r)
				}
			}()
			// when everything is written nothing more can arrive: close, so that a receiver waiting for
			// bytes that will never come gets EOF instead of waiting for a deadline
			defer cl.Close()
			for _, s := range sent {
				if err := p.cd.Write(ob, &bin.Buffer{Buf: append([]byte{}, s...)}); err != nil {
					errc <- err
					return
				}
			}
			errc <- nil
		}()
		a := <-accCh
		if a.err != nil {
			fail(c, "e2e-accept:"+p.name, sig, a.err.Error())
			sv.Close()
			cl.Close()
			<-errc
			continue
		}
		ctx, cancel := context.WithTimeout(context.Background(), 10*time.Minute)
		bad := ""
		for j := range sent {
			var b bin.Buffer
			if err := a.conn.Recv(ctx, &b); err != nil {
				bad = fmt.Sprintf("Recv #%d: %v", j, err)
				break
			}
			if !bytes.Equal(b.Buf, sent[j]) {
				bad = fmt.Sprintf("Recv #%d: frame differs from what was sent", j)
				break
			}
		}
		cancel()
		if bad != "" {
			fail(c, "e2e-obfuscated:"+p.name, sig, bad)
		} else {
			c.Res.TracesValidated++
		}
		a.conn.Close() // unblocks the writer if the receiver gave up early
		<-errc
	}
	return nil
}
