package main

// Sessions: sequences of operations on ONE codec object / ONE connection in which failing
// operations are mixed with succeeding ones.  A failed operation must not change the codec's state:
// a rejected Write (empty, unaligned, over the limit) puts nothing on the wire and consumes no
// sequence number, so the receiver gets exactly the accepted payloads, in order.  On the reading
// side, frames that Read reports as an error after consuming them whole (transport error codes,
// full-protocol CRC mismatches) are followed by valid frames that must still be delivered.

import (
	"bytes"
	"context"
	"fmt"
	"io"
	"net"
	"strings"

	"github.com/gotd/td/bin"
	"github.com/gotd/td/proto/codec"
	"github.com/gotd/td/transport"

	"verif/harness/c16c17"
	"verif/harness/hc"
)

type sop struct {
	rnd     []byte
	payload []byte
	desc    string // payload as the driver reads it
	valid   bool
}

func genSessionOps(r *hc.RNG, kind string, allowHuge bool) []sop {
	n := r.Range(3, 10)
	ops := make([]sop, 0, n)
	for i := 0; i < n; i++ {
		o := sop{rnd: r.Bytes(4), valid: true}
		switch r.Intn(10) {
		case 0, 1: // empty
			o.payload, o.desc, o.valid = nil, "-", false
		case 2, 3: // unaligned (accepted by full, rejected by the others)
			o.payload = r.Bytes(4*r.Range(2, 60) + r.Range(1, 3))
			o.valid = kind == "full"
		case 4:
			if allowHuge {
				l := maxMsg + hc.Pick(r, 1, 4, 8)
				o.payload, o.desc, o.valid = make([]byte, l), fmt.Sprintf("z%d", l), false
				break
			}
			fallthrough
		default:
			o.payload = genPayload(r, hc.Pick(r, 8, 12, 504, 508, 512, 4*r.Range(2, 120)))
		}
		if o.desc == "" {
			o.desc = hc.Hex(o.payload)
		}
		ops = append(ops, o)
	}
	return ops
}

// writeSessions: codec level (compared with the model's writeSession) and connection level.
func writeSessions(c *hc.Ctx, add func(line, impl string)) {
	r := c.Rng
	huge := 0
	for i := 0; i < c.N(400, 15000); i++ {
		kind := hc.Pick(r, c16c17.Kinds...)
		seq0 := int64(hc.Pick(r, 0, 0, 1, 7, r.Intn(1000)))
		allowHuge := (c.Thorough() && r.Chance(2)) || (huge < 2 && r.Chance(3))
		ops := genSessionOps(r, kind, allowHuge)
		cd := c16c17.NewCodec(kind, seq0)
		var wire bytes.Buffer
		var outs, descs []string
		var accepted [][]byte
		bad := ""
		for _, o := range ops {
			if strings.HasPrefix(o.desc, "z") {
				huge++
			}
			before := wire.Len()
			err, pn := writeOne(kind, cd, &wire, append([]byte{}, o.payload...), o.rnd)
			descs = append(descs, hc.Hex(o.rnd)+":"+o.desc)
			c.Count(fmt.Sprintf("session.op.valid=%v", o.valid))
			switch {
			case pn != nil:
				bad = fmt.Sprint("Write panicked: ", pn)
			case err != nil:
				outs = append(outs, "err:"+codec.VerifC16WriteErrClass(err))
				if wire.Len() != before && bad == "" {
					bad = "a rejected Write put bytes on the wire"
				}
				if o.valid && bad == "" {
					bad = "a valid payload was rejected: " + err.Error()
				}
			default:
				outs = append(outs, "ok:"+hc.Hex(wire.Bytes()[before:]))
				accepted = append(accepted, o.payload)
				if !o.valid && bad == "" {
					bad = fmt.Sprintf("a payload of %d bytes that must be rejected was written", len(o.payload))
				}
			}
		}
		finS := ""
		if f, ok := cd.(*codec.Full); ok { // only the full protocol has a counter
			_, fin := codec.VerifC16FullCounters(f)
			finS = fmt.Sprintf(" seq=%d", fin)
		}
		line := fmt.Sprintf("session %s %d %s", kind, seq0, strings.Join(descs, ","))
		c.Eval(line, len(accepted) > 0 && len(accepted) < len(ops))
		// monitor: the receiver gets exactly the accepted payloads, in order
		if bad == "" {
			items, end := readAll(c16c17.NewCodec(kind, seq0), &c16c17.Chunked{Data: wire.Bytes(), Rng: r.Fork(), Mode: r.Intn(3)}, len(accepted)+1)
			var want []string
			for _, p := range accepted {
				want = append(want, "f:"+hc.Hex(p))
			}
			if got := strings.Join(items, " ") + " end:" + end; got != strings.Join(want, " ")+" end:none" {
				bad = fmt.Sprintf("after a session with rejected writes the receiver got %d frames then %q; %d payloads were accepted", len(items), end, len(accepted))
			}
		}
		if bad != "" {
			fail(c, "session-write:"+kind, line, bad)
			continue
		}
		add(line, strings.Join(outs, ",")+finS)
	}

	// connection level: Send errors interleaved with successful Sends on one transport.Conn
	protos := map[string]transport.Protocol{"abridged": transport.Abridged, "intermediate": transport.Intermediate,
		"padded": transport.PaddedIntermediate, "full": transport.Full}
	for i := 0; i < c.N(120, 4000); i++ {
		kind := hc.Pick(r, c16c17.Kinds...)
		ops := genSessionOps(r, kind, false)
		conn := &memConn{}
		client, err := protos[kind].Handshake(conn)
		if err != nil {
			continue
		}
		var accepted [][]byte
		sig := fmt.Sprintf("session-conn %s case=%d", kind, i)
		bad := ""
		for _, o := range ops {
			err := client.Send(context.Background(), &bin.Buffer{Buf: append([]byte{}, o.payload...)})
			if err == nil {
				accepted = append(accepted, o.payload)
			}
			if (err == nil) != o.valid && bad == "" {
				bad = fmt.Sprintf("Send of a %d-byte payload: err=%v, expected accepted=%v", len(o.payload), err, o.valid)
			}
		}
		c.Eval(sig, len(accepted) > 0 && len(accepted) < len(ops))
		c.Count("session-conn." + kind)
		ln := &memListener{ch: make(chan net.Conn, 1)}
		ln.ch <- &memConn{rd: &c16c17.Chunked{Data: conn.out.Bytes(), Rng: r.Fork(), Mode: r.Intn(3)}}
		// explicit protocol: the header-less full protocol is only auto-detectable for aligned payloads
		// (C16 quantifies over multiples of 4; sessions also send unaligned ones, which Full accepts)
		server, err := transport.ListenCodec(func() transport.Codec { return c16c17.NewCodec(kind, 0) }, ln).Accept()
		if err != nil {
			fail(c, "session-conn:"+kind, sig, "Accept: "+err.Error())
			continue
		}
		for j, p := range accepted {
			var b bin.Buffer
			if err := server.Recv(context.Background(), &b); err != nil || !bytes.Equal(b.Buf, p) {
				if bad == "" {
					bad = fmt.Sprintf("Recv #%d after rejected Sends on the connection: err=%v (the accepted payloads must arrive in order)", j, err)
				}
				break
			}
		}
		if bad != "" {
			fail(c, "session-conn:"+kind, sig, bad)
		} else {
			c.Res.TracesValidated++
		}
	}
}

// readSessions: streams in which frames that Read rejects after consuming them whole are followed by
// valid frames; reading goes on after such errors, every Read compared with the model.
func readSessions(c *hc.Ctx, add func(line, impl string)) {
	r := c.Rng
	for i := 0; i < c.N(300, 10000); i++ {
		kind := hc.Pick(r, c16c17.Kinds...)
		seq0 := int64(hc.Pick(r, 0, 0, 3, r.Intn(500)))
		cdW := c16c17.NewCodec(kind, seq0)
		var wire bytes.Buffer
		type fr struct {
			payload []byte
			kind    string // valid | code | crc
		}
		var frames []fr
		for j := r.Range(2, 7); j > 0; j-- {
			f := fr{kind: "valid"}
			switch r.Intn(6) {
			case 0:
				f.kind = "code"
				f.payload = r.Bytes(4)
			case 1:
				if kind == "full" {
					f.kind = "crc"
				}
				f.payload = genPayload(r, 4*r.Range(2, 80))
			default:
				f.payload = genPayload(r, hc.Pick(r, 8, 504, 508, 512, 4*r.Range(2, 120)))
			}
			before := wire.Len()
			if err, pn := writeOne(kind, cdW, &wire, append([]byte{}, f.payload...), r.Bytes(4)); err != nil || pn != nil {
				return
			}
			if f.kind == "crc" {
				w := wire.Bytes()
				w[before+8+r.Intn(len(f.payload))] ^= byte(1 << r.Intn(8)) // corrupt the payload: CRC mismatch, frame still consumed whole
			}
			frames = append(frames, f)
		}
		stream := append([]byte{}, wire.Bytes()...)
		rd := &c16c17.Chunked{Data: stream, Rng: r.Fork(), Mode: r.Intn(3)}
		cdR := c16c17.NewCodec(kind, seq0)
		sig := fmt.Sprintf("readsession %s %d %s", kind, seq0, hc.Hex(stream))
		c.Eval(sig, true)
		bad := ""
		for j, f := range frames {
			start := rd.Pos
			res := c16c17.ReadOne(cdR, rd)
			out := res.Outcome
			if strings.HasPrefix(out, "ok ") {
				out += fmt.Sprintf(" %d", len(stream)-rd.Pos)
			}
			add(fmt.Sprintf("read %s %d %s", kind, seq0+int64(j), hc.Hex(stream[start:])), out)
			c.Count("readsession." + f.kind)
			switch f.kind {
			case "valid":
				if !bytes.Equal(res.Frame, f.payload) && bad == "" {
					bad = fmt.Sprintf("frame #%d (valid, after %d earlier frames of which some were rejected) was not delivered: %s", j, j, clip(res.Outcome))
				}
			case "code":
				if !strings.HasPrefix(res.Outcome, "err proto:") && bad == "" {
					bad = fmt.Sprintf("frame #%d (4 bytes) not reported as a transport error code: %s", j, clip(res.Outcome))
				}
			case "crc":
				if res.Outcome != "err crc" && bad == "" {
					bad = fmt.Sprintf("frame #%d (corrupted payload) not reported as CRC mismatch: %s", j, clip(res.Outcome))
				}
			}
		}
		if _, err := rd.Read(make([]byte, 1)); err != io.EOF && bad == "" {
			bad = "the reads did not consume the whole stream"
		}
		if bad != "" {
			fail(c, "session-read:"+kind, sig, bad)
		}
	}
}

func clip(s string) string {
	if len(s) > 80 {
		return s[:80] + "…"
	}
	return s
}
