package main

// Scheduled concurrent senders: trace conformance of connection.Send with the sender transition
// system of the model (TdModel.C16.sstep), and the lock-scope invariant observed directly.
//
// The harness owns the net.Conn under the transport.Conn.  Every conn.Write of a Send is a
// scheduling point: the writing goroutine reports it and waits until the scheduler (PRNG) lets it
// go on, so that other senders are started exactly between the writes of one frame.  At every
// conn.Write (conn.Read) the harness probes, through the hook VerifC16MuxHeld, that writeMux
// (readMux) is held.  Nothing here depends on timing: the scheduler only ever blocks on events that
// the code under test is bound to produce, and a goroutine that may legitimately be blocked on the
// mutex is never waited for.

import (
	"bytes"
	"context"
	"fmt"
	"io"
	"net"
	"runtime"
	"strconv"
	"strings"
	"sync"
	"time"

	"github.com/gotd/td/bin"
	"github.com/gotd/td/transport"

	"verif/harness/c16c17"
	"verif/harness/hc"
)

func goid() int {
	var buf [64]byte
	n := runtime.Stack(buf[:], false)
	f := strings.Fields(string(buf[:n]))
	if len(f) < 2 {
		return -1
	}
	id, _ := strconv.Atoi(f[1])
	return id
}

type addr struct{}

func (addr) Network() string { return "mem" }
func (addr) String() string  { return "mem" }

// memConn is an in-memory net.Conn: writes are appended to out (after the write hook, if any),
// reads come from in through rd.
type memConn struct {
	mu      sync.Mutex
	out     bytes.Buffer
	rd      io.Reader
	onWrite func(p []byte)
	onRead  func()
}

func (m *memConn) Write(p []byte) (int, error) {
	if m.onWrite != nil {
		m.onWrite(p)
	}
	m.mu.Lock()
	defer m.mu.Unlock()
	return m.out.Write(p)
}

func (m *memConn) Read(p []byte) (int, error) {
	if m.onRead != nil {
		m.onRead()
	}
	if m.rd == nil {
		return 0, io.EOF
	}
	return m.rd.Read(p)
}
func (m *memConn) Close() error                     { return nil }
func (m *memConn) LocalAddr() net.Addr              { return addr{} }
func (m *memConn) RemoteAddr() net.Addr             { return addr{} }
func (m *memConn) SetDeadline(time.Time) error      { return nil }
func (m *memConn) SetReadDeadline(time.Time) error  { return nil }
func (m *memConn) SetWriteDeadline(time.Time) error { return nil }

type sev struct {
	g    int
	kind string // p0 | w | done | err
	n    int
	held bool
	msg  string
}

const schedTimeout = 10 * time.Minute // safety net only; never reached unless the code under test dead-locks

// scheduledSenders runs one case; returns the driver line and the implementation's answer
// (empty line: nothing to compare).
func scheduledSenders(c *hc.Ctx, caseNo int) (line, impl string) {
	r := c.Rng.Fork() // the runtime decides which blocked sender gets the mutex: keep the main PRNG stream independent of it
	kind := hc.Pick(r, c16c17.Kinds...)
	protos := map[string]transport.Protocol{"abridged": transport.Abridged, "intermediate": transport.Intermediate,
		"padded": transport.PaddedIntermediate, "full": transport.Full}
	senders := r.Range(2, 5)
	payloads := make([][][]byte, senders)
	frameLen := make([][]int, senders)
	for s := range payloads {
		for j := r.Range(1, 3); j > 0; j-- {
			p := genPayload(r, hc.Pick(r, 8, 12, 504, 508, 512, 4*r.Range(2, 150)))
			p[0] = byte(s)
			payloads[s] = append(payloads[s], p)
			// wire length of the frame (independent of seqno / padding bytes)
			var w bytes.Buffer
			if err, pn := writeOne(kind, c16c17.NewCodec(kind, 0), &w, append([]byte{}, p...), []byte{0, 0, 0, 0}); err != nil || pn != nil {
				fail(c, "write-error:"+kind, "sched", fmt.Sprint(err, pn))
				return "", ""
			}
			frameLen[s] = append(frameLen[s], w.Len())
		}
	}
	sig := fmt.Sprintf("sched %s senders=%d case=%d", kind, senders, caseNo)
	c.Count("sched." + kind)

	conn := &memConn{}
	client, err := protos[kind].Handshake(conn)
	if err != nil {
		fail(c, "sched-handshake:"+kind, sig, err.Error())
		return "", ""
	}
	hdrLen := conn.out.Len()

	events := make(chan sev, 64)
	resume := make([]chan struct{}, senders)
	var gmu sync.Mutex
	gid := map[int]int{}
	for s := range resume {
		resume[s] = make(chan struct{}, 1)
	}
	conn.onWrite = func(p []byte) {
		gmu.Lock()
		s, ok := gid[goid()]
		gmu.Unlock()
		if !ok {
			events <- sev{g: -1, kind: "err", msg: "conn.Write from an unknown goroutine"}
			return
		}
		events <- sev{g: s, kind: "w", n: len(p), held: transport.VerifC16MuxHeld(client, true)}
		<-resume[s]
	}
	ctx := context.Background()
	for s := 0; s < senders; s++ {
		go func(s int) {
			gmu.Lock()
			gid[goid()] = s
			gmu.Unlock()
			defer func() {
				if p := recover(); p != nil {
					events <- sev{g: s, kind: "err", msg: fmt.Sprint("Send panicked: ", p)}
				}
				events <- sev{g: s, kind: "done"}
			}()
			for _, p := range payloads[s] {
				events <- sev{g: s, kind: "p0"}
				<-resume[s]
				if err := client.Send(ctx, &bin.Buffer{Buf: append([]byte{}, p...)}); err != nil {
					events <- sev{g: s, kind: "err", msg: "Send: " + err.Error()}
				}
			}
		}(s)
	}

	parked := map[int]sev{}
	running := map[int]bool{}
	contending := map[int]bool{}
	entering := map[int]bool{} // released into Send, no conn.Write seen yet
	for s := 0; s < senders; s++ {
		running[s] = true
	}
	holder, doneN := -1, 0
	frameIdx := make([]int, senders) // index of the frame each sender is writing / will write next
	written := make([]int, senders)  // bytes of that frame handed to conn.Write so far
	var actions, order []string
	bad := ""
	timeout := time.After(schedTimeout)
	handle := func(e sev) {
		if e.g >= 0 {
			delete(entering, e.g)
		}
		switch e.kind {
		case "p0":
			parked[e.g] = e
			delete(running, e.g)
		case "w":
			delete(contending, e.g)
			if !e.held && bad == "" {
				bad = fmt.Sprintf("sender %d: conn.Write of %d bytes while writeMux is not held", e.g, e.n)
			}
			if holder != -1 && holder != e.g && bad == "" {
				bad = fmt.Sprintf("sender %d writes to the connection while sender %d's frame is incomplete (%d of %d bytes)", e.g, holder, written[holder], frameLen[holder][frameIdx[holder]])
			}
			if holder == -1 {
				holder = e.g
				actions = append(actions, fmt.Sprintf("a%d", e.g))
				order = append(order, strconv.Itoa(e.g))
			}
			for x := range entering { // whoever entered Send meanwhile is now blocked on the mutex
				contending[x] = true
			}
			parked[e.g] = e
			delete(running, e.g)
		case "done":
			delete(running, e.g)
			doneN++
		case "err":
			if bad == "" {
				bad = e.msg
			}
		}
	}
	expecting := func() bool { // some running goroutine that cannot be blocked on the mutex
		for g := range running {
			if !contending[g] {
				return true
			}
		}
		return false
	}
	for doneN < senders {
		if expecting() || len(parked) == 0 {
			select {
			case e := <-events:
				handle(e)
			case <-timeout:
				fail(c, "sched-deadlock:"+kind, sig, "no progress: senders neither finish nor reach a scheduling point")
				return "", ""
			}
			continue
		}
		// pick a parked goroutine
		keys := make([]int, 0, len(parked))
		for s := 0; s < senders; s++ {
			if _, ok := parked[s]; ok {
				keys = append(keys, s)
			}
		}
		g := keys[r.Intn(len(keys))]
		e := parked[g]
		delete(parked, g)
		running[g] = true
		if e.kind == "p0" {
			entering[g] = true
			if holder != -1 && holder != g {
				contending[g] = true // correct code blocks in writeMux.Lock(): do not wait for it
			}
		}
		if e.kind == "w" {
			actions = append(actions, fmt.Sprintf("w%d:%d", g, e.n))
			written[g] += e.n
			if fi := frameIdx[g]; fi < len(frameLen[g]) && written[g] >= frameLen[g][fi] {
				// the frame is complete once this write is performed: Send returns and unlocks
				actions = append(actions, fmt.Sprintf("r%d", g))
				frameIdx[g]++
				written[g] = 0
				if holder == g {
					holder = -1
				}
			}
		}
		resume[g] <- struct{}{}
		if contending[g] {
			runtime.Gosched()
		}
	}
	wire := append([]byte{}, conn.out.Bytes()[hdrLen:]...)
	c.Eval(sig+" "+strings.Join(actions, " "), true)
	if bad != "" {
		fail(c, "send-not-exclusive:"+kind, sig+" "+strings.Join(actions, " "), bad)
		return "", ""
	}
	// monitor: the wire decodes to the payloads in lock-acquisition order
	items, end := readAll(c16c17.NewCodec(kind, 0), bytes.NewReader(wire), len(order)+1)
	next := make([]int, senders)
	var want []string
	var rnds []string
	pos := 0
	for _, o := range order {
		s, _ := strconv.Atoi(o)
		p := payloads[s][next[s]]
		fl := frameLen[s][next[s]]
		want = append(want, "f:"+hc.Hex(p))
		rnd := []byte{0, 0, 0, 0}
		if kind == "padded" && pos+fl <= len(wire) {
			copy(rnd, wire[pos+4+len(p):pos+fl])
		}
		rnds = append(rnds, hc.Hex(rnd))
		pos += fl
		next[s]++
	}
	if got := strings.Join(items, " ") + " end:" + end; got != strings.Join(want, " ")+" end:none" {
		fail(c, "sched-stream:"+kind, sig+" "+strings.Join(actions, " "), "the connection's bytes do not decode to the payloads in lock-acquisition order")
		return "", ""
	}
	var pl []string
	for s := range payloads {
		for _, p := range payloads[s] {
			pl = append(pl, fmt.Sprintf("%d:%s", s, hc.Hex(p)))
		}
	}
	line = fmt.Sprintf("send %s 0 %s %s %s", kind, strings.Join(pl, ","), strings.Join(rnds, ","), strings.Join(actions, ","))
	return line, "ok " + hc.Hex(wire) + " " + strings.Join(order, ",")
}

// concurrentReceivers: several goroutines call Recv on one server-side connection; every conn.Read
// must happen under readMux and every Recv must return one whole frame.
func concurrentReceivers(c *hc.Ctx, caseNo int) {
	r := c.Rng.Fork()
	kind := hc.Pick(r, c16c17.Kinds...)
	var wire bytes.Buffer
	cd := c16c17.NewCodec(kind, 0)
	cd.WriteHeader(&wire)
	n := r.Range(2, 12)
	sent := map[string]int{}
	for i := 0; i < n; i++ {
		p := genPayload(r, hc.Pick(r, 8, 12, 504, 508, 512, 4*r.Range(2, 150)))
		p[0], p[1] = byte(i), byte(i>>8)
		if err, pn := writeOne(kind, cd, &wire, append([]byte{}, p...), r.Bytes(4)); err != nil || pn != nil {
			return
		}
		sent[string(p)]++
	}
	sig := fmt.Sprintf("recv %s frames=%d case=%d", kind, n, caseNo)
	c.Eval(sig, true)
	c.Count("recv." + kind)
	conn := &memConn{rd: &c16c17.Chunked{Data: wire.Bytes(), Rng: r.Fork(), Mode: r.Intn(3)}}
	ln := &memListener{ch: make(chan net.Conn, 1)}
	ln.ch <- conn
	server, err := transport.Listen(ln).Accept()
	if err != nil {
		fail(c, "e2e-accept:"+kind, sig, err.Error())
		return
	}
	var mu sync.Mutex
	notHeld := 0
	conn.onRead = func() {
		if !transport.VerifC16MuxHeld(server, false) {
			mu.Lock()
			notHeld++
			mu.Unlock()
		}
	}
	got := map[string]int{}
	var wg sync.WaitGroup
	bad := ""
	var next int
	for g := r.Range(2, 4); g > 0; g-- {
		wg.Add(1)
		go func() {
			defer wg.Done()
			for {
				mu.Lock()
				if next >= n {
					mu.Unlock()
					return
				}
				next++
				mu.Unlock()
				var b bin.Buffer
				err := server.Recv(context.Background(), &b)
				mu.Lock()
				if err != nil {
					if bad == "" {
						bad = "Recv: " + err.Error()
					}
				} else {
					got[string(b.Buf)]++
				}
				mu.Unlock()
			}
		}()
	}
	wg.Wait()
	if bad == "" && notHeld > 0 {
		bad = fmt.Sprintf("%d conn.Read calls while readMux is not held", notHeld)
	}
	if bad == "" {
		for k, v := range sent {
			if got[k] != v {
				bad = "a sent frame was not received exactly once as a whole"
			}
		}
	}
	if bad != "" {
		fail(c, "recv-not-exclusive:"+kind, sig, bad)
		return
	}
	c.Res.TracesValidated++
}
