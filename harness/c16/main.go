// C16 — transport codecs deliver exactly the frames sent: correspondence of the codecs' Write/Read,
// transport.detectCodec and transport.connection with the Lean model TdModel.Codec, plus the
// property monitor (what the receiver reads == what the senders wrote) on the implementation.
package main

import (
	"bytes"
	"context"
	"errors"
	"fmt"
	"go/ast"
	"io"
	"net"
	"strconv"
	"strings"
	"sync"
	"time"

	"github.com/gotd/td/bin"
	"github.com/gotd/td/proto/codec"
	"github.com/gotd/td/transport"

	"verif/harness/c16c17"
	"verif/harness/hc"
)

func main() {
	hc.Main(hc.Spec{Prop: "C16", Facts: facts, Run: run})
}

const maxMsg = 1 << 24

// lockScope: the method's first statements are `c.<mux>.Lock()` and `defer c.<mux>.Unlock()` and the
// codec call follows them at the top level of the body.
func lockScope(f *hc.Facts, method, mux, call string) (bool, string) {
	fd := f.FuncDecl("transport", "connection."+method)
	if fd == nil || fd.Body == nil || len(fd.Body.List) < 3 {
		return false, "connection." + method + " not found"
	}
	if f.Src(fd.Body.List[0]) != "c."+mux+".Lock()" || f.Src(fd.Body.List[1]) != "defer c."+mux+".Unlock()" {
		return false, "connection." + method + " does not start with " + mux + ".Lock(); defer Unlock()"
	}
	n := 0
	for _, s := range fd.Body.List[2:] {
		ast.Inspect(s, func(m ast.Node) bool {
			if c, ok := m.(*ast.CallExpr); ok && f.Src(c.Fun) == call {
				n++
			}
			return true
		})
	}
	if n != 1 {
		return false, fmt.Sprintf("connection.%s calls %s %d times under the lock", method, call, n)
	}
	return true, "connection." + method + ": " + mux + ".Lock(); defer Unlock(); … " + call + "(c.conn, b)"
}

func facts(f *hc.Facts) {
	c16c17.Facts(f)
	ok, why := lockScope(f, "Send", "writeMux", "c.codec.Write")
	f.Bool("sendHoldsWriteMux", ok, why)
	ok, why = lockScope(f, "Recv", "readMux", "c.codec.Read")
	f.Bool("recvHoldsReadMux", ok, why)
	// detectCodec: first byte against AbridgedClientStart[0], then a switch over the two 4-byte tags, default Full
	src := f.FuncSrc("transport", "detectCodec")
	order := strings.Index(src, "codec.AbridgedClientStart[0]") >= 0 &&
		strings.Index(src, "codec.AbridgedClientStart[0]") < strings.Index(src, "case codec.IntermediateClientStart") &&
		strings.Index(src, "case codec.IntermediateClientStart") < strings.Index(src, "case codec.PaddedIntermediateClientStart") &&
		strings.Index(src, "case codec.PaddedIntermediateClientStart") < strings.Index(src, "default:") &&
		strings.Contains(src, "io.MultiReader(buffered, c)")
	f.Bool("detectShape", order, "detectCodec: abridged byte, then intermediate / padded tags, default full with the 4 bytes pushed back")
}

var lens = []int{8, 12, 16, 500, 504, 508, 512, 1020, 1 << 16, 1<<16 + 4}

func genLen(r *hc.RNG) int {
	switch r.Intn(10) {
	case 0, 1, 2, 3:
		return hc.Pick(r, lens[:8]...)
	case 4, 5, 6:
		return 4 * r.Range(2, 140)
	case 7:
		return 4 * r.Range(120, 135) // around the 127-word abridged switch
	case 8:
		return 4 * r.Range(2, 4000)
	default:
		if r.Chance(15) {
			return hc.Pick(r, lens[8:]...)
		}
		return 4
	}
}

func genPayload(r *hc.RNG, l int) []byte {
	p := r.Bytes(l)
	if l > 0 && r.Chance(50) {
		p[l-1] = byte(r.Intn(8)) // the padded codec pads by (last byte % 4)
	}
	return p
}

// writeOne runs the real Write; the padded codec gets its random bytes from rnd.
func writeOne(kind string, cd codec.Codec, w io.Writer, p []byte, rnd []byte) (err error, panicked any) {
	defer func() {
		if r := recover(); r != nil {
			panicked = r
		}
	}()
	b := &bin.Buffer{Buf: p}
	if kind == "padded" {
		return codec.VerifC16WritePadded(bytes.NewReader(rnd), w, b), nil
	}
	return cd.Write(w, b), nil
}

var failSeen = map[string]int{}
var failMu sync.Mutex

func fail(c *hc.Ctx, key, input, detail string) {
	failMu.Lock()
	failSeen[key]++
	n := failSeen[key]
	failMu.Unlock()
	c.Count("monitor." + key)
	if n <= 2 {
		c.Fail(key, input, detail)
	}
}

func bucket(l int) string {
	switch {
	case l == 4:
		return "len=4"
	case l < 127*4:
		return "len<508"
	case l == 127*4:
		return "len=508"
	case l < 1<<16:
		return "len<64K"
	case l < maxMsg-12:
		return "len<16M-12"
	default:
		return "len>=16M-12"
	}
}

// showItems renders what a receiver got in the format of the driver's `decall`.
func readAll(cd codec.Codec, r io.Reader, max int) (items []string, end string) {
	end = "none"
	for i := 0; i < max; i++ {
		res := c16c17.ReadOne(cd, r)
		switch {
		case strings.HasPrefix(res.Outcome, "ok "):
			items = append(items, "f:"+hc.Hex(res.Frame))
		case strings.HasPrefix(res.Outcome, "err proto:"):
			items = append(items, "c:"+strings.TrimPrefix(res.Outcome, "err proto:"))
			return items, strings.TrimPrefix(res.Outcome, "err ")
		case res.Outcome == "err eof":
			return items, "none"
		default:
			return items, strings.TrimPrefix(res.Outcome, "err ")
		}
	}
	return items, end
}

type memListener struct {
	ch chan net.Conn
}

func (l *memListener) Accept() (net.Conn, error) {
	c, ok := <-l.ch
	if !ok {
		return nil, io.EOF
	}
	return c, nil
}
func (l *memListener) Close() error   { return nil }
func (l *memListener) Addr() net.Addr { return &net.TCPAddr{} }

func run(c *hc.Ctx) error {
	r := c.Rng
	var lines, impls []string
	add := func(line, impl string) {
		lines = append(lines, line)
		impls = append(impls, impl)
	}

	// ---- 1. sequences of payloads through Write → chunked stream → Read
	nseq := c.N(700, 12000)
	for i := 0; i < nseq; i++ {
		kind := hc.Pick(r, c16c17.Kinds...)
		seq0 := int64(hc.Pick(r, 0, 0, 0, 1, 5, r.Intn(100000)))
		cdW := c16c17.NewCodec(kind, seq0)
		var wire bytes.Buffer
		n := r.Range(1, 6)
		var sent [][]byte
		nontrivial := false
		for j := 0; j < n; j++ {
			l := genLen(r)
			if kind == "full" && r.Chance(10) {
				l = r.Range(1, 40) // full does not require alignment
			}
			p := genPayload(r, l)
			rnd := r.Bytes(4)
			before := wire.Len()
			err, pn := writeOne(kind, cdW, &wire, append([]byte{}, p...), rnd)
			if pn != nil {
				fail(c, "write-panic:"+kind, fmt.Sprintf("enc %s %d %s %s", kind, seq0+int64(j), hc.Hex(rnd), hc.Hex(p)), fmt.Sprint(pn))
				break
			}
			if err != nil {
				fail(c, "write-error:"+kind, fmt.Sprintf("enc %s %d %s %s", kind, seq0+int64(j), hc.Hex(rnd), hc.Hex(p)), "valid payload rejected: "+err.Error())
				break
			}
			c.Count("frame." + kind + "." + bucket(l))
			if l >= 127*4 {
				nontrivial = true
			}
			add(fmt.Sprintf("enc %s %d %s %s", kind, seq0+int64(j), hc.Hex(rnd), hc.Hex(p)), "ok "+hc.Hex(wire.Bytes()[before:]))
			sent = append(sent, p)
		}
		stream := append([]byte{}, wire.Bytes()...)
		mode := r.Intn(3)
		rd := &c16c17.Chunked{Data: stream, Rng: r.Fork(), Mode: mode}
		c.Count(fmt.Sprintf("chunking.mode%d", mode))
		items, end := readAll(c16c17.NewCodec(kind, seq0), rd, len(sent)+2)
		line := fmt.Sprintf("decall %s %d %s", kind, seq0, hc.Hex(stream))
		c.Eval(line, nontrivial || len(sent) > 1)
		// monitor: the receiver gets exactly the sent payloads, in order; 4-byte payloads are error codes
		var want []string
		wantEnd := "none"
		for _, p := range sent {
			if len(p) == 4 {
				code := -int32(uint32(p[0]) | uint32(p[1])<<8 | uint32(p[2])<<16 | uint32(p[3])<<24)
				want = append(want, "c:"+strconv.Itoa(int(code)))
				wantEnd = "proto:" + strconv.Itoa(int(code))
				break
			}
			want = append(want, "f:"+hc.Hex(p))
		}
		got := strings.Join(items, " ") + " end:" + end
		if exp := strings.Join(want, " ") + " end:" + wantEnd; got != exp {
			fail(c, "roundtrip:"+kind, line, fmt.Sprintf("receiver got %d items ending %q, sender wrote %d payloads (first difference decides)", len(items), end, len(sent)))
		}
		add(line, got)
	}

	// ---- 1b. dense sweep: every payload length 8, 12, …, 4096 for every protocol, three consecutive
	// lengths per connection (a byte lost or added by one frame desynchronises the next)
	for _, kind := range c16c17.Kinds {
		for l := 8; l <= 4096; l += 12 {
			seq0 := int64(r.Intn(50))
			cdW := c16c17.NewCodec(kind, seq0)
			var wire bytes.Buffer
			var sent [][]byte
			for j := 0; j < 3; j++ {
				p := genPayload(r, l+4*j)
				rnd := r.Bytes(4)
				before := wire.Len()
				if err, pn := writeOne(kind, cdW, &wire, append([]byte{}, p...), rnd); err != nil || pn != nil {
					fail(c, "write-error:"+kind, fmt.Sprintf("enc %s %d %s %s", kind, seq0+int64(j), hc.Hex(rnd), hc.Hex(p)), fmt.Sprint(err, pn))
					break
				}
				if l%96 == 8 { // exact wire bytes against the model for a sample; all through decall below
					add(fmt.Sprintf("enc %s %d %s %s", kind, seq0+int64(j), hc.Hex(rnd), hc.Hex(p)), "ok "+hc.Hex(wire.Bytes()[before:]))
				}
				sent = append(sent, p)
			}
			stream := append([]byte{}, wire.Bytes()...)
			items, end := readAll(c16c17.NewCodec(kind, seq0), &c16c17.Chunked{Data: stream, Rng: r.Fork(), Mode: r.Intn(3)}, len(sent)+1)
			line := fmt.Sprintf("decall %s %d %s", kind, seq0, hc.Hex(stream))
			c.Eval(line, true)
			c.Count("frame." + kind + ".dense-8..4104")
			var want []string
			for _, p := range sent {
				want = append(want, "f:"+hc.Hex(p))
			}
			got := strings.Join(items, " ") + " end:" + end
			if got != strings.Join(want, " ")+" end:none" {
				fail(c, "roundtrip:"+kind, line, fmt.Sprintf("payloads of %d, %d, %d bytes: receiver got %d items ending %q", l, l+4, l+8, len(items), end))
			}
			add(line, got)
		}
	}

	// ---- 2. Write's validity checks
	for i := 0; i < c.N(300, 5000); i++ {
		kind := hc.Pick(r, c16c17.Kinds...)
		l := hc.Pick(r, 0, 1, 2, 3, 5, 6, 7, 9, 10, 11, 13, 4*r.Range(0, 50)+r.Intn(4))
		p := r.Bytes(l)
		rnd := r.Bytes(4)
		var w bytes.Buffer
		err, pn := writeOne(kind, c16c17.NewCodec(kind, 0), &w, append([]byte{}, p...), rnd)
		line := fmt.Sprintf("enc %s 0 %s %s", kind, hc.Hex(rnd), hc.Hex(p))
		c.Eval(line, true)
		switch {
		case pn != nil:
			fail(c, "write-panic:"+kind, line, fmt.Sprint(pn))
		case err != nil:
			c.Count("write.rejected")
			add(line, "err "+codec.VerifC16WriteErrClass(err))
		default:
			c.Count("write.accepted")
			add(line, "ok "+hc.Hex(w.Bytes()))
		}
	}

	// ---- 3. frames at the frame limit (monitor on the implementation; the model is compared on the
	// bytes around the payload only, a 16 MiB hex line per frame would dominate the run)
	bigLens := []int{maxMsg - 16, maxMsg - 12, maxMsg - 8, maxMsg - 4, maxMsg}
	for _, kind := range c16c17.Kinds {
		for _, l := range bigLens {
			for _, last := range []byte{0, 1, 2, 3} {
				if !c.Thorough() && !(l == maxMsg || (l == maxMsg-8 && last == 3)) {
					continue
				}
				if kind != "padded" && last != 0 && !(c.Thorough() && last == 3) {
					continue
				}
				p := make([]byte, l)
				r.Read(p[:64])
				r.Read(p[l-64:])
				p[l-1] = p[l-1]&^3 | last
				seq := int64(r.Intn(5))
				rnd := r.Bytes(4)
				var wire bytes.Buffer
				wire.Grow(l + 32)
				line := fmt.Sprintf("big %s %d %s %d %d", kind, seq, hc.Hex(rnd), l, p[l-1])
				c.Eval(line, true)
				c.Count("frame." + kind + "." + bucket(l))
				err, pn := writeOne(kind, c16c17.NewCodec(kind, seq), &wire, append([]byte{}, p...), rnd)
				if pn != nil || err != nil {
					fail(c, "write-error:"+kind, line, fmt.Sprintf("payload of %d bytes (≤ frame limit) rejected: %v %v", l, err, pn))
					continue
				}
				wb := wire.Bytes()
				k := bytes.Index(wb[:16], p[:8])
				tail := wb[k+l:]
				if kind == "full" {
					tail = nil // the CRC covers 16 MiB: not recomputed by the driver
				}
				add(fmt.Sprintf("head %s %d %s %d %d", kind, seq, hc.Hex(rnd), l, p[l-1]), hc.Hex(wb[:k])+" "+hc.Hex(tail))
				res := c16c17.ReadOne(c16c17.NewCodec(kind, seq), &c16c17.Chunked{Data: wb, Rng: r.Fork(), Mode: 2})
				if !strings.HasPrefix(res.Outcome, "ok ") || !bytes.Equal(res.Frame, p) {
					out := res.Outcome
					if len(out) > 60 {
						out = out[:60] + "…"
					}
					fail(c, "roundtrip-limit:"+kind, line, fmt.Sprintf("a %d-byte payload (≤ the 2^24 frame limit, last byte %d) written by %s.Write is not read back: %s", l, p[l-1], kind, out))
				}
			}
		}
	}

	// ---- 3b. large frames compared with the model in full (payload described by a generator shared with
	// the driver; lengths and CRC-32s are compared instead of megabytes of hex)
	type bigCase struct {
		kind    string
		l, last int
	}
	var bigs []bigCase
	for i := 0; i < c.N(4, 60); i++ {
		l := 4 * r.Range(1<<13, 1<<15) // 32–128 KiB
		if c.Thorough() {
			l = 4 * hc.Pick(r, r.Range(1<<16, 1<<18), r.Range(1<<18, 1<<20)) // up to 4 MiB
		}
		bigs = append(bigs, bigCase{c16c17.Kinds[i%4], l, r.Intn(256)})
	}
	if c.Thorough() { // frames at the 2^24 limit, written and read back by the model in full (≈ 3 GB, 6 s each)
		for _, kind := range c16c17.Kinds {
			bigs = append(bigs, bigCase{kind, maxMsg, 0}, bigCase{kind, maxMsg - 4, 3})
			if kind == "padded" {
				bigs = append(bigs, bigCase{kind, maxMsg, 1}, bigCase{kind, maxMsg, 2}, bigCase{kind, maxMsg, 3})
			}
		}
	}
	for _, bc := range bigs {
		kind, l, last := bc.kind, bc.l, bc.last
		seed := r.Intn(256)
		p := make([]byte, l)
		for j := range p {
			p[j] = byte(seed + j + j/256)
		}
		p[l-1] = byte(last)
		seq := int64(r.Intn(9))
		rnd := r.Bytes(4)
		var wire bytes.Buffer
		line := fmt.Sprintf("bigrt %s %d %s %d %d %d", kind, seq, hc.Hex(rnd), l, seed, last)
		c.Eval(line, true)
		c.Count("frame." + kind + ".large-full-compare")
		if err, pn := writeOne(kind, c16c17.NewCodec(kind, seq), &wire, append([]byte{}, p...), rnd); err != nil || pn != nil {
			fail(c, "write-error:"+kind, line, fmt.Sprint(err, pn))
			continue
		}
		wb := append(append([]byte{}, wire.Bytes()...), 0xaa)
		rd := &c16c17.Chunked{Data: wb, Rng: r.Fork(), Mode: hc.Pick(r, 0, 2)}
		res := c16c17.ReadOne(c16c17.NewCodec(kind, seq), rd)
		back := ""
		if strings.HasPrefix(res.Outcome, "ok ") {
			back = fmt.Sprintf("ok %d %d %d", len(res.Frame), c16c17.CRC(res.Frame), len(wb)-rd.Pos)
			if !bytes.Equal(res.Frame, p) {
				fail(c, "roundtrip:"+kind, line, "large frame altered")
			}
		} else {
			back = res.Outcome
			fail(c, "roundtrip:"+kind, line, "large frame not read back: "+clip(res.Outcome))
		}
		add(line, fmt.Sprintf("%d %d | %s", wire.Len(), c16c17.CRC(wire.Bytes()), back))
	}

	// ---- 4. headers + detection (transport.detectCodec, transport.Listen)
	for i := 0; i < c.N(400, 20000); i++ {
		kind := hc.Pick(r, c16c17.Kinds...)
		var wire bytes.Buffer
		cd := c16c17.NewCodec(kind, 0)
		if err := cd.WriteHeader(&wire); err != nil {
			return err
		}
		p := genPayload(r, hc.Pick(r, 8, 12, 220, 224, 228, 232, 236, 240, 4*r.Range(2, 600)))
		valid := true
		if r.Chance(15) { // arbitrary first bytes
			valid = false
			wire.Reset()
			wire.Write(r.Bytes(r.Range(0, 6)))
			if r.Bool() && wire.Len() > 0 {
				wire.Bytes()[0] = hc.Pick[byte](r, 0xef, 0xee, 0xdd)
			}
			c.Count("detect.arbitrary")
		} else {
			if err, pn := writeOne(kind, cd, &wire, append([]byte{}, p...), r.Bytes(4)); err != nil || pn != nil {
				fail(c, "write-error:"+kind, "enc "+kind+" 0 - "+hc.Hex(p), fmt.Sprintf("valid payload rejected: %v %v", err, pn))
				continue
			}
			c.Count("detect." + kind)
		}
		stream := append([]byte{}, wire.Bytes()...)
		first := stream[:min(len(stream), 8)]
		line := "detect " + hc.Hex(first)
		c.Eval("detect "+hc.Hex(stream), true)
		name, dc, rest, err := transport.VerifC16DetectCodec(&c16c17.Chunked{Data: stream, Rng: r.Fork(), Mode: r.Intn(3)})
		if err != nil {
			add(line, "err "+codec.VerifC17ErrClass(err))
			continue
		}
		restBytes, _ := io.ReadAll(rest)
		// model sees the first ≤ 8 bytes only: compare how many of them are left to the codec
		add(line, fmt.Sprintf("%s %d", name, len(restBytes)-(len(stream)-len(first))))
		if valid {
			if name != kind {
				fail(c, "detect:"+kind, "detect "+hc.Hex(stream), "listener detected "+name)
				continue
			}
			res := c16c17.ReadOne(dc, bytes.NewReader(restBytes))
			if !bytes.Equal(res.Frame, p) {
				fail(c, "detect-read:"+kind, "detect "+hc.Hex(stream), "first frame after detection: "+res.Outcome)
			}
		}
	}

	// ---- 4b. explicit protocol: Codec.ReadHeader / transport.ListenCodec
	for i := 0; i < c.N(300, 10000); i++ {
		kind := hc.Pick(r, c16c17.Kinds...)
		var wire bytes.Buffer
		cd := c16c17.NewCodec(kind, 0)
		cd.WriteHeader(&wire)
		p := genPayload(r, 4*r.Range(2, 100))
		writeOne(kind, cd, &wire, append([]byte{}, p...), r.Bytes(4))
		stream := append([]byte{}, wire.Bytes()...)
		how := "right"
		switch r.Intn(5) {
		case 0:
			if len(stream) > 0 {
				stream[r.Intn(min(4, len(stream)))] ^= byte(1 << r.Intn(8))
				how = "bitflip"
			}
		case 1:
			stream = stream[:r.Intn(min(5, len(stream)+1))]
			how = "short"
		case 2:
			other := hc.Pick(r, c16c17.Kinds...)
			var w2 bytes.Buffer
			c16c17.NewCodec(other, 0).WriteHeader(&w2)
			stream = append(w2.Bytes(), p...)
			how = "other-protocol"
		}
		first := stream[:min(len(stream), 8)]
		line := fmt.Sprintf("rdhdr %s %s", kind, hc.Hex(first))
		c.Eval(fmt.Sprintf("rdhdr %s %s", kind, hc.Hex(stream)), true)
		c.Count("rdhdr." + kind + "." + how)
		rd := &c16c17.Chunked{Data: stream, Rng: r.Fork(), Mode: r.Intn(3)}
		err := c16c17.NewCodec(kind, 0).ReadHeader(rd)
		out := ""
		switch {
		case err == nil:
			out = fmt.Sprintf("ok %d", len(first)-rd.Pos)
		case errors.Is(err, codec.ErrProtocolHeaderMismatch):
			out = "err header"
		default:
			out = "err " + codec.VerifC17ErrClass(err)
		}
		add(line, out)
		if how == "right" {
			// monitor: the listener with an explicit codec accepts and delivers the frame
			ln := &memListener{ch: make(chan net.Conn, 1)}
			ln.ch <- &memConn{rd: bytes.NewReader(stream)}
			conn, err := transport.ListenCodec(func() transport.Codec { return c16c17.NewCodec(kind, 0) }, ln).Accept()
			if err != nil {
				fail(c, "listen-codec:"+kind, line, "ListenCodec rejected the header its own codec wrote: "+err.Error())
				continue
			}
			var b bin.Buffer
			if err := conn.Recv(context.Background(), &b); err != nil || !bytes.Equal(b.Buf, p) {
				fail(c, "listen-codec:"+kind, line, fmt.Sprintf("first frame after the header: err=%v", err))
			}
		}
	}

	// ---- 5. end to end through transport.Listen / Protocol.Handshake with concurrent senders
	if err := endToEnd(c); err != nil {
		return err
	}

	// ---- 6. scheduled senders (trace conformance with the sender transition system, lock scope
	// probed at every conn.Write) and concurrent receivers
	for i := 0; i < c.N(150, 6000); i++ {
		if line, impl := scheduledSenders(c, i); line != "" {
			add(line, impl)
		}
	}
	for i := 0; i < c.N(60, 2000); i++ {
		concurrentReceivers(c, i)
	}

	// ---- 7. sessions: failing operations mixed with succeeding ones on one codec / connection
	writeSessions(c, add)
	readSessions(c, add)

	c.Res.Rule = "sequences of 1–6 payloads per protocol with lengths clustered at 4, 8, 500/504/508/512 (the 127-word abridged switch), 64 KiB and random multiples of 4 (full: also unaligned), last byte biased to exercise all padding lengths, written by the real Write and read back through a reader with PRNG-chosen chunking (random / 1 byte / whole); Write's validity checks on empty, unaligned and oversized payloads; frames of 2^24−16 … 2^24 bytes; header + detection on valid and arbitrary first bytes; 1–8 concurrent senders on one transport.Conn through transport.Listen. Non-trivial = more than one frame or a frame ≥ 508 bytes; distinct = distinct driver line"
	c.PartialNote("the interleaving of concurrent senders below the granularity of writeMux (Go memory model, net.Conn internals) is not modelled; the lock scope is a regenerated fact and the end-to-end run exercises it")
	c.PartialNote("frames of 2^24−16 … 2^24 bytes are compared with the model on the bytes around the payload only (a 16 MiB hex line per frame would dominate the run); the round-trip theorem covers them")
	if err := c16c17.CheckDriverCRC(c); err != nil {
		return err
	}
	outs, err := c.Drv.Batch(lines)
	if err != nil {
		return err
	}
	for i, o := range outs {
		if c.Compare(lines[i], impls[i], o) {
			c.Res.TracesValidated++
		}
	}
	return nil
}

// endToEnd: a client (Protocol.Handshake) with several goroutines calling Send on one connection,
// a server (transport.Listen, codec detected) receiving.  Monitor: the received frames are exactly
// the sent ones, each sender's frames in its own order.
func endToEnd(c *hc.Ctx) error {
	r := c.Rng
	protos := map[string]transport.Protocol{"abridged": transport.Abridged, "intermediate": transport.Intermediate,
		"padded": transport.PaddedIntermediate, "full": transport.Full}
	for i := 0; i < c.N(40, 1500); i++ {
		kind := hc.Pick(r, c16c17.Kinds...)
		senders := r.Range(1, 8)
		per := r.Range(1, 12)
		ln := &memListener{ch: make(chan net.Conn, 1)}
		cl, sv := net.Pipe()
		ln.ch <- sv
		type acc struct {
			conn transport.Conn
			err  error
		}
		accCh := make(chan acc, 1)
		go func() {
			conn, err := transport.Listen(ln).Accept()
			accCh <- acc{conn, err}
		}()
		client, err := protos[kind].Handshake(cl)
		if err != nil {
			return err
		}
		ctx, cancel := context.WithTimeout(context.Background(), 10*time.Minute)
		sent := make([][][]byte, senders)
		var wg sync.WaitGroup
		sendErr := make(chan error, senders)
		for s := 0; s < senders; s++ {
			rr := r.Fork()
			sent[s] = make([][]byte, per)
			for j := range sent[s] {
				p := genPayload(rr, hc.Pick(rr, 8, 12, 504, 508, 512, 4*rr.Range(2, 300)))
				p[0], p[1] = byte(s), byte(j) // tag: sender, index
				sent[s][j] = p
			}
			wg.Add(1)
			go func(s int) {
				defer wg.Done()
				defer func() {
					if r := recover(); r != nil {
						sendErr <- fmt.Errorf("Send panicked: %v", r)
					}
				}()
				for _, p := range sent[s] {
					if err := client.Send(ctx, &bin.Buffer{Buf: append([]byte{}, p...)}); err != nil {
						sendErr <- err
						return
					}
				}
			}(s)
		}
		// when every sender is done nothing more can arrive: close the client side, so that a receiver
		// waiting for bytes that will never come gets EOF instead of waiting for a deadline
		sendersDone := make(chan struct{})
		go func() {
			wg.Wait()
			cl.Close()
			close(sendersDone)
		}()
		a := <-accCh
		sig := fmt.Sprintf("e2e %s senders=%d per=%d case=%d", kind, senders, per, i)
		c.Eval(sig, senders > 1)
		c.Count(fmt.Sprintf("e2e.%s", kind))
		c.Count(fmt.Sprintf("e2e.senders=%d", senders))
		if a.err != nil {
			fail(c, "e2e-accept:"+kind, sig, a.err.Error())
			cancel()
			sv.Close()
			<-sendersDone
			continue
		}
		next := make([]int, senders)
		bad := ""
		for k := 0; k < senders*per && bad == ""; k++ {
			var b bin.Buffer
			if err := a.conn.Recv(ctx, &b); err != nil {
				bad = fmt.Sprintf("Recv #%d: %v", k, err)
				break
			}
			if b.Len() < 2 || int(b.Buf[0]) >= senders {
				bad = fmt.Sprintf("Recv #%d: unknown frame %s", k, hc.Hex(b.Buf[:min(8, b.Len())]))
				break
			}
			s := int(b.Buf[0])
			if next[s] >= per || !bytes.Equal(b.Buf, sent[s][next[s]]) {
				bad = fmt.Sprintf("Recv #%d: sender %d frame out of order or altered (expected its frame %d)", k, s, next[s])
				break
			}
			next[s]++
		}
		if bad != "" {
			// the receiver gave up: unblock the senders (net.Pipe writes are synchronous)
			a.conn.Close()
		}
		<-sendersDone
		select {
		case err := <-sendErr:
			if bad == "" {
				bad = "Send: " + err.Error()
			}
		default:
		}
		if bad != "" {
			fail(c, "e2e-concurrent:"+kind, sig, bad)
		} else {
			c.Res.TracesValidated++
		}
		cancel()
		cl.Close()
		a.conn.Close()
	}
	return nil
}
