// Tiny symbolic executor for the three session functions of package telegram.
//
// It turns the Go source of onSession / onCDNSession / saveSession / dcSessionFromMTProto /
// restoreConnection into *structured* facts that the Lean model interprets:
//   - terms (Lean type Facts.C30.T) saying WHICH VALUE flows into each stored field, each
//     c.session.Store / storeDCSess argument and each condition, independent of variable names,
//     comments, logging, helper inlining;
//   - the order of the shared-state steps of onSession.
//
// A change of an operand (data.DC = c.session.Load().DC instead of cfg.ThisDC), of a condition
// (skip test, key-id test) or of the step order changes the model itself; a rename or a new log
// line does not.  Anything the executor does not understand becomes T.unknown (evaluates to a
// poison value in the model).
package main

import (
	"fmt"
	"go/ast"
	"go/token"
	"strconv"
	"strings"

	"verif/harness/hc"
)

// sym is a symbolic value: a Lean term of type T, or a struct of symbolic fields.
type sym struct {
	t string
	f map[string]*sym
}

func term(t string) *sym { return &sym{t: t} }

func unknown(src string) *sym {
	return term("(.unknown " + strconv.Quote(strings.Join(strings.Fields(src), " ")) + ")")
}

func (s *sym) clone() *sym {
	if s == nil {
		return nil
	}
	c := &sym{t: s.t}
	if s.f != nil {
		c.f = map[string]*sym{}
		for k, v := range s.f {
			c.f[k] = v.clone()
		}
	}
	return c
}

func (s *sym) equal(o *sym) bool {
	if s == nil || o == nil {
		return s == o
	}
	if s.t != o.t || len(s.f) != len(o.f) {
		return false
	}
	for k, v := range s.f {
		if !v.equal(o.f[k]) {
			return false
		}
	}
	return true
}

func mkKey(v, id *sym) *sym { return &sym{f: map[string]*sym{"Value": v, "ID": id}} }

// keyTerm renders a key-valued sym as a T term.
func keyTerm(s *sym) string {
	if s.f != nil && s.f["Value"] != nil && s.f["ID"] != nil {
		return "(.mkKey " + s.f["Value"].t + " " + s.f["ID"].t + ")"
	}
	if s.t != "" {
		return s.t
	}
	return unknown("key").t
}

type event struct {
	kind string // track trackCdn read guard store save load storeSave return
	cond string // guard: condition term
	val  *sym   // track/store: the struct argument; return: nothing
	ret  string // guard: what the body returns ("nil", "err", "new-error")
	note string
}

type symex struct {
	f      *hc.Facts
	fn     string
	env    map[string]*sym
	events []event
	writes [][2]string // saveSession: data.<Field> = term
	depth  int
}

func (x *symex) src(n ast.Node) string { return strings.Join(strings.Fields(x.f.Src(n)), " ") }

func (x *symex) lookupPath(e ast.Expr) (*sym, bool) {
	switch v := e.(type) {
	case *ast.Ident:
		s, ok := x.env[v.Name]
		return s, ok
	case *ast.SelectorExpr:
		base, ok := x.lookupPath(v.X)
		if !ok || base == nil {
			return nil, false
		}
		if base.f != nil {
			if s, ok := base.f[v.Sel.Name]; ok {
				return s, true
			}
		}
		return nil, false
	case *ast.SliceExpr:
		if v.Low == nil && v.High == nil {
			return x.lookupPath(v.X)
		}
	case *ast.ParenExpr:
		return x.lookupPath(v.X)
	case *ast.StarExpr:
		return x.lookupPath(v.X)
	}
	return nil, false
}

func (x *symex) assignPath(e ast.Expr, val *sym) bool {
	switch v := e.(type) {
	case *ast.Ident:
		if v.Name == "_" {
			return true
		}
		x.env[v.Name] = val
		return true
	case *ast.SelectorExpr:
		base, ok := x.lookupPath(v.X)
		if !ok || base == nil {
			return false
		}
		if base.f == nil {
			base.f = map[string]*sym{}
		}
		base.f[v.Sel.Name] = val
		return true
	case *ast.SliceExpr:
		return x.assignPath(v.X, val)
	case *ast.StarExpr:
		return x.assignPath(v.X, val)
	}
	return false
}

func isSel(e ast.Expr, path string) bool {
	var parts []string
	for {
		switch v := e.(type) {
		case *ast.SelectorExpr:
			parts = append([]string{v.Sel.Name}, parts...)
			e = v.X
			continue
		case *ast.Ident:
			parts = append([]string{v.Name}, parts...)
		}
		break
	}
	return strings.Join(parts, ".") == path
}

func (x *symex) eval(e ast.Expr) *sym {
	switch v := e.(type) {
	case *ast.ParenExpr:
		return x.eval(v.X)
	case *ast.BasicLit:
		if v.Kind == token.INT {
			return term("(.lit " + v.Value + ")")
		}
	case *ast.Ident:
		if s, ok := x.env[v.Name]; ok {
			return s
		}
		if v.Name == "nil" {
			return term("nil")
		}
	case *ast.SliceExpr:
		if v.Low == nil && v.High == nil {
			return x.eval(v.X)
		}
	case *ast.StarExpr:
		return x.eval(v.X)
	case *ast.UnaryExpr:
		switch v.Op {
		case token.NOT:
			return term("(.not " + x.eval(v.X).t + ")")
		case token.AND:
			return x.eval(v.X)
		}
	case *ast.BinaryExpr:
		a, b := x.eval(v.X), x.eval(v.Y)
		at, bt := a.t, b.t
		if a.f != nil {
			at = keyTerm(a)
		}
		if b.f != nil {
			bt = keyTerm(b)
		}
		switch v.Op {
		case token.LAND:
			return term("(.and " + at + " " + bt + ")")
		case token.LOR:
			return term("(.or " + at + " " + bt + ")")
		case token.EQL:
			return term("(.eq " + at + " " + bt + ")")
		case token.NEQ:
			return term("(.ne " + at + " " + bt + ")")
		case token.LSS:
			return term("(.lt " + at + " " + bt + ")")
		case token.GTR:
			return term("(.lt " + bt + " " + at + ")")
		case token.LEQ:
			return term("(.not (.lt " + bt + " " + at + "))")
		case token.GEQ:
			return term("(.not (.lt " + at + " " + bt + "))")
		}
	case *ast.SelectorExpr:
		if s, ok := x.lookupPath(v); ok && s != nil {
			return s
		}
		base := x.eval(v.X)
		if base.f != nil {
			if s, ok := base.f[v.Sel.Name]; ok {
				return s
			}
		}
		if base.f == nil && base.t != "" && !strings.HasPrefix(base.t, "(.unknown") {
			switch v.Sel.Name {
			case "Value":
				return term("(.valueOf " + base.t + ")")
			case "ID":
				return term("(.idOf " + base.t + ")")
			}
		}
	case *ast.CompositeLit:
		out := &sym{f: map[string]*sym{}}
		for _, el := range v.Elts {
			if kv, ok := el.(*ast.KeyValueExpr); ok {
				if k, ok := kv.Key.(*ast.Ident); ok {
					out.f[k.Name] = x.eval(kv.Value)
				}
			}
		}
		if strings.HasSuffix(x.src(v.Type), "session.Data") { // fresh Data: all zero
			for _, n := range []string{"DC", "Salt"} {
				if out.f[n] == nil {
					out.f[n] = term("(.lit 0)")
				}
			}
			for _, n := range []string{"AuthKey", "AuthKeyID"} {
				if out.f[n] == nil {
					out.f[n] = term("(.zeros 0)")
				}
			}
		}
		return out
	case *ast.CallExpr:
		return x.call(v)
	}
	return unknown(x.src(e))
}

func (x *symex) call(c *ast.CallExpr) *sym {
	src := x.src(c)
	if src == "c.session.Load()" {
		return &sym{f: map[string]*sym{"DC": term(".liveDC"), "Salt": term(".liveSalt"), "AuthKey": term(".liveKey")}}
	}
	switch fn := c.Fun.(type) {
	case *ast.Ident:
		switch fn.Name {
		case "len":
			if len(c.Args) == 1 {
				return term("(.len " + x.eval(c.Args[0]).t + ")")
			}
		default:
			// same-package function: inline
			if d := x.f.FuncDecl("telegram", fn.Name); d != nil && d.Body != nil && x.depth < 3 && d.Recv == nil {
				sub := &symex{f: x.f, fn: fn.Name, env: map[string]*sym{}, depth: x.depth + 1}
				i := 0
				for _, p := range d.Type.Params.List {
					for _, nm := range p.Names {
						if i < len(c.Args) {
							sub.env[nm.Name] = x.eval(c.Args[i])
						}
						i++
					}
				}
				if r := sub.block(d.Body.List); r != nil {
					return r
				}
			}
		}
	case *ast.SelectorExpr:
		recv := fn.X
		switch fn.Sel.Name {
		case "Zero":
			if len(c.Args) == 0 {
				return term("(.isZeroKey " + keyTerm(x.eval(recv)) + ")")
			}
		case "ID": // crypto.Key.ID()
			if len(c.Args) == 0 {
				return term("(.keyID " + x.eval(recv).t + ")")
			}
		case "WithID": // crypto.Key.WithID()
			if len(c.Args) == 0 {
				v := x.eval(recv)
				return mkKey(v, term("(.keyID "+v.t+")"))
			}
		case "Equal":
			if isSel(fn.X, "bytes") && len(c.Args) == 2 {
				return term("(.eq " + x.eval(c.Args[0]).t + " " + x.eval(c.Args[1]).t + ")")
			}
		case "Is":
			if isSel(fn.X, "errors") && len(c.Args) == 2 && x.src(c.Args[1]) == "session.ErrNotFound" {
				return term("err-is-not-found")
			}
		}
	}
	return unknown(src)
}

func zeroOf(typ string) *sym {
	switch typ {
	case "crypto.AuthKey":
		return mkKey(term("(.zeros 256)"), term("(.zeros 8)"))
	case "crypto.Key":
		return term("(.zeros 256)")
	}
	return unknown("zero value of " + typ)
}

// block executes statements; returns the value of a final `return expr` if any.
func (x *symex) block(stmts []ast.Stmt) *sym {
	for i, st := range stmts {
		switch v := st.(type) {
		case *ast.DeclStmt:
			if g, ok := v.Decl.(*ast.GenDecl); ok {
				for _, sp := range g.Specs {
					if vs, ok := sp.(*ast.ValueSpec); ok {
						for j, nm := range vs.Names {
							if j < len(vs.Values) {
								x.env[nm.Name] = x.eval(vs.Values[j]).clone()
							} else if vs.Type != nil {
								x.env[nm.Name] = zeroOf(x.src(vs.Type))
							}
						}
					}
				}
			}
		case *ast.AssignStmt:
			x.assign(v)
		case *ast.ExprStmt:
			if c, ok := v.X.(*ast.CallExpr); ok {
				x.exprCall(c)
			}
		case *ast.IfStmt:
			x.ifStmt(v, stmts[i+1:])
		case *ast.ReturnStmt:
			x.events = append(x.events, event{kind: "return"})
			if len(v.Results) >= 1 {
				return x.eval(v.Results[0])
			}
			return nil
		}
	}
	return nil
}

func (x *symex) assign(v *ast.AssignStmt) {
	// data, err := c.storage.Load(ctx) / err := c.storage.Save(ctx, data) / err := c.saveSession(cfg, s)
	if len(v.Rhs) == 1 {
		if c, ok := v.Rhs[0].(*ast.CallExpr); ok {
			s := x.src(c.Fun)
			switch {
			case s == "c.storage.Load":
				x.events = append(x.events, event{kind: "load"})
				if len(v.Lhs) >= 1 {
					x.assignPath(v.Lhs[0], &sym{f: map[string]*sym{"DC": term(".dataDC"), "Salt": term(".dataSalt"),
						"AuthKey": term(".dataAuthKey"), "AuthKeyID": term(".dataAuthKeyID")}})
				}
				return
			case s == "c.storage.Save":
				x.events = append(x.events, event{kind: "storeSave"})
				return
			case s == "c.saveSession":
				x.events = append(x.events, event{kind: "save"})
				return
			}
		}
	}
	if len(v.Lhs) != len(v.Rhs) {
		for _, l := range v.Lhs {
			x.assignPath(l, unknown(x.src(v)))
		}
		return
	}
	for i := range v.Lhs {
		val := x.eval(v.Rhs[i]).clone()
		// a local initialised from the live primary session is a snapshot taken now
		if id, ok := v.Lhs[i].(*ast.Ident); ok && val.t == ".liveDC" {
			x.events = append(x.events, event{kind: "read", note: id.Name})
			val = term(".primaryRead")
		}
		if isDataField(v.Lhs[i]) {
			fld := v.Lhs[i].(*ast.SelectorExpr).Sel.Name
			t := val.t
			if val.f != nil {
				t = unknown(x.src(v.Rhs[i])).t
			}
			x.writes = append(x.writes, [2]string{fld, t})
		}
		if !x.assignPath(v.Lhs[i], val) {
			x.events = append(x.events, event{kind: "unknown", note: x.src(v)})
		}
	}
}

func isDataField(e ast.Expr) bool {
	s, ok := e.(*ast.SelectorExpr)
	if !ok {
		return false
	}
	id, ok := s.X.(*ast.Ident)
	return ok && id.Name == "data"
}

func (x *symex) exprCall(c *ast.CallExpr) {
	s := x.src(c.Fun)
	switch {
	case s == "copy" && len(c.Args) == 2:
		dst, ok := x.lookupPath(c.Args[0])
		src := x.eval(c.Args[1])
		if ok && dst != nil && strings.HasPrefix(dst.t, "(.zeros ") {
			n := strings.TrimSuffix(strings.TrimPrefix(dst.t, "(.zeros "), ")")
			x.assignPath(c.Args[0], term("(.fit "+n+" "+src.t+")"))
		} else {
			x.assignPath(c.Args[0], unknown(x.src(c)))
		}
	case s == "c.storeDCSess" && len(c.Args) == 2:
		kind := "track"
		if x.src(c.Args[0]) == "c.cdnSessions" {
			kind = "trackCdn"
		} else if x.src(c.Args[0]) != "c.sessions" {
			kind = "trackUnknown"
		}
		x.events = append(x.events, event{kind: kind, val: x.eval(c.Args[1]).clone()})
	case s == "c.session.Store" && len(c.Args) == 1:
		x.events = append(x.events, event{kind: "store", val: x.eval(c.Args[0]).clone()})
	case s == "c.session.Migrate":
		x.events = append(x.events, event{kind: "migrate"})
	}
}

func endsInReturn(b *ast.BlockStmt) (*ast.ReturnStmt, bool) {
	if b == nil || len(b.List) == 0 {
		return nil, false
	}
	r, ok := b.List[len(b.List)-1].(*ast.ReturnStmt)
	return r, ok
}

func (x *symex) ifStmt(v *ast.IfStmt, rest []ast.Stmt) {
	if v.Init != nil {
		x.block([]ast.Stmt{v.Init})
	}
	cond := x.eval(v.Cond)
	if r, ok := endsInReturn(v.Body); ok && v.Else == nil {
		ret := "value"
		if len(r.Results) == 1 {
			rs := x.src(r.Results[0])
			switch {
			case rs == "nil":
				ret = "nil"
			case strings.HasPrefix(rs, "errors.Wrap"):
				ret = "err"
			case strings.HasPrefix(rs, "errors.New"):
				ret = "new-error"
			}
		}
		x.events = append(x.events, event{kind: "guard", cond: cond.t, ret: ret, note: guardClass(x.src(v.Cond))})
		return
	}
	// conditional assignments: merge with ite
	before := map[string]*sym{}
	for k, s := range x.env {
		before[k] = s.clone()
	}
	nw := len(x.writes)
	x.block(v.Body.List)
	if v.Else != nil {
		x.events = append(x.events, event{kind: "unknown", note: "else branch: " + x.src(v.Cond)})
	}
	for k, after := range x.env {
		x.env[k] = merge(cond.t, after, before[k])
	}
	for i := nw; i < len(x.writes); i++ { // a write under a condition
		x.writes[i][1] = "(.ite " + cond.t + " " + x.writes[i][1] + " (.unknown \"conditional write\"))"
	}
}

// guardClass names a guard structurally (independent of variable names) where it can.
func guardClass(src string) string {
	switch {
	case src == "c.storage == nil":
		return "nil-storage"
	case strings.HasPrefix(src, "errors.Is(") && strings.HasSuffix(src, ", session.ErrNotFound)"):
		return "not-found"
	case strings.HasSuffix(src, " != nil") && !strings.ContainsAny(strings.TrimSuffix(src, " != nil"), " .()"):
		return "error"
	}
	return src
}

func merge(cond string, a, b *sym) *sym {
	if b == nil || a.equal(b) {
		return a
	}
	if a.f != nil || b.f != nil {
		out := &sym{f: map[string]*sym{}}
		if a.f != nil && b.f != nil {
			for k, av := range a.f {
				if bv, ok := b.f[k]; ok {
					out.f[k] = merge(cond, av, bv)
				} else {
					out.f[k] = av
				}
			}
			return out
		}
		// one side is an opaque key term, the other a struct
		return term("(.ite " + cond + " " + keyTerm(a) + " " + keyTerm(b) + ")")
	}
	return term("(.ite " + cond + " " + a.t + " " + b.t + ")")
}

// ---------------------------------------------------------------------------------------------

func runFunc(f *hc.Facts, name string, env map[string]*sym) *symex {
	d := f.FuncDecl("telegram", name)
	if d == nil || d.Body == nil {
		return nil
	}
	x := &symex{f: f, fn: name, env: env}
	x.block(d.Body.List)
	return x
}

func notifEnv() map[string]*sym {
	return map[string]*sym{
		"cfg": {f: map[string]*sym{"ThisDC": term(".cfgThisDC")}},
		"s":   {f: map[string]*sym{"Key": term(".sKey"), "PermKey": term(".sPermKey"), "Salt": term(".salt")}},
	}
}

func sessTriple(s *sym) (dc, key, salt string) {
	get := func(n string) *sym {
		if s != nil && s.f != nil && s.f[n] != nil {
			return s.f[n]
		}
		return unknown("missing field " + n)
	}
	return get("DC").t, keyTerm(get("AuthKey")), get("Salt").t
}

const irDecl = `/-- Value terms of the session functions (regenerated; interpreted by TdModel.C30.eval). -/
inductive T where
  | cfgThisDC | liveDC | liveSalt | liveKey | primaryRead | salt
  | dataDC | dataSalt | dataAuthKey | dataAuthKeyID
  | sKey | sPermKey
  | lit (n : Int) | zeros (n : Nat)
  | mkKey (v id : T) | valueOf (k : T) | idOf (k : T)
  | fit (n : Nat) (b : T) | keyID (v : T) | len (b : T)
  | isZeroKey (k : T)
  | not (c : T) | and (a b : T) | or (a b : T) | eq (a b : T) | ne (a b : T) | lt (a b : T)
  | ite (c a b : T)
  | unknown (src : String)
  deriving Repr, DecidableEq`

func emitTriple(f *hc.Facts, prefix string, s *sym, doc string) {
	dc, key, salt := sessTriple(s)
	f.Raw("/-- " + doc + " -/")
	f.Raw(fmt.Sprintf("def %sDC : T := %s", prefix, strings.Trim(dc, " ")))
	f.Raw(fmt.Sprintf("def %sKey : T := %s", prefix, key))
	f.Raw(fmt.Sprintf("def %sSalt : T := %s", prefix, salt))
}

// structuredFacts emits the IR facts; anything missing is emitted ill-typed.
func structuredFacts(f *hc.Facts) {
	f.Raw(irDecl)
	f.Raw("")
	// ---- onSession
	if x := runFunc(f, "Client.onSession", notifEnv()); x == nil {
		f.Missing("onSessionSteps", "telegram.Client.onSession not found")
	} else {
		var steps []string
		skip := unknown("no skip test").t
		var track, store *sym
		ev := x.events
		for i := 0; i < len(ev); i++ {
			e := ev[i]
			switch e.kind {
			case "track", "trackCdn", "trackUnknown":
				steps = append(steps, e.kind)
				track = e.val
			case "read":
				// read immediately followed by the guard that uses it = one step "test"
				if i+1 < len(ev) && ev[i+1].kind == "guard" && strings.Contains(ev[i+1].cond, ".primaryRead") && ev[i+1].ret == "nil" {
					steps = append(steps, "test")
					skip = ev[i+1].cond
					i++
				} else {
					steps = append(steps, "read")
				}
			case "guard":
				switch {
				case e.ret == "err": // error plumbing after a call
				case e.ret == "nil":
					steps = append(steps, "test")
					skip = e.cond
				default:
					steps = append(steps, "guard-"+e.ret)
				}
			case "store":
				steps = append(steps, "store")
				store = e.val
			case "save":
				steps = append(steps, "save")
			case "migrate", "unknown", "load", "storeSave":
				steps = append(steps, e.kind)
			}
		}
		f.Raw("/-- shared-state steps of telegram.Client.onSession in execution order -/")
		f.Raw("def onSessionSteps : List String := " + leanStrList(steps))
		f.Raw("/-- onSession returns early (session of a non-primary DC) when this holds -/")
		f.Raw("def skipCond : T := " + skip)
		emitTriple(f, "track", track, "argument of storeDCSess(c.sessions, ·) in onSession")
		emitTriple(f, "store", store, "argument of c.session.Store(·) in onSession")
	}
	// ---- onCDNSession
	if x := runFunc(f, "Client.onCDNSession", notifEnv()); x == nil {
		f.Missing("onCDNSessionSteps", "telegram.Client.onCDNSession not found")
	} else {
		var steps []string
		var track *sym
		for _, e := range x.events {
			switch e.kind {
			case "return":
			case "track", "trackCdn", "trackUnknown":
				steps = append(steps, e.kind)
				track = e.val
			default:
				steps = append(steps, e.kind)
			}
		}
		f.Raw("/-- shared-state steps of telegram.Client.onCDNSession -/")
		f.Raw("def onCDNSessionSteps : List String := " + leanStrList(steps))
		emitTriple(f, "cdnTrack", track, "argument of storeDCSess(c.cdnSessions, ·) in onCDNSession")
	}
	// ---- saveSession
	if x := runFunc(f, "Client.saveSession", notifEnv()); x == nil {
		f.Missing("saveWrites", "telegram.Client.saveSession not found")
	} else {
		var sk []string
		for _, e := range x.events {
			switch e.kind {
			case "guard":
				sk = append(sk, "guard["+e.note+"]->"+e.ret)
			case "return":
			default:
				sk = append(sk, e.kind)
			}
		}
		var ws []string
		for _, w := range x.writes {
			if w[0] == "Config" {
				continue
			}
			ws = append(ws, "("+strconv.Quote(w[0])+", "+w[1]+")")
		}
		f.Raw("/-- fields of the loaded session.Data overwritten by saveSession, with the value written -/")
		f.Raw("def saveWrites : List (String × T) := [" + strings.Join(ws, ", ") + "]")
		f.Raw("/-- control skeleton of saveSession: guards and storage calls in order -/")
		f.Raw("def saveSkeleton : List String := " + leanStrList(sk))
	}
	// ---- restoreConnection
	if x := runFunc(f, "Client.restoreConnection", map[string]*sym{}); x == nil {
		f.Missing("restoreRefuse", "telegram.Client.restoreConnection not found")
	} else {
		refuse := unknown("no refusal test").t
		var sk []string
		var store *sym
		for _, e := range x.events {
			switch e.kind {
			case "guard":
				if e.ret == "new-error" {
					refuse = e.cond
					sk = append(sk, "refuse")
				} else {
					sk = append(sk, "guard["+e.note+"]->"+e.ret)
				}
			case "store":
				store = e.val
				sk = append(sk, "store")
			case "return":
			default:
				sk = append(sk, e.kind)
			}
		}
		f.Raw("/-- restoreConnection returns \"corrupted key\" when this holds -/")
		f.Raw("def restoreRefuse : T := " + refuse)
		emitTriple(f, "restore", store, "argument of c.session.Store(·) in restoreConnection")
		f.Raw("/-- control skeleton of restoreConnection -/")
		f.Raw("def restoreSkeleton : List String := " + leanStrList(sk))
	}
}
