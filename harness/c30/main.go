// C30 — saved sessions hold the key confirmed for the primary DC.
//
// White-box correspondence: the real telegram.Client session bookkeeping (onSession, onCDNSession,
// saveSession, restoreConnection — through the hook telegram.VerifC30Client) against the Lean model
// TdModel.C30 on PRNG-ordered notification histories, plus the property monitor on the
// implementation's storage contents and restore results.
package main

import (
	"bytes"
	"context"
	"crypto/sha1"
	"encoding/json"
	"errors"
	"fmt"
	"go/ast"
	"go/token"
	"runtime"
	"strconv"
	"strings"
	"sync"
	"time"

	"github.com/gotd/td/crypto"
	"github.com/gotd/td/mtproto"
	"github.com/gotd/td/session"
	"github.com/gotd/td/telegram"
	"github.com/gotd/td/tg"

	"verif/harness/hc"
)

func main() {
	hc.Main(hc.Spec{Prop: "C30", Facts: facts, Run: run})
}

// ---------------------------------------------------------------------------------------------
// facts

func leanStrList(xs []string) string {
	q := make([]string, len(xs))
	for i, x := range xs {
		q[i] = strconv.Quote(x)
	}
	return "[" + strings.Join(q, ", ") + "]"
}

// ifsAndAssigns lists, in source order, the conditions of all `if` statements (prefixed "if ") and all
// assignments / calls on c.session, c.storage (prefixed "do ") of a function.
func summary(f *hc.Facts, fd *ast.FuncDecl) []string { return normalise(summaryRaw(f, fd)) }

func normalise(xs []string) []string {
	for i, x := range xs {
		xs[i] = strings.Join(strings.Fields(x), " ")
	}
	return xs
}

func summaryRaw(f *hc.Facts, fd *ast.FuncDecl) []string {
	var out []string
	ast.Inspect(fd.Body, func(n ast.Node) bool {
		switch v := n.(type) {
		case *ast.IfStmt:
			out = append(out, "if "+f.Src(v.Cond))
		case *ast.AssignStmt:
			out = append(out, "do "+f.Src(v))
		case *ast.ExprStmt:
			if c, ok := v.X.(*ast.CallExpr); ok {
				s := f.Src(c)
				if strings.HasPrefix(s, "c.session.") || strings.HasPrefix(s, "c.storeDCSess") || strings.HasPrefix(s, "copy(") {
					out = append(out, "do "+s)
				}
			}
		case *ast.ReturnStmt:
			out = append(out, "return "+strings.TrimPrefix(f.Src(v), "return "))
		}
		return true
	})
	return out
}

func facts(f *hc.Facts) {
	for _, fn := range []struct{ lean, name string }{
		{"onSessionSrc", "Client.onSession"}, {"onCDNSessionSrc", "Client.onCDNSession"},
		{"saveSessionSrc", "Client.saveSession"}, {"restoreSrc", "Client.restoreConnection"},
		{"dcSessionSrc", "dcSessionFromMTProto"},
	} {
		fd := f.FuncDecl("telegram", fn.name)
		if fd == nil || fd.Body == nil {
			f.Missing(fn.lean, "telegram."+fn.name+" not found")
			continue
		}
		f.Raw(fmt.Sprintf("/-- conditions, assignments, session/storage calls and returns of telegram.%s in source order -/", fn.name))
		f.Raw("def " + fn.lean + " : List String := " + leanStrList(summary(f, fd)))
	}
	// crypto.Key.ID: copy(id[:], raw[LOW:]) into a [LEN]byte
	fd := f.FuncDecl("crypto", "Key.ID")
	off, ln := -1, -1
	if fd != nil && fd.Body != nil {
		ast.Inspect(fd.Body, func(n ast.Node) bool {
			switch v := n.(type) {
			case *ast.SliceExpr:
				if id, ok := v.X.(*ast.Ident); ok && id.Name == "raw" && v.High == nil {
					if l, ok := v.Low.(*ast.BasicLit); ok && l.Kind == token.INT {
						off, _ = strconv.Atoi(l.Value)
					}
				}
			case *ast.ArrayType:
				if l, ok := v.Len.(*ast.BasicLit); ok && l.Kind == token.INT {
					ln, _ = strconv.Atoi(l.Value)
				}
			}
			return true
		})
	}
	if off < 0 || ln < 0 {
		f.Missing("keyIDOffset", "crypto.Key.ID: copy(id[:], raw[N:]) not found")
		f.Missing("keyIDLen", "crypto.Key.ID: [N]byte not found")
	} else {
		f.Nat("keyIDOffset", off, "crypto.Key.ID: raw[N:]")
		f.Nat("keyIDLen", ln, "crypto.Key.ID: var id [N]byte")
	}
	// the handlers: clientHandler.OnSession -> onSession, cdnClientHandler.OnSession -> onCDNSession
	for _, h := range []struct{ lean, name string }{{"regularHandlerCalls", "clientHandler.OnSession"}, {"cdnHandlerCalls", "cdnClientHandler.OnSession"}} {
		fd := f.FuncDecl("telegram", h.name)
		callee := ""
		if fd != nil && fd.Body != nil {
			ast.Inspect(fd.Body, func(n ast.Node) bool {
				if c, ok := n.(*ast.CallExpr); ok {
					if s, ok := c.Fun.(*ast.SelectorExpr); ok {
						callee = s.Sel.Name
					}
				}
				return true
			})
		}
		if callee == "" {
			f.Missing(h.lean, "telegram."+h.name+" not found")
		} else {
			f.Str(h.lean, callee, "telegram."+h.name+" forwards to")
		}
	}
}

// ---------------------------------------------------------------------------------------------
// storage with injectable failures

var (
	errLoadInjected = errors.New("injected load failure")
	errSaveInjected = errors.New("injected save failure")
)

type faultyStorage struct {
	mem      session.StorageMemory
	loadFail bool
	saveFail bool
	garbage  []byte // when set, LoadSession returns these bytes
	jitter   bool   // concurrent runs: yield / sleep around storage calls to shake the interleaving
	perCall  func() (loadFail, saveFail bool)
}

func (s *faultyStorage) shake() {
	if !s.jitter {
		return
	}
	switch time.Now().UnixNano() % 4 { // scheduling noise only; never part of a compared value
	case 0:
		runtime.Gosched()
	case 1:
		time.Sleep(20 * time.Microsecond)
	case 2:
		time.Sleep(200 * time.Microsecond)
	}
}

func (s *faultyStorage) LoadSession(ctx context.Context) ([]byte, error) {
	s.shake()
	defer s.shake()
	if s.loadFail {
		return nil, errLoadInjected
	}
	if s.garbage != nil {
		return s.garbage, nil
	}
	return s.mem.LoadSession(ctx)
}

func (s *faultyStorage) StoreSession(ctx context.Context, data []byte) error {
	s.shake()
	defer s.shake()
	if s.saveFail {
		return errSaveInjected
	}
	return s.mem.StoreSession(ctx, data)
}

// stored returns what is in the storage (nil when empty), bypassing the fault switches.
func (s *faultyStorage) stored() *session.Data {
	d, err := (&session.Loader{Storage: &s.mem}).Load(context.Background())
	if err != nil {
		return nil
	}
	return d
}

// ---------------------------------------------------------------------------------------------
// canonical forms (identical to Drv/C30.lean)

func fnv64(b []byte) uint64 {
	h := uint64(14695981039346656037)
	for _, x := range b {
		h = (h ^ uint64(x)) * 1099511628211
	}
	return h
}

func showBytes(b []byte) string { return fmt.Sprintf("%d.%d", len(b), fnv64(b)) }

func showKeySess(dc int, k crypto.AuthKey, salt int64) string {
	return fmt.Sprintf("%d:%s:%s:%d", dc, showBytes(k.Value[:]), hc.Hex(k.ID[:]), salt)
}

func showStored(d *session.Data) string {
	if d == nil {
		return "-"
	}
	return fmt.Sprintf("%d:%s:%s:%d:%s", d.DC, showBytes(d.AuthKey), hc.Hex(d.AuthKeyID), d.Salt, hc.Hex([]byte(d.Addr)))
}

func wireStored(d *session.Data) string {
	return fmt.Sprintf("%d,%s,%s,%d,%s", d.DC, hc.Hex(d.AuthKey), hc.Hex(d.AuthKeyID), d.Salt, hc.Hex([]byte(d.Addr)))
}

var dcUniverse = []int{0, 1, 2, 3, 4, 5, 201, 203}

func showClient(v *telegram.VerifC30Client, st *faultyStorage) string {
	s := v.VerifC30Session()
	var stored *session.Data
	if st != nil {
		stored = st.stored()
	}
	maps := [2]string{}
	for i, cdn := range []bool{false, true} {
		var parts []string
		for _, dc := range dcUniverse { // ascending: the model sorts by DC id
			if x, ok := v.VerifC30DCSession(dc, cdn); ok {
				parts = append(parts, showKeySess(x.DC, x.AuthKey, x.Salt))
			}
		}
		maps[i] = "-"
		if len(parts) > 0 {
			maps[i] = strings.Join(parts, ",")
		}
	}
	return fmt.Sprintf("sess=%s|stored=%s|dcs=%s|cdn=%s", showKeySess(s.DC, s.AuthKey, s.Salt), showStored(stored), maps[0], maps[1])
}

// ---------------------------------------------------------------------------------------------
// generators

type notif struct {
	cdn     bool
	dc      int
	key     crypto.AuthKey
	perm    crypto.AuthKey
	salt    int64
	fault   byte // n l s
	hasPerm bool
}

func (n notif) eff() crypto.AuthKey {
	if !n.perm.Zero() {
		return n.perm
	}
	return n.key
}

func (n notif) wire() string {
	k := "r"
	if n.cdn {
		k = "c"
	}
	return fmt.Sprintf("%s,%d,%s,%s,%s,%s,%d,%c", k, n.dc, hc.Hex(n.key.Value[:]), hc.Hex(n.key.ID[:]),
		hc.Hex(n.perm.Value[:]), hc.Hex(n.perm.ID[:]), n.salt, n.fault)
}

func genKey(r *hc.RNG) crypto.AuthKey {
	var k crypto.Key
	copy(k[:], r.Bytes(256))
	if r.Chance(5) { // sparse key: mostly zero bytes
		k = crypto.Key{}
		k[r.Intn(256)] = byte(1 + r.Intn(255))
	}
	a := k.WithID()
	if r.Chance(5) { // id that does not belong to the key (onSession does not check; restore must)
		copy(a.ID[:], r.Bytes(8))
	}
	return a
}

func genHistory(r *hc.RNG, c *hc.Ctx, primary int, pfs bool) []notif {
	pool := make([]crypto.AuthKey, 5)
	for i := range pool {
		pool[i] = genKey(r)
	}
	n := hc.Pick(r, 0, 1, 1, 2, 3, 5, 8, 14)
	var out []notif
	for i := 0; i < n; i++ {
		var x notif
		switch r.Intn(10) {
		case 0, 1, 2, 3:
			x.dc = primary
		case 4, 5, 6:
			x.dc = 1 + r.Intn(5)
		case 7:
			x.dc = 0
		default:
			x.cdn, x.dc = true, hc.Pick(r, 201, 203, primary, 1+r.Intn(5))
		}
		if !x.cdn && r.Chance(5) {
			x.dc = hc.Pick(r, 201, 203) // a CDN DC id arriving on the regular handler
		}
		x.key = hc.Pick(r, pool...)
		if pfs || r.Chance(10) {
			x.perm, x.hasPerm = hc.Pick(r, pool...), true
			if r.Chance(8) { // permanent key with zero value but non-zero id is still "non-zero"
				x.perm = crypto.AuthKey{}
				x.perm.ID[3] = 7
			}
		}
		x.salt = int64(r.U64())
		if r.Chance(10) {
			x.salt = hc.Pick[int64](r, 0, -1, 1<<62)
		}
		x.fault = 'n'
		if r.Chance(15) {
			x.fault = hc.Pick[byte](r, 'l', 's')
		}
		out = append(out, x)
	}
	return out
}

func sha1ID(v []byte) []byte {
	h := sha1.Sum(v)
	return h[12:20]
}

func fit(n int, b []byte) []byte {
	out := make([]byte, n)
	copy(out, b)
	return out
}

// ---------------------------------------------------------------------------------------------

func run(c *hc.Ctx) error {
	r := c.Rng
	c.Res.Rule = "histories: primary DC 0..5, PFS on/off, storage present / absent / pre-populated / failing on load or save per notification, " +
		"0..14 notifications mixing the primary DC, other DCs, DC id 0, CDN connections and CDN DC ids on the regular handler, keys drawn from a pool of 5 " +
		"(5% with a foreign key id, 5% sparse), permanent keys incl. zero-value/non-zero-id; non-trivial = history with ≥ 2 notifications of which at least one is " +
		"regular from a non-primary DC or CDN and at least one is accepted. restore: stored sessions mutated (key byte, key id byte, key/id length, DC 0, " +
		"bad JSON, wrong version, empty); all non-trivial. distinct = distinct input line"
	c.PartialNote("concurrent notifications: the interleaving is the Go scheduler's (shaken by yields/sleeps in the storage), not enumerated; the model must admit the observed final state (reachability over all interleavings of the atomic steps), intermediate states are not observed")
	c.PartialNote("session.Loader's JSON encoding is exercised (storage content is read back through it) but not modelled")

	type pend struct {
		line string
		impl []string
	}
	type rpend struct{ line, impl string }
	totalHist, totalRes := c.N(4000, 100000), c.N(6000, 200000)
	const chunk = 2000
	for totalHist > 0 || totalRes > 0 {
		nHist, nRes := min(totalHist, chunk), min(totalRes, chunk)
		totalHist, totalRes = totalHist-nHist, totalRes-nRes
		var runs []pend
		for i := 0; i < nHist; i++ {
			primary := hc.Pick(r, 0, 1, 2, 2, 3, 4, 5)
			pfs := r.Chance(40)
			hasStorage := !r.Chance(6)
			var st *faultyStorage
			var storage session.Storage
			var init *session.Data
			if hasStorage {
				st = &faultyStorage{}
				storage = st
				if r.Chance(30) {
					k := genKey(r)
					init = &session.Data{DC: hc.Pick(r, primary, 1+r.Intn(5)), Addr: hc.Pick(r, "", "149.154.167.50:443"),
						AuthKey: append([]byte{}, k.Value[:]...), AuthKeyID: append([]byte{}, k.ID[:]...), Salt: int64(r.U64())}
					if err := (&session.Loader{Storage: &st.mem}).Save(context.Background(), init); err != nil {
						return err
					}
				}
			}
			hist := genHistory(r, c, primary, pfs)
			v := telegram.VerifC30NewClient(primary, pfs, storage)
			hs := "0"
			if hasStorage {
				hs = "1"
			}
			is := "-"
			if init != nil {
				is = wireStored(init)
			}
			var ws []string
			for _, n := range hist {
				ws = append(ws, n.wire())
			}
			line := fmt.Sprintf("run %s %d %s %s", hs, primary, is, strings.Join(ws, " "))
			var impl []string
			foreignSeen, acceptedSeen := false, false
			// eligible[j]: notification j could legitimately be what the storage holds
			type cand struct {
				n        notif
				eligible bool
			}
			var cands []cand
			prevStored := showStored(init)
			for j, n := range hist {
				before := v.VerifC30Session()
				if st != nil {
					st.loadFail, st.saveFail = n.fault == 'l', n.fault == 's'
				}
				cfg := tg.Config{ThisDC: n.dc}
				ms := mtproto.Session{ID: int64(r.U64()), Key: n.key, Salt: n.salt, PermKey: n.perm}
				var err error
				func() {
					defer func() {
						if p := recover(); p != nil {
							err = fmt.Errorf("panic: %v", p)
							c.Fail("onsession-panic", line, fmt.Sprintf("notification %d: %v", j, p))
						}
					}()
					if n.cdn {
						err = v.VerifC30OnCDNSession(cfg, ms)
					} else {
						err = v.VerifC30OnSession(cfg, ms)
					}
				}()
				if st != nil {
					st.loadFail, st.saveFail = false, false
				}
				res := "ok"
				switch {
				case err == nil:
				case errors.Is(err, errLoadInjected):
					res = "err-load"
				case errors.Is(err, errSaveInjected):
					res = "err-save"
				default:
					res = "err-other:" + err.Error()
				}
				state := showClient(v, st)
				impl = append(impl, res+"|"+state)
				// ---- monitor (model-free)
				elig := !n.cdn && (n.dc == before.DC || before.DC == 0 || n.dc == 0)
				cands = append(cands, cand{n, elig})
				if n.cdn || !elig {
					foreignSeen = true
				}
				var now *session.Data
				if st != nil {
					now = st.stored()
				}
				cur := showStored(now)
				if cur != prevStored {
					acceptedSeen = true
					if n.cdn || !elig {
						c.Fail("foreign-notification-changed-storage", line, fmt.Sprintf("notification %d (cdn=%v dc=%d, primary DC %d) changed the stored session to %s", j, n.cdn, n.dc, before.DC, cur))
					}
				}
				prevStored = cur
				if now != nil {
					ok := init != nil && showStored(init) == cur
					for _, cd := range cands {
						e := cd.n.eff()
						if cd.eligible && now.DC == cd.n.dc && bytes.Equal(now.AuthKey, e.Value[:]) && bytes.Equal(now.AuthKeyID, e.ID[:]) && now.Salt == cd.n.salt {
							ok = true
						}
					}
					if !ok {
						c.Fail("stored-not-one-confirmed-session", line, fmt.Sprintf("after notification %d the storage holds %s, which is not the DC+key+salt of any single eligible notification", j, cur))
					}
					if primary != 0 && (init == nil || showStored(init) != cur) {
						allNonZero := true
						for _, cd := range cands {
							if cd.n.dc == 0 {
								allNonZero = false
							}
						}
						if allNonZero && now.DC != primary {
							c.Fail("stored-dc-not-primary", line, fmt.Sprintf("primary DC %d but the stored session has DC %d after notification %d", primary, now.DC, j))
						}
					}
				}
			}
			v.VerifC30Close()
			c.Count(fmt.Sprintf("hist.len=%d", len(hist)))
			if !hasStorage {
				c.Count("hist.no-storage")
			} else if init != nil {
				c.Count("hist.prepopulated")
			}
			if pfs {
				c.Count("hist.pfs")
			}
			c.Eval(line, len(hist) >= 2 && foreignSeen && acceptedSeen)
			runs = append(runs, pend{line, impl})
		}

		// ---- restore
		var restores []rpend
		for i := 0; i < nRes; i++ {
			primary := hc.Pick(r, 0, 1, 2, 3, 4, 5)
			k := genKey(r)
			d := &session.Data{DC: hc.Pick(r, 0, 1, 2, 3, 4, 5, primary), Addr: hc.Pick(r, "", "149.154.167.50:443"),
				AuthKey: append([]byte{}, k.Value[:]...), AuthKeyID: append([]byte{}, k.ID[:]...), Salt: int64(r.U64())}
			st := &faultyStorage{}
			hasStorage := !r.Chance(4)
			load := ""
			mut := hc.Pick(r, "none", "none", "key-bit", "id-bit", "key-short", "key-long", "id-short", "id-long", "key-empty", "id-empty", "zero-key", "garbage", "version", "empty", "load-fail")
			switch mut {
			case "key-bit":
				d.AuthKey[r.Intn(256)] ^= byte(1 << r.Intn(8))
			case "id-bit":
				d.AuthKeyID[r.Intn(8)] ^= byte(1 << r.Intn(8))
			case "key-short":
				d.AuthKey = d.AuthKey[:r.Intn(256)]
			case "key-long":
				d.AuthKey = append(d.AuthKey, r.Bytes(1+r.Intn(8))...)
			case "id-short":
				d.AuthKeyID = d.AuthKeyID[:r.Intn(8)]
			case "id-long":
				d.AuthKeyID = append(d.AuthKeyID, r.Bytes(1+r.Intn(4))...)
			case "key-empty":
				d.AuthKey = nil
			case "id-empty":
				d.AuthKeyID = nil
			case "zero-key":
				d.AuthKey, d.AuthKeyID = make([]byte, 256), make([]byte, 8)
			}
			c.Count("restore.mut=" + mut)
			switch mut {
			case "garbage":
				st.garbage = []byte(hc.Pick(r, "{", "not json", "{\"Version\":1,\"Data\":[]}", "\x00\x01"))
				load = "err"
			case "version":
				b, _ := json.Marshal(map[string]any{"Version": hc.Pick(r, 0, 2, 7), "Data": d})
				st.garbage = b
				load = "nf"
			case "empty":
				load = "nf"
			case "load-fail":
				st.loadFail = true
				load = "err"
			default:
				if err := (&session.Loader{Storage: &st.mem}).Save(context.Background(), d); err != nil {
					return err
				}
				load = fmt.Sprintf("%d,%s,%s,%d,%s", d.DC, hc.Hex(d.AuthKey), hc.Hex(d.AuthKeyID), d.Salt, hc.Hex([]byte(d.Addr)))
			}
			var storage session.Storage
			hs := "0"
			if hasStorage {
				storage, hs = st, "1"
			}
			v := telegram.VerifC30NewClient(primary, false, storage)
			var err error
			func() {
				defer func() {
					if p := recover(); p != nil {
						err = fmt.Errorf("panic: %v", p)
						c.Fail("restore-panic", fmt.Sprintf("restore %s %d %s", hs, primary, load), fmt.Sprint(p))
					}
				}()
				err = v.VerifC30Restore(context.Background())
			}()
			s := v.VerifC30Session()
			v.VerifC30Close()
			line := fmt.Sprintf("restore %s %d %s", hs, primary, load)
			impl := ""
			switch {
			case err == nil:
				impl = "ok " + showKeySess(s.DC, s.AuthKey, s.Salt)
				c.Count("restore.ok")
			case strings.Contains(err.Error(), "corrupted key"):
				impl = "err corrupted"
				c.Count("restore.corrupted")
			case strings.HasPrefix(err.Error(), "load"):
				impl = "err load"
				c.Count("restore.load-error")
			default:
				impl = "err other: " + err.Error()
			}
			c.Eval(line, true)
			// ---- monitor (model-free, Go's own SHA-1)
			if hasStorage && strings.Contains(load, ",") {
				match := bytes.Equal(sha1ID(fit(256, d.AuthKey)), fit(8, d.AuthKeyID))
				if !match && err == nil {
					c.Fail("restore-accepted-mismatched-key", line, "stored key id is not the SHA-1 id of the stored key, but restoreConnection returned nil and installed "+showKeySess(s.DC, s.AuthKey, s.Salt))
				}
				if err == nil && !bytes.Equal(sha1ID(s.AuthKey.Value[:]), s.AuthKey.ID[:]) {
					c.Fail("restore-installed-inconsistent-key", line, "installed session has a key id that does not belong to its key")
				}
				if match && err != nil {
					c.Fail("restore-refused-good-session", line, err.Error())
				}
			}
			restores = append(restores, rpend{line, impl})
		}

		// ---- model
		var lines []string
		for _, p := range runs {
			lines = append(lines, p.line)
		}
		for _, p := range restores {
			lines = append(lines, p.line)
		}
		outs, err := c.Drv.Batch(lines)
		if err != nil {
			return err
		}
		for i, p := range runs {
			model := strings.Fields(outs[i])
			if len(p.impl) == 0 {
				if c.Compare(p.line, "-", outs[i]) {
					c.Res.TracesValidated++
				}
				continue
			}
			if len(model) != len(p.impl) {
				c.Differ(p.line, strings.Join(p.impl, " "), outs[i], "number of steps")
				continue
			}
			ok := true
			for j := range model {
				if model[j] != p.impl[j] {
					c.Differ(p.line, fmt.Sprintf("step %d: %s", j, p.impl[j]), fmt.Sprintf("step %d: %s", j, model[j]), "state after notification")
					ok = false
					break
				}
			}
			if ok {
				c.Res.TracesValidated++
			}
		}
		for i, p := range restores {
			if c.Compare(p.line, p.impl, outs[len(runs)+i]) {
				c.Res.TracesValidated++
			}
		}
	}
	return runConcurrent(c)
}

// runConcurrent lets 2..3 notifications race through the real handler from separate goroutines and asks
// the model whether the observed final state and results are those of SOME interleaving of the
// notifications' atomic steps (TdModel.C30.reach); the monitor checks the stored session is one whole
// notification.
func runConcurrent(c *hc.Ctx) error {
	r := c.Rng
	n := c.N(600, 8000)
	var lines []string
	for i := 0; i < n; i++ {
		primary := hc.Pick(r, 0, 2, 2, 2, 4)
		st := &faultyStorage{jitter: true}
		var init *session.Data
		if r.Chance(25) {
			k := genKey(r)
			init = &session.Data{DC: primary, Addr: "149.154.167.50:443", AuthKey: append([]byte{}, k.Value[:]...),
				AuthKeyID: append([]byte{}, k.ID[:]...), Salt: int64(r.U64())}
			if err := (&session.Loader{Storage: &st.mem}).Save(context.Background(), init); err != nil {
				return err
			}
		}
		k := hc.Pick(r, 2, 2, 2, 3)
		var hist []notif
		for j := 0; j < k; j++ {
			x := notif{dc: hc.Pick(r, primary, primary, primary, 1+r.Intn(5), 0), key: genKey(r), salt: int64(r.U64()), fault: 'n'}
			if r.Chance(15) {
				x.cdn, x.dc = true, 203
			}
			if r.Chance(30) {
				x.perm = genKey(r)
			}
			hist = append(hist, x)
		}
		v := telegram.VerifC30NewClient(primary, false, st)
		results := make([]string, k)
		var wg sync.WaitGroup
		start := make(chan struct{})
		for j := range hist {
			wg.Add(1)
			go func(j int) {
				defer wg.Done()
				defer func() {
					if p := recover(); p != nil {
						results[j] = fmt.Sprintf("panic:%v", p)
					}
				}()
				x := hist[j]
				<-start
				var err error
				cfg := tg.Config{ThisDC: x.dc}
				ms := mtproto.Session{Key: x.key, Salt: x.salt, PermKey: x.perm}
				if x.cdn {
					err = v.VerifC30OnCDNSession(cfg, ms)
				} else {
					err = v.VerifC30OnSession(cfg, ms)
				}
				if err == nil {
					results[j] = "ok"
				} else {
					results[j] = "err:" + err.Error()
				}
			}(j)
		}
		close(start)
		wg.Wait()
		st.jitter = false
		state := showClient(v, st)
		now := st.stored()
		sess := v.VerifC30Session()
		v.VerifC30Close()
		is := "-"
		if init != nil {
			is = wireStored(init)
		}
		var ws []string
		for _, x := range hist {
			ws = append(ws, x.wire())
		}
		storedSalt := "-"
		if now != nil {
			storedSalt = strconv.FormatInt(now.Salt, 10)
		}
		line := fmt.Sprintf("conc 1 %d %s %s | %s %s %d %s", primary, is, strings.Join(ws, " "), strings.Join(results, ","), state, sess.Salt, storedSalt)
		c.Eval(line, true)
		// monitor: the stored session is one whole notification (or the initial content)
		storedBy, sessBy := -1, -1
		for j, x := range hist {
			e := x.eff()
			if now != nil && !x.cdn && now.DC == x.dc && bytes.Equal(now.AuthKey, e.Value[:]) && bytes.Equal(now.AuthKeyID, e.ID[:]) && now.Salt == x.salt {
				storedBy = j
			}
			if !x.cdn && sess.DC == x.dc && sess.AuthKey == e && sess.Salt == x.salt {
				sessBy = j
			}
		}
		switch {
		case now == nil || (init != nil && showStored(init) == showStored(now)):
			c.Count("conc.stored=initial-or-none")
		case storedBy < 0:
			c.Fail("stored-not-one-confirmed-session", line, "after concurrent notifications the storage holds "+showStored(now)+", which is not the DC+key+salt of any single notification")
		case storedBy == sessBy:
			c.Count("conc.stored=session")
		default:
			c.Count("conc.stored!=session (lagging save)")
		}
		lines = append(lines, line)
	}
	outs, err := c.Drv.Batch(lines)
	if err != nil {
		return err
	}
	for i, o := range outs {
		if c.Compare(lines[i], "reachable", o) {
			c.Res.TracesValidated++
		}
	}
	return nil
}
