// C30 — saved sessions hold the key confirmed for the primary DC.
//
// White-box correspondence: the real telegram.Client session bookkeeping (onSession, onCDNSession,
// saveSession, restoreConnection — through the hook telegram.VerifC30Client) against the Lean model
// TdModel.C30 on PRNG-ordered notification histories, plus the property monitor on the
// implementation's storage contents and restore results.
package main

import (
	"bytes"
	"context"
	"crypto/sha1"
	"encoding/base64"
	"encoding/json"
	"errors"
	"fmt"
	"go/ast"
	"go/token"
	"runtime"
	"sort"
	"strconv"
	"strings"
	"sync"
	"time"

	"github.com/gotd/td/crypto"
	"github.com/gotd/td/mtproto"
	"github.com/gotd/td/session"
	"github.com/gotd/td/session/tdesktop"
	"github.com/gotd/td/telegram"
	"github.com/gotd/td/tg"

	"verif/harness/hc"
)

func main() {
	hc.Main(hc.Spec{Prop: "C30", Facts: facts, Run: run})
}

// ---------------------------------------------------------------------------------------------
// facts

func leanStrList(xs []string) string {
	q := make([]string, len(xs))
	for i, x := range xs {
		q[i] = strconv.Quote(x)
	}
	return "[" + strings.Join(q, ", ") + "]"
}

func facts(f *hc.Facts) {
	structuredFacts(f)
	// crypto.Key.ID: copy(id[:], raw[LOW:]) into a [LEN]byte
	fd := f.FuncDecl("crypto", "Key.ID")
	off, ln := -1, -1
	if fd != nil && fd.Body != nil {
		ast.Inspect(fd.Body, func(n ast.Node) bool {
			switch v := n.(type) {
			case *ast.SliceExpr:
				if id, ok := v.X.(*ast.Ident); ok && id.Name == "raw" && v.High == nil {
					if l, ok := v.Low.(*ast.BasicLit); ok && l.Kind == token.INT {
						off, _ = strconv.Atoi(l.Value)
					}
				}
			case *ast.ArrayType:
				if l, ok := v.Len.(*ast.BasicLit); ok && l.Kind == token.INT {
					ln, _ = strconv.Atoi(l.Value)
				}
			}
			return true
		})
	}
	if off < 0 || ln < 0 {
		f.Missing("keyIDOffset", "crypto.Key.ID: copy(id[:], raw[N:]) not found")
		f.Missing("keyIDLen", "crypto.Key.ID: [N]byte not found")
	} else {
		f.Nat("keyIDOffset", off, "crypto.Key.ID: raw[N:]")
		f.Nat("keyIDLen", ln, "crypto.Key.ID: var id [N]byte")
	}
	// migration: migrateToDc -> c.session.Migrate(param); SyncSession.Migrate sets DC to the parameter and zeroes key and salt
	migOK := false
	if fd := f.FuncDecl("telegram", "Client.migrateToDc"); fd != nil && fd.Body != nil && len(fd.Type.Params.List) == 2 {
		param := fd.Type.Params.List[1].Names[0].Name
		ast.Inspect(fd.Body, func(n ast.Node) bool {
			if c, ok := n.(*ast.CallExpr); ok && f.Src(c.Fun) == "c.session.Migrate" && len(c.Args) == 1 && f.Src(c.Args[0]) == param {
				migOK = true
			}
			return true
		})
	}
	f.Bool("migrateToDcMigratesSession", migOK, "telegram.Client.migrateToDc calls c.session.Migrate(<its dc parameter>)")
	var mig []string
	if fd := f.FuncDecl("pool", "SyncSession.Migrate"); fd != nil && fd.Body != nil && len(fd.Type.Params.List) == 1 {
		param := fd.Type.Params.List[0].Names[0].Name
		ast.Inspect(fd.Body, func(n ast.Node) bool {
			if a, ok := n.(*ast.AssignStmt); ok && len(a.Lhs) == 1 && len(a.Rhs) == 1 {
				if sel, ok := a.Lhs[0].(*ast.SelectorExpr); ok {
					rhs := f.Src(a.Rhs[0])
					switch {
					case rhs == param:
						rhs = "param"
					case rhs == "0" || strings.HasSuffix(rhs, "{}"):
						rhs = "zero"
					}
					mig = append(mig, sel.Sel.Name+"="+rhs)
				}
			}
			return true
		})
	}
	sort.Strings(mig)
	f.Raw("/-- assignments of pool.SyncSession.Migrate (field=param|zero|<source>), sorted -/")
	f.Raw("def migrateAssigns : List String := " + leanStrList(mig))
	connLayerFacts(f)
	// the handlers: clientHandler.OnSession -> onSession, cdnClientHandler.OnSession -> onCDNSession
	for _, h := range []struct{ lean, name string }{{"regularHandlerCalls", "clientHandler.OnSession"}, {"cdnHandlerCalls", "cdnClientHandler.OnSession"}} {
		fd := f.FuncDecl("telegram", h.name)
		callee := ""
		if fd != nil && fd.Body != nil {
			ast.Inspect(fd.Body, func(n ast.Node) bool {
				if c, ok := n.(*ast.CallExpr); ok {
					if s, ok := c.Fun.(*ast.SelectorExpr); ok {
						callee = s.Sel.Name
					}
				}
				return true
			})
		}
		if callee == "" {
			f.Missing(h.lean, "telegram."+h.name+" not found")
		} else {
			f.Str(h.lean, callee, "telegram."+h.name+" forwards to")
		}
	}
}

// ---------------------------------------------------------------------------------------------
// storage with injectable failures

var (
	errLoadInjected = errors.New("injected load failure")
	errSaveInjected = errors.New("injected save failure")
)

type faultyStorage struct {
	mem      session.StorageMemory
	loadFail bool
	saveFail bool
	garbage  []byte // when set, LoadSession returns these bytes
	jitter   bool   // concurrent runs: yield / sleep around storage calls to shake the interleaving
	onLoad   func() // scripted runs: called on entry of LoadSession (before the load)
	onStore  func() // scripted runs: called on entry of StoreSession (before the save)
	afterOp  func() // scripted runs: called when the load / save has been performed (or failed)
}

func (s *faultyStorage) shake() {
	if !s.jitter {
		return
	}
	switch time.Now().UnixNano() % 4 { // scheduling noise only; never part of a compared value
	case 0:
		runtime.Gosched()
	case 1:
		time.Sleep(20 * time.Microsecond)
	case 2:
		time.Sleep(200 * time.Microsecond)
	}
}

func (s *faultyStorage) LoadSession(ctx context.Context) ([]byte, error) {
	s.shake()
	defer s.shake()
	if s.onLoad != nil {
		s.onLoad()
	}
	if s.afterOp != nil {
		defer s.afterOp()
	}
	if s.loadFail {
		return nil, errLoadInjected
	}
	if s.garbage != nil {
		return s.garbage, nil
	}
	return s.mem.LoadSession(ctx)
}

func (s *faultyStorage) StoreSession(ctx context.Context, data []byte) error {
	s.shake()
	defer s.shake()
	if s.onStore != nil {
		s.onStore()
	}
	if s.afterOp != nil {
		defer s.afterOp()
	}
	if s.saveFail {
		return errSaveInjected
	}
	return s.mem.StoreSession(ctx, data)
}

// stored returns what is in the storage (nil when empty), bypassing the fault switches.
func (s *faultyStorage) stored() *session.Data {
	d, err := (&session.Loader{Storage: &s.mem}).Load(context.Background())
	if err != nil {
		return nil
	}
	return d
}

// ---------------------------------------------------------------------------------------------
// canonical forms (identical to Drv/C30.lean)

func fnv64(b []byte) uint64 {
	h := uint64(14695981039346656037)
	for _, x := range b {
		h = (h ^ uint64(x)) * 1099511628211
	}
	return h
}

func showBytes(b []byte) string { return fmt.Sprintf("%d.%d", len(b), fnv64(b)) }

func showKeySess(dc int, k crypto.AuthKey, salt int64) string {
	return fmt.Sprintf("%d:%s:%s:%d", dc, showBytes(k.Value[:]), hc.Hex(k.ID[:]), salt)
}

func showStored(d *session.Data) string {
	if d == nil {
		return "-"
	}
	return fmt.Sprintf("%d:%s:%s:%d:%s", d.DC, showBytes(d.AuthKey), hc.Hex(d.AuthKeyID), d.Salt, hc.Hex([]byte(d.Addr)))
}

func wireStored(d *session.Data) string {
	return fmt.Sprintf("%d,%s,%s,%d,%s", d.DC, hc.Hex(d.AuthKey), hc.Hex(d.AuthKeyID), d.Salt, hc.Hex([]byte(d.Addr)))
}

var dcUniverse = []int{0, 1, 2, 3, 4, 5, 201, 203}

func showClient(v *telegram.VerifC30Client, st *faultyStorage) string {
	s := v.VerifC30Session()
	var stored *session.Data
	if st != nil {
		stored = st.stored()
	}
	maps := [2]string{}
	for i, cdn := range []bool{false, true} {
		var parts []string
		for _, dc := range dcUniverse { // ascending: the model sorts by DC id
			if x, ok := v.VerifC30DCSession(dc, cdn); ok {
				parts = append(parts, showKeySess(x.DC, x.AuthKey, x.Salt))
			}
		}
		maps[i] = "-"
		if len(parts) > 0 {
			maps[i] = strings.Join(parts, ",")
		}
	}
	return fmt.Sprintf("sess=%s|stored=%s|dcs=%s|cdn=%s", showKeySess(s.DC, s.AuthKey, s.Salt), showStored(stored), maps[0], maps[1])
}

// ---------------------------------------------------------------------------------------------
// generators

type notif struct {
	mig     bool // not a notification: c.session.Migrate(dc)
	cdn     bool
	dc      int
	key     crypto.AuthKey
	perm    crypto.AuthKey
	salt    int64
	fault   byte // n l s
	hasPerm bool
}

func (n notif) eff() crypto.AuthKey {
	if !n.perm.Zero() {
		return n.perm
	}
	return n.key
}

func (n notif) wire() string {
	k := "r"
	if n.cdn {
		k = "c"
	}
	if n.mig {
		k = "m"
	}
	return fmt.Sprintf("%s,%d,%s,%s,%s,%s,%d,%c", k, n.dc, hc.Hex(n.key.Value[:]), hc.Hex(n.key.ID[:]),
		hc.Hex(n.perm.Value[:]), hc.Hex(n.perm.ID[:]), n.salt, n.fault)
}

func genKey(r *hc.RNG) crypto.AuthKey {
	var k crypto.Key
	copy(k[:], r.Bytes(256))
	if r.Chance(5) { // sparse key: mostly zero bytes
		k = crypto.Key{}
		k[r.Intn(256)] = byte(1 + r.Intn(255))
	}
	a := k.WithID()
	if r.Chance(5) { // id that does not belong to the key (onSession does not check; restore must)
		copy(a.ID[:], r.Bytes(8))
	}
	return a
}

func genHistory(r *hc.RNG, c *hc.Ctx, primary int, pfs bool) []notif {
	pool := make([]crypto.AuthKey, 5)
	for i := range pool {
		pool[i] = genKey(r)
	}
	n := hc.Pick(r, 0, 1, 1, 2, 3, 5, 8, 14)
	var out []notif
	for i := 0; i < n; i++ {
		var x notif
		switch r.Intn(10) {
		case 0, 1, 2, 3:
			x.dc = primary
		case 4, 5, 6:
			x.dc = 1 + r.Intn(5)
		case 7:
			x.dc = 0
		default:
			x.cdn, x.dc = true, hc.Pick(r, 201, 203, primary, 1+r.Intn(5))
		}
		if !x.cdn && r.Chance(5) {
			x.dc = hc.Pick(r, 201, 203) // a CDN DC id arriving on the regular handler
		}
		x.key = hc.Pick(r, pool...)
		if pfs || r.Chance(10) {
			x.perm, x.hasPerm = hc.Pick(r, pool...), true
			if r.Chance(8) { // permanent key with zero value but non-zero id is still "non-zero"
				x.perm = crypto.AuthKey{}
				x.perm.ID[3] = 7
			}
		}
		x.salt = int64(r.U64())
		if r.Chance(10) {
			x.salt = hc.Pick[int64](r, 0, -1, 1<<62)
		}
		x.fault = 'n'
		if r.Chance(15) {
			x.fault = hc.Pick[byte](r, 'l', 's')
		}
		if r.Chance(8) { // the client is told to migrate (USER_MIGRATE / MigrateTo)
			x = notif{mig: true, dc: 1 + r.Intn(5), fault: 'n'}
			primary = x.dc
		}
		out = append(out, x)
	}
	return out
}

// invoke delivers one agent to the real client.
func invoke(v *telegram.VerifC30Client, n notif) error {
	if n.mig {
		v.VerifC30Migrate(n.dc)
		return nil
	}
	cfg := tg.Config{ThisDC: n.dc}
	ms := mtproto.Session{Key: n.key, Salt: n.salt, PermKey: n.perm}
	if n.cdn {
		return v.VerifC30OnCDNSession(cfg, ms)
	}
	return v.VerifC30OnSession(cfg, ms)
}

func resClass(err error) string {
	switch {
	case err == nil:
		return "ok"
	case errors.Is(err, errLoadInjected):
		return "err-load"
	case errors.Is(err, errSaveInjected):
		return "err-save"
	}
	return "err-other:" + err.Error()
}

func sha1ID(v []byte) []byte {
	h := sha1.Sum(v)
	return h[12:20]
}

func fit(n int, b []byte) []byte {
	out := make([]byte, n)
	copy(out, b)
	return out
}

// ---------------------------------------------------------------------------------------------

// connLayerFacts classifies, structurally, the statements of manager.Conn's session/config bookkeeping.
func connLayerFacts(f *hc.Facts) {
	const dir = "telegram/internal/manager"
	src := func(n ast.Node) string { return strings.Join(strings.Fields(f.Src(n)), " ") }
	emit := func(name string, tags []string, why string) {
		if tags == nil {
			f.Missing(name, why)
			return
		}
		f.Raw("def " + name + " : List String := " + leanStrList(tags))
	}
	// Conn.OnSession
	var on []string
	if fd := f.FuncDecl(dir, "Conn.OnSession"); fd != nil && fd.Body != nil && len(fd.Type.Params.List) == 1 {
		param := fd.Type.Params.List[0].Names[0].Name
		for _, st := range fd.Body.List {
			switch v := st.(type) {
			case *ast.AssignStmt:
				if src(v) == "c.pending = append(c.pending, "+param+")" {
					on = append(on, "buffer")
				}
			case *ast.IfStmt:
				if src(v.Cond) == "!c.configReady()" && len(v.Body.List) == 1 && src(v.Body.List[0]) == "return nil" {
					on = append(on, "wait-config")
				} else {
					on = append(on, "if "+src(v.Cond))
				}
			case *ast.ReturnStmt:
				if src(v) == "return c.flushPendingSession()" {
					on = append(on, "flush")
				} else {
					on = append(on, src(v))
				}
			}
		}
	}
	emit("connOnSession", on, "manager.Conn.OnSession not found")
	// Conn.flushPendingSession
	var fl []string
	if fd := f.FuncDecl(dir, "Conn.flushPendingSession"); fd != nil && fd.Body != nil {
		copyVar, cfgVar := "", ""
		for _, st := range fd.Body.List {
			switch v := st.(type) {
			case *ast.ExprStmt:
				switch src(v.X) {
				case "c.mux.Lock()":
					fl = append(fl, "lock")
				case "c.mux.Unlock()":
					fl = append(fl, "unlock")
				}
			case *ast.AssignStmt:
				s := src(v)
				switch {
				case strings.HasSuffix(s, ":= append([]mtproto.Session(nil), c.pending...)"):
					copyVar = strings.TrimSpace(strings.Split(s, ":=")[0])
					fl = append(fl, "copy")
				case strings.HasSuffix(s, ":= c.cfg"):
					cfgVar = strings.TrimSpace(strings.Split(s, ":=")[0])
					fl = append(fl, "read-cfg")
				case s == "c.pending = c.pending[:0]" || s == "c.pending = nil":
					fl = append(fl, "clear")
				default:
					fl = append(fl, s)
				}
			case *ast.RangeStmt:
				tag := "range " + src(v.X)
				if src(v.X) == copyVar && v.Value != nil {
					val := src(v.Value)
					ast.Inspect(v.Body, func(n ast.Node) bool {
						if c, ok := n.(*ast.CallExpr); ok && src(c.Fun) == "c.handler.OnSession" && len(c.Args) == 2 &&
							src(c.Args[0]) == cfgVar && src(c.Args[1]) == val {
							tag = "deliver-each(cfg,s)"
						}
						return true
					})
				}
				fl = append(fl, tag)
			}
		}
	}
	emit("connFlush", fl, "manager.Conn.flushPendingSession not found")
	// Conn.init: CDN branch and regular path
	var cdn, reg []string
	if fd := f.FuncDecl(dir, "Conn.init"); fd != nil && fd.Body != nil {
		classify := func(stmts []ast.Stmt, out *[]string) {
			for _, st := range stmts {
				ast.Inspect(st, func(n ast.Node) bool {
					switch v := n.(type) {
					case *ast.FuncLit:
						// the retry closure around proto.Invoke
						ast.Inspect(v.Body, func(m ast.Node) bool {
							if c, ok := m.(*ast.CallExpr); ok && src(c.Fun) == "c.proto.Invoke" && len(c.Args) == 3 && src(c.Args[2]) == "&cfg" {
								*out = append(*out, "cfg<-server")
							}
							return true
						})
						return false
					case *ast.AssignStmt:
						switch src(v) {
						case "c.cfg = tg.Config{ThisDC: c.dc}":
							*out = append(*out, "cfg=this-dc(conn.dc)")
						case "c.cfg = cfg":
							*out = append(*out, "cfg=server")
						default:
							if strings.HasPrefix(src(v), "c.cfg") {
								*out = append(*out, src(v))
							}
						}
					case *ast.CallExpr:
						switch src(v) {
						case "c.setup(ctx, c)":
							*out = append(*out, "setup")
						case "c.gotConfig.Signal()":
							*out = append(*out, "ready")
						case "c.flushPendingSession()":
							*out = append(*out, "flush")
						}
					}
					return true
				})
			}
		}
		for i, st := range fd.Body.List {
			if ifs, ok := st.(*ast.IfStmt); ok && src(ifs.Cond) == "c.mode == ConnModeCDN" {
				classify(ifs.Body.List, &cdn)
				classify(fd.Body.List[i+1:], &reg)
				break
			}
		}
	}
	emit("connInitCDN", cdn, "manager.Conn.init: CDN branch not found")
	emit("connInitRegular", reg, "manager.Conn.init: regular path not found")
}

func run(c *hc.Ctx) error {
	r := c.Rng
	c.Res.Rule = "histories: primary DC 0..5, PFS on/off, storage present / absent / pre-populated / failing on load or save per notification, " +
		"0..14 agents mixing notifications of the primary DC, other DCs, DC id 0, CDN connections, CDN DC ids on the regular handler and migrations (c.session.Migrate), keys drawn from a pool of 5 " +
		"(5% with a foreign key id, 5% sparse), permanent keys incl. zero-value/non-zero-id; non-trivial = history with >= 2 agents of which at least one is " +
		"foreign (non-primary DC, CDN, migration) and at least one is accepted. restore: stored sessions mutated (key byte, key id byte, key/id length, empty / null / absent JSON fields, DC 0, " +
		"bad JSON, wrong version, empty) and the outputs of the Telethon and Telegram-Desktop converters; all non-trivial. scripted interleavings: 1..3 top-level agents, each regular " +
		"notification running further agents (notifications, migrations; depth <= 2) from inside its storage load and its storage save; non-trivial = >= 2 agents. " +
		"racing: 2..3 goroutines (notifications, 20% migrations). distinct = distinct input line"
	c.PartialNote("concurrent notifications: the interleaving is the Go scheduler's (shaken by yields/sleeps in the storage), not enumerated; the model must admit the observed final state (reachability over all interleavings of the atomic steps), intermediate states are not observed")
	c.PartialNote("session.Loader's JSON encoding is exercised (storage content is read back through it) but not modelled")

	type pend struct {
		line string
		impl []string
	}
	type rpend struct{ line, impl string }
	totalHist, totalRes := c.N(4000, 100000), c.N(6000, 200000)
	const chunk = 2000
	for totalHist > 0 || totalRes > 0 {
		nHist, nRes := min(totalHist, chunk), min(totalRes, chunk)
		totalHist, totalRes = totalHist-nHist, totalRes-nRes
		var runs []pend
		for i := 0; i < nHist; i++ {
			primary := hc.Pick(r, 0, 1, 2, 2, 3, 4, 5)
			pfs := r.Chance(40)
			hasStorage := !r.Chance(6)
			var st *faultyStorage
			var storage session.Storage
			var init *session.Data
			if hasStorage {
				st = &faultyStorage{}
				storage = st
				if r.Chance(30) {
					k := genKey(r)
					init = &session.Data{DC: hc.Pick(r, primary, 1+r.Intn(5)), Addr: hc.Pick(r, "", "149.154.167.50:443"),
						AuthKey: append([]byte{}, k.Value[:]...), AuthKeyID: append([]byte{}, k.ID[:]...), Salt: int64(r.U64())}
					if err := (&session.Loader{Storage: &st.mem}).Save(context.Background(), init); err != nil {
						return err
					}
				}
			}
			hist := genHistory(r, c, primary, pfs)
			v := telegram.VerifC30NewClient(primary, pfs, storage)
			hs := "0"
			if hasStorage {
				hs = "1"
			}
			is := "-"
			if init != nil {
				is = wireStored(init)
			}
			var ws []string
			for _, n := range hist {
				ws = append(ws, n.wire())
			}
			line := fmt.Sprintf("run %s %d %s %s", hs, primary, is, strings.Join(ws, " "))
			var impl []string
			foreignSeen, acceptedSeen, migrated := false, false, false
			// eligible[j]: notification j could legitimately be what the storage holds
			type cand struct {
				n        notif
				eligible bool
			}
			var cands []cand
			prevStored := showStored(init)
			for j, n := range hist {
				before := v.VerifC30Session()
				if st != nil {
					st.loadFail, st.saveFail = n.fault == 'l', n.fault == 's'
				}
				var err error
				func() {
					defer func() {
						if p := recover(); p != nil {
							err = fmt.Errorf("panic: %v", p)
							c.Fail("onsession-panic", line, fmt.Sprintf("notification %d: %v", j, p))
						}
					}()
					err = invoke(v, n)
				}()
				if st != nil {
					st.loadFail, st.saveFail = false, false
				}
				res := resClass(err)
				state := showClient(v, st)
				impl = append(impl, res+"|"+state)
				// ---- monitor (model-free)
				elig := !n.cdn && !n.mig && (n.dc == before.DC || before.DC == 0 || n.dc == 0)
				cands = append(cands, cand{n, elig})
				if n.cdn || !elig {
					foreignSeen = true
				}
				if n.mig {
					migrated = true
					c.Count("hist.with-migration")
				}
				var now *session.Data
				if st != nil {
					now = st.stored()
				}
				cur := showStored(now)
				if cur != prevStored {
					acceptedSeen = true
					// sequentially, what was just saved is the in-memory primary session
					if after := v.VerifC30Session(); err == nil && now != nil && (after.DC != now.DC || !bytes.Equal(after.AuthKey.Value[:], now.AuthKey) ||
						!bytes.Equal(after.AuthKey.ID[:], now.AuthKeyID) || after.Salt != now.Salt) {
						c.Fail("stored-differs-from-primary-session", line, fmt.Sprintf("after notification %d the storage holds %s but c.session is %s", j, cur, showKeySess(after.DC, after.AuthKey, after.Salt)))
					}
					if n.cdn || !elig {
						c.Fail("foreign-notification-changed-storage", line, fmt.Sprintf("notification %d (cdn=%v migrate=%v dc=%d, primary DC %d) changed the stored session to %s", j, n.cdn, n.mig, n.dc, before.DC, cur))
					}
				}
				prevStored = cur
				if now != nil {
					ok := init != nil && showStored(init) == cur
					for _, cd := range cands {
						e := cd.n.eff()
						if cd.eligible && now.DC == cd.n.dc && bytes.Equal(now.AuthKey, e.Value[:]) && bytes.Equal(now.AuthKeyID, e.ID[:]) && now.Salt == cd.n.salt {
							ok = true
						}
					}
					if !ok {
						c.Fail("stored-not-one-confirmed-session", line, fmt.Sprintf("after notification %d the storage holds %s, which is not the DC+key+salt of any single eligible notification", j, cur))
					}
					if primary != 0 && !migrated && (init == nil || showStored(init) != cur) {
						allNonZero := true
						for _, cd := range cands {
							if cd.n.dc == 0 {
								allNonZero = false
							}
						}
						if allNonZero && now.DC != primary {
							c.Fail("stored-dc-not-primary", line, fmt.Sprintf("primary DC %d but the stored session has DC %d after notification %d", primary, now.DC, j))
						}
					}
				}
			}
			v.VerifC30Close()
			c.Count(fmt.Sprintf("hist.len=%d", len(hist)))
			if !hasStorage {
				c.Count("hist.no-storage")
			} else if init != nil {
				c.Count("hist.prepopulated")
			}
			if pfs {
				c.Count("hist.pfs")
			}
			c.Eval(line, len(hist) >= 2 && foreignSeen && acceptedSeen)
			runs = append(runs, pend{line, impl})
		}

		// ---- restore
		var restores []rpend
		for i := 0; i < nRes; i++ {
			primary := hc.Pick(r, 0, 1, 2, 3, 4, 5)
			k := genKey(r)
			d := &session.Data{DC: hc.Pick(r, 0, 1, 2, 3, 4, 5, primary), Addr: hc.Pick(r, "", "149.154.167.50:443"),
				AuthKey: append([]byte{}, k.Value[:]...), AuthKeyID: append([]byte{}, k.ID[:]...), Salt: int64(r.U64())}
			st := &faultyStorage{}
			hasStorage := !r.Chance(4)
			load := ""
			mut := hc.Pick(r, "none", "none", "key-bit", "id-bit", "key-short", "key-long", "id-short", "id-long", "key-empty", "id-empty", "zero-key", "garbage", "version", "empty", "load-fail",
				"telethon4", "telethon6", "tdesktop", "json-absent-id", "json-absent-key", "json-null-id")
			switch mut {
			case "key-bit":
				d.AuthKey[r.Intn(256)] ^= byte(1 << r.Intn(8))
			case "id-bit":
				d.AuthKeyID[r.Intn(8)] ^= byte(1 << r.Intn(8))
			case "key-short":
				d.AuthKey = d.AuthKey[:r.Intn(256)]
			case "key-long":
				d.AuthKey = append(d.AuthKey, r.Bytes(1+r.Intn(8))...)
			case "id-short":
				d.AuthKeyID = d.AuthKeyID[:r.Intn(8)]
			case "id-long":
				d.AuthKeyID = append(d.AuthKeyID, r.Bytes(1+r.Intn(4))...)
			case "key-empty":
				d.AuthKey = nil
			case "id-empty":
				d.AuthKeyID = nil
			case "zero-key":
				d.AuthKey, d.AuthKeyID = make([]byte, 256), make([]byte, 8)
			case "telethon4", "telethon6":
				// the Telethon string-session converter's output as restore input
				ip := r.Bytes(4)
				if mut == "telethon6" {
					ip = r.Bytes(16)
				}
				raw := append([]byte{byte(1 + r.Intn(5))}, ip...)
				raw = append(raw, byte(r.Intn(256)), byte(r.Intn(256)))
				raw = append(raw, k.Value[:]...)
				td, err := session.TelethonSession("1" + base64.URLEncoding.EncodeToString(raw))
				if err != nil {
					return fmt.Errorf("TelethonSession: %w", err)
				}
				if td.DC != int(raw[0]) || !bytes.Equal(td.AuthKey, k.Value[:]) || !bytes.Equal(td.AuthKeyID, sha1ID(k.Value[:])) {
					c.Fail("converter-does-not-pair-dc-with-its-key", "telethon "+hc.Hex(raw), fmt.Sprintf("TelethonSession returned DC %d with key id %s", td.DC, hc.Hex(td.AuthKeyID)))
				}
				d = td
			case "tdesktop":
				// the Telegram Desktop converter's output: the main DC's key out of a per-DC key map
				main := 1 + r.Intn(5)
				acc := tdesktop.Account{Authorization: tdesktop.MTPAuthorization{MainDC: main, Keys: map[int]crypto.Key{}}}
				for dc := 1; dc <= 5; dc++ {
					if dc == main || r.Bool() {
						acc.Authorization.Keys[dc] = genKey(r).Value
					}
				}
				td, err := session.TDesktopSession(acc)
				if err != nil {
					return fmt.Errorf("TDesktopSession: %w", err)
				}
				mk := acc.Authorization.Keys[main]
				if td.DC != main || !bytes.Equal(td.AuthKey, mk[:]) || !bytes.Equal(td.AuthKeyID, sha1ID(mk[:])) {
					c.Fail("converter-does-not-pair-dc-with-its-key", fmt.Sprintf("tdesktop main=%d", main), fmt.Sprintf("TDesktopSession returned DC %d with key id %s", td.DC, hc.Hex(td.AuthKeyID)))
				}
				d = td
			}
			c.Count("restore.mut=" + mut)
			switch mut {
			case "garbage":
				st.garbage = []byte(hc.Pick(r, "{", "not json", "{\"Version\":1,\"Data\":[]}", "\x00\x01"))
				load = "err"
			case "version":
				b, _ := json.Marshal(map[string]any{"Version": hc.Pick(r, 0, 2, 7), "Data": d})
				st.garbage = b
				load = "nf"
			case "empty":
				load = "nf"
			case "load-fail":
				st.loadFail = true
				load = "err"
			case "json-absent-id", "json-absent-key", "json-null-id":
				// hand-edited / partially written file: the field is missing or null
				m := map[string]any{"DC": d.DC, "Addr": d.Addr, "Salt": d.Salt, "AuthKey": d.AuthKey, "AuthKeyID": d.AuthKeyID}
				switch mut {
				case "json-absent-id":
					delete(m, "AuthKeyID")
					d.AuthKeyID = nil
				case "json-null-id":
					m["AuthKeyID"] = nil
					d.AuthKeyID = nil
				case "json-absent-key":
					delete(m, "AuthKey")
					d.AuthKey = nil
				}
				b, _ := json.Marshal(map[string]any{"Version": 1, "Data": m})
				st.garbage = b
				load = fmt.Sprintf("%d,%s,%s,%d,%s", d.DC, hc.Hex(d.AuthKey), hc.Hex(d.AuthKeyID), d.Salt, hc.Hex([]byte(d.Addr)))
			default:
				if err := (&session.Loader{Storage: &st.mem}).Save(context.Background(), d); err != nil {
					return err
				}
				load = fmt.Sprintf("%d,%s,%s,%d,%s", d.DC, hc.Hex(d.AuthKey), hc.Hex(d.AuthKeyID), d.Salt, hc.Hex([]byte(d.Addr)))
			}
			var storage session.Storage
			hs := "0"
			if hasStorage {
				storage, hs = st, "1"
			}
			v := telegram.VerifC30NewClient(primary, false, storage)
			var err error
			func() {
				defer func() {
					if p := recover(); p != nil {
						err = fmt.Errorf("panic: %v", p)
						c.Fail("restore-panic", fmt.Sprintf("restore %s %d %s", hs, primary, load), fmt.Sprint(p))
					}
				}()
				err = v.VerifC30Restore(context.Background())
			}()
			s := v.VerifC30Session()
			v.VerifC30Close()
			line := fmt.Sprintf("restore %s %d %s", hs, primary, load)
			impl := ""
			switch {
			case err == nil:
				impl = "ok " + showKeySess(s.DC, s.AuthKey, s.Salt)
				c.Count("restore.ok")
			case strings.Contains(err.Error(), "corrupted key"):
				impl = "err corrupted"
				c.Count("restore.corrupted")
			case strings.HasPrefix(err.Error(), "load"):
				impl = "err load"
				c.Count("restore.load-error")
			default:
				impl = "err other: " + err.Error()
			}
			c.Eval(line, true)
			// ---- monitor (model-free, Go's own SHA-1)
			if hasStorage && strings.Contains(load, ",") {
				if (mut == "telethon4" || mut == "telethon6" || mut == "tdesktop") && err != nil {
					c.Fail("restore-refused-converted-session", line, mut+": "+err.Error())
				}
				match := bytes.Equal(sha1ID(fit(256, d.AuthKey)), fit(8, d.AuthKeyID))
				if !match && err == nil {
					c.Fail("restore-accepted-mismatched-key", line, "stored key id is not the SHA-1 id of the stored key, but restoreConnection returned nil and installed "+showKeySess(s.DC, s.AuthKey, s.Salt))
				}
				if err == nil && !bytes.Equal(sha1ID(s.AuthKey.Value[:]), s.AuthKey.ID[:]) {
					c.Fail("restore-installed-inconsistent-key", line, "installed session has a key id that does not belong to its key")
				}
				if match && err != nil {
					c.Fail("restore-refused-good-session", line, err.Error())
				}
			}
			restores = append(restores, rpend{line, impl})
		}

		// ---- model
		var lines []string
		for _, p := range runs {
			lines = append(lines, p.line)
		}
		for _, p := range restores {
			lines = append(lines, p.line)
		}
		outs, err := c.Drv.Batch(lines)
		if err != nil {
			return err
		}
		for i, p := range runs {
			model := strings.Fields(outs[i])
			if len(p.impl) == 0 {
				if c.Compare(p.line, "-", outs[i]) {
					c.Res.TracesValidated++
				}
				continue
			}
			if len(model) != len(p.impl) {
				c.Differ(p.line, strings.Join(p.impl, " "), outs[i], "number of steps")
				continue
			}
			ok := true
			for j := range model {
				if model[j] != p.impl[j] {
					c.Differ(p.line, fmt.Sprintf("step %d: %s", j, p.impl[j]), fmt.Sprintf("step %d: %s", j, model[j]), "state after notification")
					ok = false
					break
				}
			}
			if ok {
				c.Res.TracesValidated++
			}
		}
		for i, p := range restores {
			if c.Compare(p.line, p.impl, outs[len(runs)+i]) {
				c.Res.TracesValidated++
			}
		}
	}
	if err := runScripted(c); err != nil {
		return err
	}
	if err := runConns(c); err != nil {
		return err
	}
	return runConcurrent(c)
}

// ---------------------------------------------------------------------------------------------
// scripted interleavings: exact trace conformance, deterministic.
//
// The storage is the harness's, so the harness can run other agents (whole notifications, migrations)
// from INSIDE a notification's LoadSession / StoreSession call, i.e. between its c.session.Store and
// its load, and between its load and its save — recursively.  The real interleaving of atomic steps is
// therefore known exactly; it is replayed action by action through the model (`script`), and the
// final state and all results must be equal.

type agent struct {
	n       notif
	atLoad  []*agent // run on entry of this agent's LoadSession
	atStore []*agent // run on entry of this agent's StoreSession
}

func genAgent(r *hc.RNG, primary *int, pool []crypto.AuthKey, depth int) *agent {
	a := &agent{}
	x := &a.n
	switch r.Intn(10) {
	case 0, 1, 2, 3, 4:
		x.dc = *primary
	case 5, 6:
		x.dc = 1 + r.Intn(5)
	case 7:
		x.dc = 0
	case 8:
		x.cdn, x.dc = true, hc.Pick(r, 201, 203)
	default:
		*x = notif{mig: true, dc: 1 + r.Intn(5), fault: 'n'}
		*primary = x.dc
		return a
	}
	x.key = hc.Pick(r, pool...)
	if r.Chance(35) {
		x.perm = hc.Pick(r, pool...)
	}
	x.salt = int64(r.U64())
	x.fault = 'n'
	if r.Chance(10) {
		x.fault = hc.Pick[byte](r, 'l', 's')
	}
	if depth < 2 && !x.cdn {
		for _, list := range []*[]*agent{&a.atLoad, &a.atStore} {
			if r.Chance(55 - 25*depth) {
				for k := hc.Pick(r, 1, 1, 2); k > 0; k-- {
					*list = append(*list, genAgent(r, primary, pool, depth+1))
				}
			}
		}
	}
	return a
}

func runScripted(c *hc.Ctx) error {
	r := c.Rng
	n := c.N(1500, 15000)
	var lines, impls []string
	flush := func() error {
		outs, err := c.Drv.Batch(lines)
		if err != nil {
			return err
		}
		for i, o := range outs {
			if c.Compare(lines[i], impls[i], o) {
				c.Res.TracesValidated++
			}
		}
		lines, impls = nil, nil
		return nil
	}
	for i := 0; i < n; i++ {
		if len(lines) >= 2000 {
			if err := flush(); err != nil {
				return err
			}
		}
		primary := hc.Pick(r, 0, 2, 2, 3, 5)
		cur := primary
		pool := []crypto.AuthKey{genKey(r), genKey(r), genKey(r)}
		st := &faultyStorage{}
		hasStorage := !r.Chance(4)
		var init *session.Data
		if hasStorage && r.Chance(25) {
			k := genKey(r)
			init = &session.Data{DC: primary, Addr: "149.154.167.50:443", AuthKey: append([]byte{}, k.Value[:]...),
				AuthKeyID: append([]byte{}, k.ID[:]...), Salt: int64(r.U64())}
			if err := (&session.Loader{Storage: &st.mem}).Save(context.Background(), init); err != nil {
				return err
			}
		}
		var tops []*agent
		for k := hc.Pick(r, 1, 1, 2, 3); k > 0; k-- {
			tops = append(tops, genAgent(r, &cur, pool, 0))
		}
		var storage session.Storage
		if hasStorage {
			storage = st
		}
		v := telegram.VerifC30NewClient(primary, false, storage)
		var acts, results []string
		var all []notif
		var running []*struct {
			a   *agent
			idx int
		}
		var runAgent func(a *agent)
		fire := func(get func(a *agent) *[]*agent) func() {
			return func() {
				top := running[len(running)-1]
				list := get(top.a)
				todo := *list
				*list = nil
				for _, b := range todo {
					runAgent(b)
				}
				// the fault switches belong to the agent whose storage call this is
				st.loadFail, st.saveFail = top.a.n.fault == 'l', top.a.n.fault == 's'
			}
		}
		st.onLoad = fire(func(a *agent) *[]*agent { return &a.atLoad })
		st.onStore = fire(func(a *agent) *[]*agent { return &a.atStore })
		st.afterOp = func() { // the load (+ data computation) / the save of the running agent has happened
			top := running[len(running)-1]
			acts = append(acts, fmt.Sprintf("A:%d", top.idx))
		}
		migBetween := false
		runAgent = func(a *agent) {
			idx := len(all)
			all = append(all, a.n)
			results = append(results, "?")
			acts = append(acts, "S:"+a.n.wire())
			first := 3 // track, test, store happen before the agent's first storage call
			if a.n.cdn || a.n.mig {
				first = 1
			}
			for k := 0; k < first; k++ {
				acts = append(acts, fmt.Sprintf("A:%d", idx))
			}
			if a.n.mig && len(running) > 0 {
				migBetween = true
			}
			running = append(running, &struct {
				a   *agent
				idx int
			}{a, idx})
			var err error
			func() {
				defer func() {
					if p := recover(); p != nil {
						err = fmt.Errorf("panic: %v", p)
					}
				}()
				err = invoke(v, a.n)
			}()
			running = running[:len(running)-1]
			st.loadFail, st.saveFail = false, false
			results[idx] = resClass(err)
			acts = append(acts, fmt.Sprintf("A:%d", idx), fmt.Sprintf("A:%d", idx)) // drain (no-ops when finished)
		}
		for _, a := range tops {
			runAgent(a)
		}
		st.onLoad, st.onStore, st.afterOp = nil, nil, nil
		state := showClient(v, st)
		var now *session.Data
		if hasStorage {
			now = st.stored()
		}
		v.VerifC30Close()
		hs, is := "0", "-"
		if hasStorage {
			hs = "1"
		}
		if init != nil {
			is = wireStored(init)
		}
		line := fmt.Sprintf("script %s %d %s %s", hs, primary, is, strings.Join(acts, " "))
		c.Eval(line, len(all) >= 2)
		c.Count(fmt.Sprintf("script.agents=%d", len(all)))
		if migBetween {
			c.Count("script.migration-inside-a-save")
		}
		// monitor: the stored session is one whole regular notification (or the initial content)
		if now != nil && !(init != nil && showStored(init) == showStored(now)) {
			ok := false
			for _, x := range all {
				e := x.eff()
				if !x.cdn && !x.mig && now.DC == x.dc && bytes.Equal(now.AuthKey, e.Value[:]) && bytes.Equal(now.AuthKeyID, e.ID[:]) && now.Salt == x.salt {
					ok = true
				}
			}
			if !ok {
				c.Fail("stored-not-one-confirmed-session", line, "after this interleaving the storage holds "+showStored(now)+", which is not the DC+key+salt of any single notification")
			}
		}
		lines = append(lines, line)
		impls = append(impls, strings.Join(results, ",")+" "+state)
	}
	return flush()
}

// runConcurrent lets 2..3 notifications race through the real handler from separate goroutines and asks
// the model whether the observed final state and results are those of SOME interleaving of the
// notifications' atomic steps (TdModel.C30.reach); the monitor checks the stored session is one whole
// notification.
func runConcurrent(c *hc.Ctx) error {
	r := c.Rng
	n := c.N(600, 8000)
	var lines []string
	for i := 0; i < n; i++ {
		primary := hc.Pick(r, 0, 2, 2, 2, 4)
		st := &faultyStorage{jitter: true}
		var init *session.Data
		if r.Chance(25) {
			k := genKey(r)
			init = &session.Data{DC: primary, Addr: "149.154.167.50:443", AuthKey: append([]byte{}, k.Value[:]...),
				AuthKeyID: append([]byte{}, k.ID[:]...), Salt: int64(r.U64())}
			if err := (&session.Loader{Storage: &st.mem}).Save(context.Background(), init); err != nil {
				return err
			}
		}
		k := hc.Pick(r, 2, 2, 2, 3)
		var hist []notif
		for j := 0; j < k; j++ {
			x := notif{dc: hc.Pick(r, primary, primary, primary, 1+r.Intn(5), 0), key: genKey(r), salt: int64(r.U64()), fault: 'n'}
			if r.Chance(15) {
				x.cdn, x.dc = true, 203
			}
			if r.Chance(30) {
				x.perm = genKey(r)
			}
			if j > 0 && r.Chance(20) { // a migration racing with the notifications
				x = notif{mig: true, dc: hc.Pick(r, 1, 3, 4, 5), fault: 'n'}
			}
			hist = append(hist, x)
		}
		v := telegram.VerifC30NewClient(primary, false, st)
		results := make([]string, k)
		var wg sync.WaitGroup
		start := make(chan struct{})
		for j := range hist {
			wg.Add(1)
			go func(j int) {
				defer wg.Done()
				defer func() {
					if p := recover(); p != nil {
						results[j] = fmt.Sprintf("panic:%v", p)
					}
				}()
				x := hist[j]
				<-start
				err := invoke(v, x)
				if err == nil {
					results[j] = "ok"
				} else {
					results[j] = "err:" + err.Error()
				}
			}(j)
		}
		close(start)
		wg.Wait()
		st.jitter = false
		state := showClient(v, st)
		now := st.stored()
		sess := v.VerifC30Session()
		v.VerifC30Close()
		is := "-"
		if init != nil {
			is = wireStored(init)
		}
		var ws []string
		for _, x := range hist {
			ws = append(ws, x.wire())
		}
		storedSalt := "-"
		if now != nil {
			storedSalt = strconv.FormatInt(now.Salt, 10)
		}
		line := fmt.Sprintf("conc 1 %d %s %s | %s %s %d %s", primary, is, strings.Join(ws, " "), strings.Join(results, ","), state, sess.Salt, storedSalt)
		c.Eval(line, true)
		// monitor: the stored session is one whole notification (or the initial content)
		storedBy, sessBy := -1, -1
		for j, x := range hist {
			e := x.eff()
			if now != nil && !x.cdn && !x.mig && now.DC == x.dc && bytes.Equal(now.AuthKey, e.Value[:]) && bytes.Equal(now.AuthKeyID, e.ID[:]) && now.Salt == x.salt {
				storedBy = j
			}
			if !x.cdn && !x.mig && sess.DC == x.dc && sess.AuthKey == e && sess.Salt == x.salt {
				sessBy = j
			}
		}
		switch {
		case now == nil || (init != nil && showStored(init) == showStored(now)):
			c.Count("conc.stored=initial-or-none")
		case storedBy < 0:
			c.Fail("stored-not-one-confirmed-session", line, "after concurrent notifications the storage holds "+showStored(now)+", which is not the DC+key+salt of any single notification")
		case storedBy == sessBy:
			c.Count("conc.stored=session")
		default:
			c.Count("conc.stored!=session (lagging save)")
		}
		lines = append(lines, line)
	}
	outs, err := c.Drv.Batch(lines)
	if err != nil {
		return err
	}
	for i, o := range outs {
		if c.Compare(lines[i], "reachable", o) {
			c.Res.TracesValidated++
		}
	}
	return nil
}

// ---------------------------------------------------------------------------------------------
// the connection layer: real manager.Conn objects (hook VerifC30NewConn) wired to the real client
// handlers; sessions are confirmed on them before / after their config arrives.

func runConns(c *hc.Ctx) error {
	r := c.Rng
	n := c.N(1500, 15000)
	var lines, impls []string
	flush := func() error {
		outs, err := c.Drv.Batch(lines)
		if err != nil {
			return err
		}
		for i, o := range outs {
			if c.Compare(lines[i], impls[i], o) {
				c.Res.TracesValidated++
			}
		}
		lines, impls = nil, nil
		return nil
	}
	for i := 0; i < n; i++ {
		if len(lines) >= 2000 {
			if err := flush(); err != nil {
				return err
			}
		}
		primary := hc.Pick(r, 0, 2, 2, 3, 5)
		st := &faultyStorage{}
		v := telegram.VerifC30NewClient(primary, false, st)
		type mc struct {
			cdn         bool
			dc, cfg     int
			hasCfg      bool
			conn        *telegram.VerifC30ManagedConn
			serverDC    int
			duringSetup int // number of sessions confirmed while Setup runs
		}
		var conns []*mc
		// per connection: a script of events and one init, then interleave the scripts
		type step struct {
			id  int
			act string
		}
		var scripts [][]step
		nc := hc.Pick(r, 1, 2, 2, 3)
		for id := 0; id < nc; id++ {
			m := &mc{}
			switch r.Intn(6) {
			case 0, 1, 2:
				m.dc = primary
				if m.dc == 0 {
					m.dc = 2
				}
			case 3, 4:
				m.dc = 1 + r.Intn(5)
			default:
				m.cdn, m.dc = true, hc.Pick(r, 201, 203)
			}
			m.serverDC = m.dc
			if r.Chance(12) { // the server's config names another DC (or none)
				m.serverDC = hc.Pick(r, 0, 1+r.Intn(5))
			}
			conns = append(conns, m)
			var sc []step
			for k := r.Intn(3); k > 0; k-- {
				sc = append(sc, step{id, "E"})
			}
			if r.Chance(90) {
				sc = append(sc, step{id, "I"})
				for k := r.Intn(3); k > 0; k-- {
					sc = append(sc, step{id, "E"})
				}
			}
			scripts = append(scripts, sc)
			if !m.cdn && r.Chance(40) { // sessions confirmed while the Setup callback (auth transfer) runs
				m.duringSetup = 1 + r.Intn(2)
			}
		}
		var acts []string
		for _, m := range conns {
			k := "r"
			if m.cdn {
				k = "c"
			}
			acts = append(acts, fmt.Sprintf("N:%s:%d:%d", k, m.dc, m.serverDC))
		}
		type cand struct {
			dc   int
			key  crypto.AuthKey
			salt int64
		}
		var pendingC [][]cand = make([][]cand, nc)
		var cands []cand
		buffered, inSetup := false, false
		// confirm: the server confirms a fresh session on connection id (mtproto -> Conn.OnSession)
		confirm := func(id int) error {
			m := conns[id]
			x := notif{key: genKey(r), salt: int64(r.U64())}
			if r.Chance(30) {
				x.perm = genKey(r)
			}
			acts = append(acts, fmt.Sprintf("E:%d:%s,%s,%s,%s,%d", id, hc.Hex(x.key.Value[:]), hc.Hex(x.key.ID[:]),
				hc.Hex(x.perm.Value[:]), hc.Hex(x.perm.ID[:]), x.salt))
			cd := cand{key: x.eff(), salt: x.salt}
			if m.hasCfg {
				cd.dc = m.cfg
				if !m.cdn {
					cands = append(cands, cd)
				}
			} else {
				buffered = true
				pendingC[id] = append(pendingC[id], cd)
			}
			return m.conn.VerifC30OnSession(mtproto.Session{Key: x.key, PermKey: x.perm, Salt: x.salt})
		}
		for id, m := range conns {
			id, m := id, m
			var during func()
			if m.duringSetup > 0 {
				during = func() {
					inSetup = true
					for k := 0; k < m.duringSetup; k++ {
						if err := confirm(id); err != nil {
							c.Fail("conn-layer-error", fmt.Sprintf("conns: session during setup on connection %d", id), err.Error())
						}
					}
				}
			}
			m.conn = v.VerifC30NewConn(m.dc, m.cdn, m.serverDC, during)
		}
		for {
			var live []int
			for id, sc := range scripts {
				if len(sc) > 0 {
					live = append(live, id)
				}
			}
			if len(live) == 0 {
				break
			}
			id := live[r.Intn(len(live))]
			stp := scripts[id][0]
			scripts[id] = scripts[id][1:]
			m := conns[id]
			var err error
			func() {
				defer func() {
					if p := recover(); p != nil {
						err = fmt.Errorf("panic: %v", p)
					}
				}()
				switch stp.act {
				case "E":
					err = confirm(id)
				case "I":
					acts = append(acts, fmt.Sprintf("IB:%d", id))
					err = m.conn.VerifC30Init(context.Background())
					// the config is known to the handler only from the point the real code flushes; for the
					// monitor's candidates everything this connection delivers must carry its own config
					m.hasCfg, m.cfg = true, m.serverDC
					if m.cdn {
						m.cfg = m.dc
					}
					for _, cd := range pendingC[id] {
						cd.dc = m.cfg
						if !m.cdn {
							cands = append(cands, cd)
						}
					}
					pendingC[id] = nil
					acts = append(acts, fmt.Sprintf("IE:%d", id))
				}
			}()
			if err != nil {
				c.Fail("conn-layer-error", "conns "+strings.Join(acts, " ")[:min(400, len(strings.Join(acts, " ")))], err.Error())
			}
		}
		state := showClient(v, st)
		now := st.stored()
		v.VerifC30Close()
		line := fmt.Sprintf("conns 1 %d - %s", primary, strings.Join(acts, " "))
		c.Eval(line, len(conns) >= 2 || buffered)
		c.Count(fmt.Sprintf("conns.n=%d", nc))
		if buffered {
			c.Count("conns.session-before-config")
		}
		if inSetup {
			c.Count("conns.session-during-setup")
		}
		// monitor: the stored session pairs a key with the config DC of the connection that produced it
		if now != nil {
			ok := false
			for _, cd := range cands {
				if now.DC == cd.dc && bytes.Equal(now.AuthKey, cd.key.Value[:]) && bytes.Equal(now.AuthKeyID, cd.key.ID[:]) && now.Salt == cd.salt {
					ok = true
				}
			}
			if !ok {
				c.Fail("stored-key-not-paired-with-its-connection-dc", line, "the storage holds "+showStored(now)+": no regular connection confirmed that key with that config DC")
			}
		}
		lines = append(lines, line)
		impls = append(impls, state)
	}
	return flush()
}
