package main

import (
	"bytes"
	"context"
	"crypto/aes"
	"crypto/cipher"
	"crypto/sha256"
	"encoding/binary"
	"encoding/hex"
	"fmt"
	"go/ast"
	"io"
	"strconv"
	"strings"
	"sync"

	"github.com/gotd/td/telegram/downloader"
	"github.com/gotd/td/tg"
	"github.com/gotd/td/tgerr"

	"verif/harness/hc"
)

func main() { hc.Main(hc.Spec{Prop: "C34", Facts: facts, Run: run}) }

func boolFact(f *hc.Facts, name string, ok, bad bool, comment string) {
	switch {
	case ok:
		f.Bool(name, true, comment)
	case bad:
		f.Bool(name, false, comment)
	default:
		f.Raw(fmt.Sprintf("def %s : Bool := missing_fact_%s -- %s", name, name, comment))
	}
}

func facts(f *hc.Facts) {
	dir := "telegram/downloader"
	f.Const("cdnMinChunk", dir, "cdnMinChunk")
	f.Const("cdnMaxChunk", dir, "cdnMaxChunk")
	f.Const("maxRetryAttempts", dir, "maxRetryAttempts")
	// largestCDNValidLimit: loop header and divisor test
	lv := ""
	if fd := f.FuncDecl(dir, "largestCDNValidLimit"); fd != nil && len(fd.Body.List) == 2 {
		if fs, ok := fd.Body.List[0].(*ast.ForStmt); ok && len(fs.Body.List) == 1 {
			if is, ok := fs.Body.List[0].(*ast.IfStmt); ok {
				lv = f.Src(fs.Init) + "; " + f.Src(fs.Cond) + "; " + f.Src(fs.Post) + " | " + f.Src(is.Cond) + " | " + f.Src(is.Body.List[0]) + " | " + f.Src(fd.Body.List[1])
			}
		}
	}
	wantLV := "size := max; size >= cdnMinChunk; size -= cdnMinChunk | cdnMaxChunk%size == 0 | return size | return 0"
	boolFact(f, "largestValidAsModelled", lv == wantLV, false, lv)
	// buildCDNRequestPlan: guards and step computation
	var conds []string
	var assigns []string
	if fd := f.FuncDecl(dir, "buildCDNRequestPlan"); fd != nil {
		ast.Inspect(fd.Body, func(n ast.Node) bool {
			switch s := n.(type) {
			case *ast.IfStmt:
				conds = append(conds, f.Src(s.Cond))
			case *ast.ForStmt:
				conds = append(conds, "for "+f.Src(s.Cond))
			case *ast.AssignStmt:
				assigns = append(assigns, f.Src(s))
			}
			return true
		})
	}
	wantConds := "limit <= 0 | offset < 0 | offset%cdnMinChunk != 0 | limit%cdnMinChunk != 0 | for remaining > 0 | maxForStep > mbLeft | step == 0"
	wantAssigns := "remaining := limit | current := offset | plan := make([]cdnRequestRange, 0, 1+limit/cdnMaxChunk) | mbUsed := int(current % cdnMaxChunk) | mbLeft := cdnMaxChunk - mbUsed | maxForStep := remaining | maxForStep = mbLeft | step := largestCDNValidLimit(maxForStep) | plan = append(plan, cdnRequestRange{offset: current, limit: step,}) | current += int64(step) | remaining -= step"
	squash := func(s string) string { return strings.Join(strings.Fields(s), "") }
	gotC, gotA := strings.Join(conds, " | "), strings.Join(assigns, " | ")
	boolFact(f, "planAsModelled", squash(gotC) == squash(wantConds) && squash(gotA) == squash(wantAssigns), false, squash(gotC+" ## "+gotA))
	// decrypt: counter = offset / 16 in the last four IV bytes
	ctr := false
	if src := f.FuncSrc(dir, "cdn.decrypt"); strings.Contains(src, "binary.BigEndian.PutUint32(iv.Buf[iv.Len()-4:], uint32(offset/16))") {
		ctr = true
	}
	boolFact(f, "ctrCounterIsOffsetDiv16", ctr, false, "cdn.decrypt: PutUint32(iv[len-4:], uint32(offset/16))")
	// Chunk: a decrypted part longer than the requested limit is rejected before it is appended
	rej, found := false, false
	if fd := f.FuncDecl(dir, "cdn.Chunk"); fd != nil {
		found = true
		ast.Inspect(fd.Body, func(n ast.Node) bool {
			cc, ok := n.(*ast.CaseClause)
			if !ok || len(cc.List) != 1 || f.Src(cc.List[0]) != "*tg.UploadCDNFile" {
				return true
			}
			appendAt, checkAt := -1, -1
			for i, st := range cc.Body {
				src := f.Src(st)
				if is, ok := st.(*ast.IfStmt); ok && f.Src(is.Cond) == "len(part) > req.limit" && strings.Contains(f.Src(is.Body), "return chunk{}") {
					checkAt = i
				}
				if strings.HasPrefix(src, "data = append(data, part...)") {
					appendAt = i
				}
			}
			rej = checkAt >= 0 && appendAt > checkAt
			return false
		})
	}
	boolFact(f, "rejectsLongPart", found && rej, found && !rej, "cdn.Chunk: `if len(part) > req.limit { return … }` before `data = append(data, part...)`")
	// verifyChunk: bytes after a verified short (= last) window are rejected
	truncPos := 0
	checkPos, copyPos, vcFound := 0, 0, false
	if fd := f.FuncDecl(dir, "cdn.verifyChunk"); fd != nil {
		vcFound = true
		ast.Inspect(fd.Body, func(n ast.Node) bool {
			switch s := n.(type) {
			case *ast.IfStmt:
				if f.Src(s.Cond) == "shortResponse && windowDataEnd > chunkEnd" && len(s.Body.List) == 1 {
					if _, ok := s.Body.List[0].(*ast.ReturnStmt); ok {
						truncPos = int(s.Pos())
					}
				}
				if f.Src(s.Cond) == "windowDataEnd < windowEnd && windowDataEnd < chunkEnd" && len(s.Body.List) == 1 {
					if _, ok := s.Body.List[0].(*ast.ReturnStmt); ok {
						checkPos = int(s.Pos())
					}
				}
			case *ast.CallExpr:
				if f.Src(s) == "copy(data[chunkFrom:chunkTo], window[windowFrom:windowTo])" {
					copyPos = int(s.Pos())
				}
			}
			return true
		})
	}
	boolFact(f, "rejectsBeyondTail", checkPos > 0 && copyPos > checkPos, vcFound && checkPos == 0, "cdn.verifyChunk: `windowDataEnd < windowEnd && windowDataEnd < chunkEnd` → error, before the overlap copy")
	// verifyChunk: guards and the two direct-verification cases of the window switch
	var vconds []string
	if fd := f.FuncDecl(dir, "cdn.verifyChunk"); fd != nil {
		ast.Inspect(fd.Body, func(n ast.Node) bool {
			switch s := n.(type) {
			case *ast.AssignStmt:
				if len(s.Lhs) == 1 && f.Src(s.Lhs[0]) == "shortResponse" {
					vconds = append(vconds, "short="+f.Src(s.Rhs[0]))
				}
			case *ast.CaseClause:
				for _, e := range s.List {
					vconds = append(vconds, "case "+f.Src(e))
				}
			case *ast.IfStmt:
				c := f.Src(s.Cond)
				if c == "!c.verify || len(data) == 0" || c == "hash.Limit <= 0" || c == "windowEnd <= current" {
					vconds = append(vconds, "if "+c)
				}
			}
			return true
		})
	}
	wantV := "if !c.verify || len(data) == 0 | short=requestedLimit > 0 && len(data) < requestedLimit | if hash.Limit <= 0 | if windowEnd <= current | case windowStart >= chunkStart && windowEnd <= chunkEnd | case shortResponse && windowStart >= chunkStart && windowStart < chunkEnd && windowEnd > chunkEnd"
	gotV := strings.Join(vconds, " | ")
	boolFact(f, "verifyCasesAsModelled", gotV == wantV, gotV != "" && gotV != wantV, gotV)
	// verifyChunk: the cursor advances to the end of the window just handled
	adv := ""
	if fd := f.FuncDecl(dir, "cdn.verifyChunk"); fd != nil {
		ast.Inspect(fd.Body, func(n ast.Node) bool {
			fs, ok := n.(*ast.ForStmt)
			if !ok || fs.Cond == nil || f.Src(fs.Cond) != "current < chunkEnd" {
				return true
			}
			if k := len(fs.Body.List); k > 0 {
				adv = f.Src(fs.Body.List[k-1])
			}
			return false
		})
	}
	boolFact(f, "cursorAdvancesToWindowEnd", adv == "current = windowEnd", adv != "" && adv != "current = windowEnd", "cdn.verifyChunk: last statement of the window loop: "+adv)
	boolFact(f, "rejectsTruncatedSplit", truncPos > 0 && copyPos > truncPos, vcFound && truncPos == 0, "cdn.verifyChunk: `shortResponse && windowDataEnd > chunkEnd` → error, before the overlap copy")
	// verifier.verify
	vsrc := f.FuncSrc(dir, "verifier.verify")
	boolFact(f, "verifierComparesSHA256", strings.Contains(vsrc, "return bytes.Equal(crypto.SHA256(data), hash.Hash)"), false, "verifier.verify")
}


// ---------------------------------------------------------------- mock master DC + CDN

type window struct {
	off, limit int
	hash       []byte
}

type world struct {
	mu      sync.Mutex
	file    []byte // genuine plaintext
	image   []byte // what the data server holds: ciphertext (CDN) or plaintext (mode C), possibly tampered
	key, iv []byte
	wins    []window
	batch   int
	quirkAt int64 // -1 = none
	quirkBy int
	// requests with exactly this limit are answered from the honest image (an adversary may tell the
	// downloader's window re-fetches from its part requests by their limit); 0 = never
	honestLimit int
	honest      []byte
	cdnFile bool // master redirects to the CDN
	token   []byte
	// events
	tokenInvalidAt int // n-th CDN request answers FILE_TOKEN_INVALID (0 = never)
	reuploadAt     int // n-th CDN request answers cdnFileReuploadNeeded (0 = never)
	cdnReqs        int
	badCDNReq      string
	cdnLog         []string
	hashReqs       int
	// runs of consecutive retryable RPC timeouts (no wall-clock cost): on the data request at one
	// offset (master or CDN) and on the first hash requests; retried by reader.next / verifier.next
	// chunk-once mode: one scripted event per CDN request (s|r|t|m), then serve
	parallel         bool
	evScript         string
	masterServesFile bool
	dataFaultOff     int64
	dataFaults   int
	hashFaults   int
	redirects      int
	reuploads      int
}

func (w *world) serve(off int64, limit int) []byte {
	if w.honestLimit != 0 && limit == w.honestLimit {
		if off >= int64(len(w.honest)) {
			return nil
		}
		end := off + int64(limit)
		if end > int64(len(w.honest)) {
			end = int64(len(w.honest))
		}
		return append([]byte(nil), w.honest[off:end]...)
	}
	if w.quirkAt == off {
		limit += w.quirkBy
		if limit < 0 {
			limit = 0
		}
	}
	if off >= int64(len(w.image)) {
		return nil
	}
	end := off + int64(limit)
	if end > int64(len(w.image)) {
		end = int64(len(w.image))
	}
	return append([]byte(nil), w.image[off:end]...)
}

func (w *world) hashes(off int64) []tg.FileHash {
	var out []tg.FileHash
	for _, h := range w.wins {
		if int64(h.off+h.limit) > off && len(out) < w.batch {
			out = append(out, tg.FileHash{Offset: int64(h.off), Limit: h.limit, Hash: h.hash})
		}
	}
	return out
}

func (w *world) redirect() *tg.UploadFileCDNRedirect {
	w.redirects++
	w.token = []byte(fmt.Sprintf("token-%d", w.redirects))
	return &tg.UploadFileCDNRedirect{DCID: 203, FileToken: w.token, EncryptionKey: w.key, EncryptionIv: w.iv}
}

func (w *world) UploadGetFile(ctx context.Context, r *tg.UploadGetFileRequest) (tg.UploadFileClass, error) {
	w.mu.Lock()
	defer w.mu.Unlock()
	if w.cdnFile && r.CDNSupported {
		return w.redirect(), nil
	}
	if w.dataFaults > 0 && r.Offset == w.dataFaultOff {
		w.dataFaults--
		return nil, tgerr.New(-503, "Timeout")
	}
	if w.masterServesFile {
		off, end := r.Offset, r.Offset+int64(r.Limit)
		if off > int64(len(w.file)) {
			off = int64(len(w.file))
		}
		if end > int64(len(w.file)) {
			end = int64(len(w.file))
		}
		return &tg.UploadFile{Type: &tg.StorageFilePng{}, Bytes: append([]byte(nil), w.file[off:end]...)}, nil
	}
	return &tg.UploadFile{Type: &tg.StorageFilePng{}, Bytes: w.serve(r.Offset, r.Limit)}, nil
}

func (w *world) UploadGetFileHashes(ctx context.Context, r *tg.UploadGetFileHashesRequest) ([]tg.FileHash, error) {
	w.mu.Lock()
	defer w.mu.Unlock()
	w.hashReqs++
	if w.hashFaults > 0 {
		w.hashFaults--
		return nil, tgerr.New(-503, "Timeout")
	}
	return w.hashes(r.Offset), nil
}

func (w *world) UploadGetCDNFileHashes(ctx context.Context, r *tg.UploadGetCDNFileHashesRequest) ([]tg.FileHash, error) {
	w.mu.Lock()
	defer w.mu.Unlock()
	w.hashReqs++
	if w.hashFaults > 0 {
		w.hashFaults--
		return nil, tgerr.New(-503, "Timeout")
	}
	return w.hashes(r.Offset), nil
}

func (w *world) UploadReuploadCDNFile(ctx context.Context, r *tg.UploadReuploadCDNFileRequest) ([]tg.FileHash, error) {
	w.mu.Lock()
	defer w.mu.Unlock()
	w.reuploads++
	return w.hashes(0), nil
}

func (w *world) UploadGetWebFile(ctx context.Context, r *tg.UploadGetWebFileRequest) (*tg.UploadWebFile, error) {
	return nil, fmt.Errorf("unexpected UploadGetWebFile")
}

// CDN provider
func (w *world) CDN(ctx context.Context, dc int, max int64) (downloader.CDN, io.Closer, error) {
	return cdnConn{w}, io.NopCloser(nil), nil
}

type cdnConn struct{ w *world }

func (c cdnConn) UploadGetCDNFile(ctx context.Context, r *tg.UploadGetCDNFileRequest) (tg.UploadCDNFileClass, error) {
	w := c.w
	w.mu.Lock()
	defer w.mu.Unlock()
	w.cdnReqs++
	// every CDN request must be a valid aligned window
	o, l := r.Offset, int64(r.Limit)
	switch {
	case l <= 0 || o < 0 || o%4096 != 0 || l%4096 != 0:
		w.badCDNReq = fmt.Sprintf("offset=%d limit=%d not on the 4 KiB grid", o, l)
	case 1048576%l != 0:
		w.badCDNReq = fmt.Sprintf("limit=%d does not divide 1 MiB", l)
	case o/1048576 != (o+l-1)/1048576:
		w.badCDNReq = fmt.Sprintf("offset=%d limit=%d crosses a 1 MiB boundary", o, l)
	}
	w.cdnLog = append(w.cdnLog, fmt.Sprintf("%d+%d", o, l))
	if w.dataFaults > 0 && o == w.dataFaultOff {
		w.dataFaults--
		return nil, tgerr.New(-503, "Timeout")
	}
	if i := w.cdnReqs - 1; i < len(w.evScript) {
		switch w.evScript[i] {
		case 'r':
			return &tg.UploadCDNFileReuploadNeeded{RequestToken: []byte("rq")}, nil
		case 't':
			return nil, tgerr.New(400, "FILE_TOKEN_INVALID")
		case 'm':
			w.cdnFile, w.masterServesFile = false, true
			return nil, tgerr.New(400, "FILE_TOKEN_INVALID")
		}
	}
	if w.cdnReqs == w.tokenInvalidAt {
		return nil, tgerr.New(400, "FILE_TOKEN_INVALID")
	}
	if !bytes.Equal(r.FileToken, w.token) {
		if w.parallel {
			// a concurrent worker may still hold the redirect it read before the refresh: the CDN
			// answers as it does for any outdated token
			return nil, tgerr.New(400, "FILE_TOKEN_INVALID")
		}
		w.badCDNReq = "stale file token"
	}
	if w.cdnReqs == w.reuploadAt {
		return &tg.UploadCDNFileReuploadNeeded{RequestToken: []byte("rq")}, nil
	}
	return &tg.UploadCDNFile{Bytes: w.serve(o, r.Limit)}, nil
}

func ctrEncrypt(key, iv, plain []byte) []byte {
	blk, _ := aes.NewCipher(key)
	out := make([]byte, len(plain))
	cipher.NewCTR(blk, iv).XORKeyStream(out, plain)
	return out
}

// ---------------------------------------------------------------- cases

type vcase struct {
	mode   string // A = CDN inline verification, B = CDN + verifier queue, C = master + verifier queue
	ps     int
	wsizes []int
	w      *world
	tamper  string
	faults  string
	threads int // 0 = Stream, else Parallel
	seed    uint64
}

type vresult struct {
	overlap bool
	written []bool // Parallel: which positions of data were written
	data   []byte
	err    error
	panicv any
}

// parObs is the scheduler-independent part of what a Parallel download did.
type parObs struct {
	fileLen int
	contig  string
	genuine bool
	failed  bool
}

type sink struct{ b []byte }

func (s *sink) Write(p []byte) (int, error) { s.b = append(s.b, p...); return len(p), nil }

func runDownload(v *vcase) (res vresult) {
	defer func() {
		if r := recover(); r != nil {
			res.panicv = r
		}
	}()
	d := downloader.NewDownloader().WithPartSize(v.ps)
	if v.mode != "C" {
		d = d.WithAllowCDN(true)
	}
	b := d.Download(v.w, &tg.InputDocumentFileLocation{ID: 7})
	if v.mode != "A" {
		b = b.WithVerify(true)
	}
	if v.threads > 0 {
		v.w.parallel = true
		out := &atSink{}
		_, res.err = b.WithThreads(v.threads).Parallel(context.Background(), out)
		res.data, res.overlap, res.written = out.b, out.overlap, out.written
		return res
	}
	out := &sink{}
	_, res.err = b.Stream(context.Background(), out)
	res.data = out.b
	return res
}

// atSink assembles WriteAt calls and notices bytes written twice.
type atSink struct {
	mu      sync.Mutex
	b       []byte
	written []bool
	overlap bool
}

func (s *atSink) WriteAt(p []byte, off int64) (int, error) {
	s.mu.Lock()
	defer s.mu.Unlock()
	end := int(off) + len(p)
	for len(s.b) < end {
		s.b = append(s.b, 0)
		s.written = append(s.written, false)
	}
	for i := range p {
		if s.written[int(off)+i] {
			s.overlap = true
		}
		s.written[int(off)+i] = true
	}
	copy(s.b[off:], p)
	return len(p), nil
}

// contiguous returns the length of the prefix of a Parallel result that was written without a hole.
func contiguous(res vresult) int {
	if res.written == nil {
		return len(res.data)
	}
	n := 0
	for n < len(res.written) && res.written[n] {
		n++
	}
	return n
}

// gapOnly: a Parallel result that is wrong only because ranges are missing — every byte that was written
// is the genuine byte at its position, nothing lies beyond the end of the file, and there is a hole.
func gapOnly(res vresult, file []byte) bool {
	if res.written == nil || len(res.data) > len(file) {
		return false
	}
	hole := false
	for i, w := range res.written {
		if !w {
			hole = true
		} else if res.data[i] != file[i] {
			return false
		}
	}
	return hole
}

func errTag(err error) string {
	e := err.Error()
	switch {
	case strings.Contains(e, "state loop"):
		return "state-loop"
	case strings.Contains(e, "file hash mismatch"):
		return "mismatch"
	case strings.Contains(e, "CDN part is longer"):
		return "too-long"
	case strings.Contains(e, "verified data continues"):
		return "truncated-split"
	case strings.Contains(e, "extends beyond verified file end"):
		return "beyond-tail"
	case strings.Contains(e, "hash for offset"):
		return "no-hash"
	case strings.Contains(e, "invalid CDN window length"):
		return "bad-len"
	case strings.Contains(e, "invalid overlap"):
		return "bad-overlap"
	case strings.Contains(e, "cdn request plan"):
		return "plan"
	case strings.Contains(e, "invalid CDN hash"):
		return "bad-window"
	}
	return "other:" + strings.ReplaceAll(e, " ", "_")
}

func joinInts(a []int) string {
	p := make([]string, len(a))
	for i, x := range a {
		p[i] = strconv.Itoa(x)
	}
	if len(p) == 0 {
		return "-"
	}
	return strings.Join(p, ",")
}

func genCase(r *hc.RNG, thorough bool) *vcase {
	v := &vcase{mode: hc.Pick(r, "A", "A", "A", "B", "C"), seed: r.U64()}
	wsz := hc.Pick(r, 4096, 4096, 8192, 12288, 16384)
	nwin := r.Range(1, 6)
	size := wsz*nwin - hc.Pick(r, 0, 0, 1, 100, wsz/2, wsz-1)
	if r.Chance(8) {
		size = hc.Pick(r, 0, 1, 4095, 4096, 4097)
	}
	if size < 0 {
		size = 0
	}
	file := r.Bytes(size)
	// hash windows: uniform, or uneven multiples of 4 KiB
	var wins []window
	var wsizes []int
	for off := 0; off < size; {
		l := wsz
		if r.Chance(20) {
			l = 4096 * r.Range(1, 3)
		}
		end := off + l
		if end > size {
			end = size
		}
		h := sha256.Sum256(file[off:end])
		wins = append(wins, window{off, l, h[:]})
		wsizes = append(wsizes, l)
		off += l
	}
	v.wsizes = wsizes
	v.ps = hc.Pick(r, 4096, 8192, wsz, wsz, 2*wsz, 12288, 20480, 65536)
	key, iv := r.Bytes(32), r.Bytes(16)
	if r.Chance(30) { // counter bytes near wrap-around
		binary.BigEndian.PutUint32(iv[12:], 0xffffffff-uint32(r.Intn(3)))
	}
	w := &world{file: file, key: key, iv: iv, wins: wins, batch: r.Range(1, 4), quirkAt: -1, cdnFile: v.mode != "C"}
	// the served image: tampered plaintext, then encrypted for the CDN
	plain := append([]byte(nil), file...)
	v.tamper = "honest"
	if r.Chance(65) && size > 0 {
		switch r.Intn(8) {
		case 7: // garbage after the end, but requests of one particular limit are answered honestly
			v.tamper = "append-selective"
			plain = append(plain, r.Bytes(hc.Pick(r, 4096, wsz, 2*wsz))...)
			w.honestLimit = hc.Pick(r, wsz, wsz, 4096, 8192)
		case 0: // corrupt one byte
			v.tamper = "corrupt"
			plain[r.Intn(size)] ^= byte(1 + r.Intn(255))
		case 1: // truncate at a hash-window boundary
			v.tamper = "truncate-at-window"
			k := r.Intn(len(wins))
			plain = plain[:wins[k].off]
		case 2: // truncate elsewhere
			v.tamper = "truncate-off-window"
			plain = plain[:r.Intn(size)]
		case 3: // extend one answer beyond the requested limit (genuine following bytes)
			v.tamper = "extend"
			w.quirkAt = int64(4096 * r.Intn(size/4096+1))
			w.quirkBy = hc.Pick(r, 1, 16, 4096, wsz, 2*wsz)
		case 4: // shorten one answer
			v.tamper = "short-answer"
			w.quirkAt = int64(4096 * r.Intn(size/4096+1))
			w.quirkBy = -hc.Pick(r, 1, 16, 4096, wsz)
		case 5: // reorder two windows
			v.tamper = "reorder"
			if len(wins) >= 2 {
				i, j := r.Intn(len(wins)), r.Intn(len(wins))
				a, b := wins[i], wins[j]
				la, lb := a.limit, b.limit
				if a.off+la > size {
					la = size - a.off
				}
				if b.off+lb > size {
					lb = size - b.off
				}
				n := la
				if lb < n {
					n = lb
				}
				tmp := append([]byte(nil), plain[a.off:a.off+n]...)
				copy(plain[a.off:a.off+n], plain[b.off:b.off+n])
				copy(plain[b.off:b.off+n], tmp)
			}
		case 6: // append garbage after the end
			v.tamper = "append"
			plain = append(plain, r.Bytes(hc.Pick(r, 1, 4096, wsz))...)
		}
	}
	if r.Chance(7) && v.mode == "A" {
		// targeted: a part that ends inside the nominal last hash window but beyond the end of the file,
		// garbage after the end, window re-fetches (limit = window size) answered honestly
		v.tamper = "tail-garbage"
		wsz = hc.Pick(r, 8192, 16384)
		nfull := r.Range(0, 2)
		size = nfull*wsz + r.Range(1, 4095)
		file = r.Bytes(size)
		wins, wsizes = nil, nil
		for off := 0; off < size; off += wsz {
			end := off + wsz
			if end > size {
				end = size
			}
			h := sha256.Sum256(file[off:end])
			wins = append(wins, window{off, wsz, h[:]})
			wsizes = append(wsizes, wsz)
		}
		v.wsizes = wsizes
		v.ps = nfull*wsz + 4096
		w.file, w.wins = file, wins
		w.quirkAt = -1
		plain = append(append([]byte(nil), file...), r.Bytes(8192)...)
		w.honestLimit = wsz
	}
	if r.Chance(7) && v.mode == "A" && v.tamper != "tail-garbage" {
		// targeted: part size smaller than the hash window, one answer inside a window cut short
		v.tamper = "split-truncate"
		wsz = hc.Pick(r, 8192, 16384)
		nwin := r.Range(1, 3)
		size = nwin*wsz - r.Intn(100)
		file = r.Bytes(size)
		wins, wsizes = nil, nil
		for off := 0; off < size; off += wsz {
			end := off + wsz
			if end > size {
				end = size
			}
			h := sha256.Sum256(file[off:end])
			wins = append(wins, window{off, wsz, h[:]})
			wsizes = append(wsizes, wsz)
		}
		v.wsizes = wsizes
		v.ps = 4096
		w.file, w.wins = file, wins
		plain = append([]byte(nil), file...)
		w.honestLimit = 0
		// a part that neither starts a window nor is the last part of the file
		w.quirkAt = int64(wsz*r.Intn(nwin) + 4096*r.Range(1, wsz/4096-2))
		w.quirkBy = -hc.Pick(r, 1, 16, 100, 4095)
	}
	if r.Chance(7) && v.mode == "A" && v.tamper != "tail-garbage" && v.tamper != "split-truncate" {
		// targeted: a part smaller than the hash window that starts inside one window and ends in the
		// head of the next; the CDN corrupts a byte of that head in its answer to the part request and
		// answers whole-window re-fetches honestly: the corrupted bytes must be replaced or rejected
		v.tamper = "straddle-corrupt"
		wsz = 16384
		nwin := r.Range(2, 4)
		size = nwin*wsz - r.Intn(200)
		file = r.Bytes(size)
		wins, wsizes = nil, nil
		for off := 0; off < size; off += wsz {
			end := off + wsz
			if end > size {
				end = size
			}
			h := sha256.Sum256(file[off:end])
			wins = append(wins, window{off, wsz, h[:]})
			wsizes = append(wsizes, wsz)
		}
		v.wsizes = wsizes
		v.ps = 12288
		w.file, w.wins = file, wins
		w.quirkAt = -1
		plain = append([]byte(nil), file...)
		// parts [12288,24576) / [36864,49152) start mid-window and reach into the next window
		b := hc.Pick(r, 16384, 16384, 49152)
		if b+100 >= size {
			b = 16384
		}
		hi := b + 8192
		if b == 49152 {
			hi = b // (part [36864,49152) ends exactly at the boundary: use the first straddle instead)
			b, hi = 16384, 16384+8192
		}
		if hi > size {
			hi = size
		}
		plain[b+r.Intn(hi-b)] ^= byte(1 + r.Intn(255))
		w.honestLimit = wsz
	}
	if v.mode == "C" {
		w.image = plain
		w.honest = file
	} else {
		// CTR keystream position = offset: encrypt the whole image from offset 0 with counter 0
		iv0 := append([]byte(nil), iv...)
		binary.BigEndian.PutUint32(iv0[12:], 0)
		w.image = ctrEncrypt(key, iv0, plain)
		w.honest = ctrEncrypt(key, iv0, file)
		if v.tamper == "honest" || r.Chance(50) {
			switch r.Intn(6) {
			case 0:
				w.tokenInvalidAt = r.Range(1, 3)
			case 1:
				w.reuploadAt = r.Range(1, 3)
			}
		}
	}
	if r.Chance(25) {
		// long runs of retryable timeouts on one part / on the hash requests
		n := hc.Pick(r, 1, 5, 19, 20, 21, 40, 64)
		if r.Bool() {
			w.dataFaultOff = int64(v.ps * r.Intn(len(w.file)/v.ps+1))
			w.dataFaults = n
		} else {
			w.hashFaults = n
		}
		w.tokenInvalidAt, w.reuploadAt = 0, 0
	}
	if r.Chance(35) {
		v.threads = r.Range(2, 4)
	}
	v.faults = fmt.Sprintf("%d@%d/%d", w.dataFaults, w.dataFaultOff, w.hashFaults)
	v.w = w
	return v
}

func run(c *hc.Ctx) error {
	r := c.Rng.Fork() // hc.NewRNG(seed) streams of neighbouring seeds are the same sequence shifted by one draw and re-synchronise; a fork lands far away
	var lines, impls []string
	add := func(line, impl string) { lines, impls = append(lines, line), append(impls, impl) }

	// ---- 1. request plan: every (offset, limit) on the 4 KiB grid (exhaustive) + off-grid arguments
	maxOff, maxLim := c.N(1536*1024, 3*1024*1024), c.N(1280*1024, 3*1024*1024)
	planCases := 0
	checkPlan := func(off int64, limit int, grid bool) {
		plan, err := downloader.VerifC34BuildPlan(off, limit)
		line := fmt.Sprintf("plan %d %d", off, limit)
		planCases++
		var sb strings.Builder
		if err != nil {
			e := err.Error()
			switch {
			case strings.Contains(e, "invalid CDN limit"):
				sb.WriteString("err bad-limit")
			case strings.Contains(e, "invalid CDN offset"):
				sb.WriteString("err bad-offset")
			case strings.Contains(e, "CDN offset"):
				sb.WriteString("err offset-unaligned")
			case strings.Contains(e, "CDN limit"):
				sb.WriteString("err limit-unaligned")
			default:
				sb.WriteString("err unable")
			}
			if grid {
				c.Fail("plan-fails-on-grid", line, e)
			}
		} else {
			sb.WriteString("ok")
			cur, sum := off, int64(0)
			for _, p := range plan {
				fmt.Fprintf(&sb, " %d+%d", p[0], p[1])
				o, l := p[0], p[1]
				switch {
				case o != cur:
					c.Fail("plan-not-contiguous", line, fmt.Sprintf("range at %d, expected %d", o, cur))
				case l <= 0 || o%4096 != 0 || l%4096 != 0 || 1048576%l != 0:
					c.Fail("plan-invalid-window", line, fmt.Sprintf("offset=%d limit=%d", o, l))
				case o/1048576 != (o+l-1)/1048576:
					c.Fail("plan-crosses-1MiB", line, fmt.Sprintf("offset=%d limit=%d", o, l))
				}
				cur += l
				sum += l
			}
			if sum != int64(limit) {
				c.Fail("plan-does-not-cover", line, fmt.Sprintf("covers %d of %d", sum, limit))
			}
		}
		add(line, sb.String())
	}
	for off := 0; off <= maxOff; off += 4096 {
		for limit := 4096; limit <= maxLim && off+limit <= maxOff+maxLim; limit += 4096 {
			if !c.Thorough() && limit > 128*1024 && (limit/4096)%3 != 0 && (off/4096)%2 != 0 {
				continue // quick tier: thin out the large-limit part of the grid
			}
			checkPlan(int64(off), limit, true)
		}
	}
	gridCases := planCases
	for i := 0; i < c.N(3000, 30000); i++ {
		off := int64(r.Range(-2, 1<<22))
		if r.Bool() {
			off = int64(4096 * r.Intn(1<<16))
		}
		limit := hc.Pick(r, 0, -1, -4096, 1, 4095, 4097, 4096*r.Range(1, 600), r.Range(1, 1<<21), 1048576, 2097152)
		checkPlan(off, limit, false)
	}
	c.Count("plan.grid")
	c.Res.Dist["plan.grid"] = gridCases
	c.Res.Dist["plan.off-grid"] = planCases - gridCases
	c.Eval(fmt.Sprintf("plan grid offsets 0..%d limits 4096..%d", maxOff, maxLim), true)
	for i := 0; i <= 260; i++ {
		m := 4096 * i
		add(fmt.Sprintf("largest %d", m), strconv.Itoa(downloader.VerifC34LargestValid(m)))
	}

	// ---- 2. decrypt: counter derived from the offset
	for i := 0; i < c.N(400, 8000); i++ {
		key, iv := r.Bytes(32), r.Bytes(16)
		if r.Chance(30) {
			binary.BigEndian.PutUint32(iv[12:], 0xffffffff-uint32(r.Intn(3)))
		}
		off := int64(hc.Pick(r, 0, 16, 4096, 4096*r.Intn(1<<20), r.Intn(1<<30), 16*(1<<32-1), 16*(1<<32), 16*(1<<32)+4096))
		src := r.Bytes(hc.Pick(r, 0, 1, 15, 16, 17, 100, 4096))
		got, err := downloader.VerifC34Decrypt(key, iv, src, off)
		line := fmt.Sprintf("dec %s %s %d %s", hc.Hex(key), hc.Hex(iv), off, hc.Hex(src))
		c.Eval(line, len(src) > 16)
		c.Count("decrypt")
		impl := hc.Hex(got)
		if err != nil {
			impl = "err"
		}
		// monitor: the keystream is AES-CTR started at iv[0:12] ++ be32(offset/16)
		iv2 := append([]byte(nil), iv...)
		binary.BigEndian.PutUint32(iv2[12:], uint32(off/16))
		if want := ctrEncrypt(key, iv2, src); err != nil || !bytes.Equal(want, got) {
			c.Fail("decrypt-counter", line, "decrypt is not AES-CTR with counter offset/16")
		}
		add(line, impl)
	}

	// ---- 2b. one cdn.Chunk call on a fresh schema with scripted token-refresh / reupload events
	for i := 0; i < c.N(300, 6000); i++ {
		size := 4096 * r.Range(1, 8)
		if r.Chance(30) {
			size -= r.Range(1, 4095)
		}
		file := r.Bytes(size)
		key, iv := r.Bytes(32), r.Bytes(16)
		iv0 := append([]byte(nil), iv...)
		binary.BigEndian.PutUint32(iv0[12:], 0)
		w := &world{file: file, key: key, iv: iv, quirkAt: -1, cdnFile: true, batch: 1}
		w.image = ctrEncrypt(key, iv0, file)
		off := 4096 * r.Intn(size/4096+1)
		limit := 4096 * hc.Pick(r, 1, 1, 2, 3, 4, 8)
		// events: mostly few, sometimes exactly around the attempt budget (19 passes on a fresh schema)
		nev := hc.Pick(r, 0, 1, 2, 3, 5, 17, 18, 19, 20, 25)
		ev := make([]byte, 0, nev+4)
		for k := 0; k < nev; k++ {
			ev = append(ev, hc.Pick[byte](r, 'r', 't'))
			if r.Chance(8) {
				ev = append(ev, 's') // a request of the pass is served before the next event (may finish the chunk)
			}
		}
		if r.Chance(12) {
			ev = append(ev, 'm')
		}
		w.evScript = string(ev)
		var got []byte
		var err error
		var pv any
		func() {
			defer func() {
				if rr := recover(); rr != nil {
					pv = rr
				}
			}()
			got, err = downloader.VerifC34ChunkOnce(context.Background(), w, w, int64(off), limit)
		}()
		end := off + limit
		if end > size {
			end = size
		}
		if off > size {
			off = size
		}
		genuine := file[off:end]
		evs := string(ev)
		if evs == "" {
			evs = "-"
		}
		line := fmt.Sprintf("chunk1 %d %d %s %s %s %s %s", off, limit, hc.Hex(key), hc.Hex(iv), evs, hc.Hex(w.image), hc.Hex(genuine))
		sig := fmt.Sprintf("chunk1 off=%d limit=%d size=%d events=%s", off, limit, size, evs)
		c.Eval(sig, nev > 0)
		c.Count("chunk1")
		var impl string
		switch {
		case pv != nil:
			impl = "panic"
			c.Fail("chunk-panic", sig, fmt.Sprint(pv))
		case err != nil:
			impl = "err " + errTag(err)
			c.Count("chunk1.outcome=" + impl)
		default:
			sum := sha256.Sum256(got)
			impl = fmt.Sprintf("ok len=%d sha=%s", len(got), hex.EncodeToString(sum[:]))
			c.Count("chunk1.outcome=ok")
			// control events never change the data of a chunk
			if !bytes.Equal(got, genuine) {
				c.Fail("control-event-changes-chunk", sig, fmt.Sprintf("got %d bytes, genuine range has %d", len(got), len(genuine)))
			}
		}
		if w.badCDNReq != "" {
			c.Fail("cdn-request-invalid", sig, w.badCDNReq)
		}
		add(line, impl)
	}

	// ---- 3. whole downloads against honest and adversarial data servers
	n := c.N(160, 1500)
	cases := make([]*vcase, n)
	for i := range cases {
		cases[i] = genCase(r, c.Thorough())
	}
	results := make([]vresult, n)
	var wg sync.WaitGroup
	sem := make(chan struct{}, 8)
	for i := range cases {
		wg.Add(1)
		sem <- struct{}{}
		go func(i int) {
			defer wg.Done()
			defer func() { <-sem }()
			results[i] = runDownload(cases[i])
		}(i)
	}
	wg.Wait()
	failSeen := map[string]int{}
	parInfo := map[int]parObs{}
	for i, v := range cases {
		res := results[i]
		w := v.w
		quirk := "-"
		if w.quirkAt >= 0 {
			quirk = fmt.Sprintf("%d:%d", w.quirkAt, w.quirkBy)
		}
		if w.honestLimit != 0 {
			quirk += "/" + strconv.Itoa(w.honestLimit)
		}
		line := fmt.Sprintf("dl %s %d %d %s %s %s %s %s %s", v.mode, v.ps, w.batch, joinInts(v.wsizes), hc.Hex(w.key), hc.Hex(w.iv), quirk, hc.Hex(w.file), hc.Hex(w.image))
		sig := fmt.Sprintf("dl %s ps=%d batch=%d wins=%s quirk=%s tamper=%s size=%d seed=%d events=%d/%d timeouts=%s threads=%d", v.mode, v.ps, w.batch, joinInts(v.wsizes), quirk, v.tamper, len(w.file), v.seed, w.tokenInvalidAt, w.reuploadAt, v.faults, v.threads)
		if v.threads > 0 {
			c.Count("dl.parallel")
		}
		if res.overlap {
			c.Fail("verified-download-duplicate-bytes", sig, "two WriteAt ranges overlap")
		}
		if v.faults != "0@0/0" {
			c.Count("dl.timeout-runs")
		}
		c.Eval(sig, v.tamper != "honest" || len(w.file) > v.ps)
		c.Count("dl.mode=" + v.mode)
		c.Count("dl.tamper=" + v.tamper)
		if w.tokenInvalidAt > 0 {
			c.Count("dl.event=token-invalid")
		}
		if w.reuploadAt > 0 {
			c.Count("dl.event=reupload-needed")
		}
		var impl string
		switch {
		case res.panicv != nil:
			impl = "panic"
			c.Fail("download-panic", sig, fmt.Sprint(res.panicv))
		case res.err != nil:
			impl = "err " + errTag(res.err)
			c.Count("dl.outcome=" + impl)
			if v.tamper == "honest" {
				c.Fail("honest-download-fails", sig, res.err.Error())
			}
		default:
			sum := sha256.Sum256(res.data)
			impl = fmt.Sprintf("ok len=%d sha=%s", len(res.data), hex.EncodeToString(sum[:]))
			c.Count("dl.outcome=ok")
			// the property: a completed download equals the genuine file
			if !bytes.Equal(res.data, w.file) {
				key := "verified-download-wrong-bytes"
				detail := fmt.Sprintf("completed with %d bytes, genuine file has %d (tamper=%s)", len(res.data), len(w.file), v.tamper)
				if v.mode == "A" && v.threads > 0 && gapOnly(res, w.file) {
					// same root cause as the truncation findings (a short / empty inline-CDN answer is taken
					// for the end of the file), seen through Parallel: the worker that got it stops the
					// download while workers that had already taken later offsets still write their parts
					key = "inline-cdn-truncation-parallel-gap"
				} else if len(res.data) < len(w.file) && bytes.Equal(res.data, w.file[:len(res.data)]) {
					onBoundary := len(res.data) == 0
					for _, h := range w.wins {
						if h.off == len(res.data) {
							onBoundary = true
						}
					}
					if onBoundary && v.mode == "A" {
						key = "inline-cdn-truncation-at-hash-window-boundary"
					} else if v.mode == "A" && len(res.data)%v.ps == 0 {
						// an empty answer at a part boundary inside a hash window (part size < window)
						key = "inline-cdn-empty-answer-at-part-boundary"
					} else {
						key = "verified-download-truncated"
					}
				} else if len(res.data) > len(w.file) {
					key = "verified-download-extended"
				}
				// the result list of a run holds few entries: report each class at most twice so that a
				// frequent (known) class cannot crowd out a different one
				failSeen[key]++
				c.Count("dl.violation=" + key)
				if failSeen[key] <= 2 {
					c.Fail(key, sig+" "+line, detail)
				}
			}
		}
		if w.badCDNReq != "" {
			c.Fail("cdn-request-invalid", sig, w.badCDNReq)
		}
		if w.tokenInvalidAt > 0 || w.reuploadAt > 0 {
			// control events change only how often a range is requested, never the outcome; the model has no
			// notion of tokens, so for these cases only the outcome is compared
		}
		if v.threads > 0 {
			// Parallel: which worker's error surfaces first is up to the scheduler — compare ok/err only
			impl = "par:" + impl
			n := contiguous(res)
			if n > len(res.data) {
				n = len(res.data)
			}
			sum := sha256.Sum256(res.data[:n])
			genuine := res.err == nil && len(res.data) <= len(w.file)
			for i := 0; genuine && i < len(res.data); i++ {
				if (res.written == nil || res.written[i]) && res.data[i] != w.file[i] {
					genuine = false
				}
			}
			parInfo[len(lines)] = parObs{fileLen: len(w.file), contig: fmt.Sprintf("ok len=%d sha=%s", n, hex.EncodeToString(sum[:])), genuine: genuine, failed: res.err != nil}
		}
		add(line, impl)
	}
	c.Res.Exhaustive = true
	c.Res.Rule = fmt.Sprintf("request plan: (offset, limit) pairs on the 4 KiB grid up to %d/%d (quick tier thins out limits > 128 KiB; thorough enumerates all, exhaustive) plus off-grid/negative arguments; decrypt: random keys/IVs (counter bytes near 2^32), offsets incl. offset/16 ≥ 2^32; downloads: files of 1..6 hash windows (4–16 KiB, uniform or uneven, last window short), part sizes aligned and unaligned to the windows, served honestly or corrupted / truncated at and off window boundaries / one answer extended or shortened / windows reordered / garbage appended, with FILE_TOKEN_INVALID and reupload-needed events and runs of 1..64 retryable timeouts on one part or on the hash requests, in three modes (CDN inline verification, CDN + verifier queue, master + verifier queue), Stream and Parallel (2..4 threads); non-trivial = tampered or more than one part; distinct = distinct case parameters", maxOff, maxLim)
	c.PartialNote("unforgeability / collision resistance of SHA-256 is not modelled: the theorems say that what is delivered hashed to the master's values")
	c.PartialNote("token refresh / reupload / DC switch state machine of cdn.Chunk is exercised (outcome compared) but not modelled; parallel CDN downloads and the verified-window cache (which only saves requests) are not modelled")

	outs, err := c.Drv.Batch(lines)
	if err != nil {
		return err
	}
	for i, o := range outs {
		if strings.HasPrefix(impls[i], "par:") {
			impls[i] = strings.TrimPrefix(impls[i], "par:")
			if strings.HasPrefix(impls[i], "err ") && strings.HasPrefix(o, "err ") {
				o = impls[i]
			}
			// The model is the streamed download.  When it accepts a truncation (completes with a strict
			// prefix — the open findings), a Parallel run additionally fetches whatever later parts its
			// workers had already taken: they may write genuine data behind a hole or fail.  Only the
			// scheduler-independent part is compared: the contiguously written prefix, if the run succeeded.
			pi := parInfo[i]
			var ml int
			if _, err := fmt.Sscanf(o, "ok len=%d", &ml); err == nil && ml < pi.fileLen {
				if pi.failed || (pi.genuine && pi.contig == o) {
					impls[i] = o
				}
			}
		}
		if c.Compare(clip(lines[i]), impls[i], o) {
			c.Res.TracesValidated++
		}
	}
	return nil
}

func clip(s string) string {
	if len(s) > 3000 {
		return s[:3000] + "…"
	}
	return s
}
