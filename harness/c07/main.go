// C07 — acceptance of incoming encrypted messages: correspondence of proto.MessageIDBuf.Consume,
// mtproto.checkMessageID and mtproto.Conn.consumeMessage (decrypt → session → id → replay buffer →
// handler) with the Lean model TdModel.C07, plus the property monitor on the implementation.
package main

import (
	"context"
	"crypto/aes"
	"fmt"
	"go/ast"
	"go/parser"
	"go/printer"
	"go/token"
	"os"
	"path/filepath"
	"sort"
	"strconv"
	"strings"
	"sync"
	"time"

	"github.com/gotd/ige"
	"github.com/gotd/neo"

	"github.com/gotd/td/bin"
	"github.com/gotd/td/crypto"
	"github.com/gotd/td/mt"
	"github.com/gotd/td/mtproto"
	"github.com/gotd/td/proto"
	"github.com/gotd/td/transport"

	"verif/harness/hc"
)

func main() {
	hc.Main(hc.Spec{Prop: "C07", Facts: facts, Run: run})
}

// ---------------------------------------------------------------------------------- facts

func flat(s string) string { return strings.Join(strings.Fields(s), " ") }

// cmp describes `a OP b` normalised so that the left operand is `left`: ok=false if the
// expression is not a comparison between exactly `left` and `right`.
func cmp(f *hc.Facts, e ast.Expr, left, right string) (op string, ok bool) {
	for {
		p, isP := e.(*ast.ParenExpr)
		if !isP {
			break
		}
		e = p.X
	}
	be, isB := e.(*ast.BinaryExpr)
	if !isB {
		return "", false
	}
	x, y := flat(f.Src(be.X)), flat(f.Src(be.Y))
	flip := map[token.Token]string{token.LSS: ">", token.LEQ: ">=", token.GTR: "<", token.GEQ: "<=", token.EQL: "==", token.NEQ: "!="}
	same := map[token.Token]string{token.LSS: "<", token.LEQ: "<=", token.GTR: ">", token.GEQ: ">=", token.EQL: "==", token.NEQ: "!="}
	switch {
	case x == left && y == right:
		op, ok = same[be.Op]
	case x == right && y == left:
		op, ok = flip[be.Op]
	}
	return op, ok && op != ""
}

func returnsFalse(f *hc.Facts, body []ast.Stmt) bool {
	return len(body) == 1 && flat(f.Src(body[0])) == "return false"
}

// consumeShape reads the structure of proto.MessageIDBuf.Consume that the model interprets:
//   - how the running minimum is initialised (first slot / zero values),
//   - the tests inside the scan loop, in order: 0 = "equal to newID → return false",
//     1 = "slot < minimum → remember slot" (2 with <=), 9 = anything else; and whether they are
//     independent ifs or the cases of one switch (first match wins),
//   - the final "lower than all stored" test (< or <=), the write-back into the minimum slot,
//   - the lock scope.
func consumeShape(f *hc.Facts) {
	fd := f.FuncDecl("proto", "MessageIDBuf.Consume")
	bad := func(why string) {
		for _, n := range []string{"consumeInitFirst", "consumeExclusive", "consumeItems", "consumeTailStrict", "consumeWritesMinSlot", "consumeLocked"} {
			f.Missing(n, "proto.MessageIDBuf.Consume: "+why)
		}
	}
	if fd == nil || fd.Body == nil || fd.Type.Params == nil || len(fd.Type.Params.List) != 1 || len(fd.Type.Params.List[0].Names) != 1 {
		bad("not found")
		return
	}
	newID := fd.Type.Params.List[0].Names[0].Name
	var loop *ast.RangeStmt
	loopAt := -1
	for i, st := range fd.Body.List {
		if rs, ok := st.(*ast.RangeStmt); ok && flat(f.Src(rs.X)) == "b.buf" {
			loop, loopAt = rs, i
			break
		}
	}
	if loop == nil || loop.Key == nil || loop.Value == nil {
		bad("no `for i, id := range b.buf` loop")
		return
	}
	idx, val := f.Src(loop.Key), f.Src(loop.Value)
	// classify the tests of the loop body
	type test struct {
		cond ast.Expr
		body []ast.Stmt
	}
	var tests []test
	exclusive := false
	for _, st := range loop.Body.List {
		switch x := st.(type) {
		case *ast.IfStmt:
			if x.Else != nil || x.Init != nil {
				tests = append(tests, test{nil, nil})
				continue
			}
			tests = append(tests, test{x.Cond, x.Body.List})
		case *ast.SwitchStmt:
			if x.Tag != nil || x.Init != nil || len(loop.Body.List) != 1 {
				tests = append(tests, test{nil, nil})
				continue
			}
			exclusive = true
			for _, cc := range x.Body.List {
				c := cc.(*ast.CaseClause)
				if len(c.List) != 1 {
					tests = append(tests, test{nil, nil})
					continue
				}
				tests = append(tests, test{c.List[0], c.Body})
			}
		default:
			tests = append(tests, test{nil, nil})
		}
	}
	minVar, minIdxVar := "", ""
	var items []string
	for _, t := range tests {
		kind := "9"
		if t.cond != nil {
			if op, ok := cmp(f, t.cond, val, newID); ok && op == "==" && returnsFalse(f, t.body) {
				kind = "0"
			} else if be, ok := t.cond.(*ast.BinaryExpr); ok {
				// slot compared with some variable M; body assigns idxVar = i and M = id
				other := flat(f.Src(be.Y))
				if other == val {
					other = flat(f.Src(be.X))
				}
				if op, ok := cmp(f, t.cond, val, other); ok && (op == "<" || op == "<=") && other != newID {
					assigns := map[string]string{}
					okBody := true
					for _, b := range t.body {
						as, isA := b.(*ast.AssignStmt)
						if !isA || as.Tok != token.ASSIGN || len(as.Lhs) != len(as.Rhs) {
							okBody = false
							break
						}
						for k := range as.Lhs {
							assigns[flat(f.Src(as.Lhs[k]))] = flat(f.Src(as.Rhs[k]))
						}
					}
					if okBody && len(assigns) == 2 && assigns[other] == val {
						for k, v := range assigns {
							if k != other && v == idx {
								minVar, minIdxVar = other, k
								kind = map[string]string{"<": "1", "<=": "2"}[op]
							}
						}
					}
				}
			}
		}
		items = append(items, kind)
	}
	if minVar == "" {
		bad("no running-minimum update found in the loop")
		return
	}
	// initialisation before the loop
	initFirst, initKnown := false, false
	vals := map[string]string{}
	for _, st := range fd.Body.List[:loopAt] {
		switch x := st.(type) {
		case *ast.AssignStmt:
			if len(x.Lhs) == len(x.Rhs) {
				for k := range x.Lhs {
					vals[flat(f.Src(x.Lhs[k]))] = flat(f.Src(x.Rhs[k]))
				}
			}
		case *ast.DeclStmt:
			if gd, ok := x.Decl.(*ast.GenDecl); ok && gd.Tok == token.VAR {
				for _, sp := range gd.Specs {
					vs := sp.(*ast.ValueSpec)
					for k, n := range vs.Names {
						if k < len(vs.Values) {
							vals[n.Name] = flat(f.Src(vs.Values[k]))
						} else {
							vals[n.Name] = "0"
						}
					}
				}
			}
		}
	}
	switch {
	case vals[minVar] == "b.buf[0]" && vals[minIdxVar] == "0":
		initFirst, initKnown = true, true
	case vals[minVar] == "0" && vals[minIdxVar] == "0":
		initFirst, initKnown = false, true
	}
	if !initKnown {
		bad("initialisation of " + minVar + "/" + minIdxVar + " not recognised")
		return
	}
	// after the loop: the lower-than-all test, the write-back, return true
	tail := fd.Body.List[loopAt+1:]
	tailOp, writes, retTrue := "", false, false
	for _, st := range tail {
		switch x := st.(type) {
		case *ast.IfStmt:
			if op, ok := cmp(f, x.Cond, newID, minVar); ok && x.Else == nil && returnsFalse(f, x.Body.List) && (op == "<" || op == "<=") && !writes {
				tailOp = op
			} else {
				tailOp = "?"
			}
		case *ast.AssignStmt:
			if flat(f.Src(x)) == "b.buf["+minIdxVar+"] = "+newID {
				writes = true
			}
		case *ast.ReturnStmt:
			retTrue = flat(f.Src(x)) == "return true" && writes
		}
	}
	if tailOp != "<" && tailOp != "<=" {
		bad("final `newID < minimum` test not recognised")
		return
	}
	f.Bool("consumeInitFirst", initFirst, "the running minimum starts from (0, b.buf[0]) (false: from zero values)")
	f.Bool("consumeExclusive", exclusive, "the loop's tests are cases of one switch (first match wins) rather than independent ifs")
	f.Raw("def consumeItems : List Nat := [" + strings.Join(items, ", ") + "] -- loop tests in order: 0 equal→return false, 1 slot<min→remember, 2 slot<=min→remember, 9 other")
	f.Bool("consumeTailStrict", tailOp == "<", "after the loop: `if newID < min { return false }` (false: <=)")
	f.Bool("consumeWritesMinSlot", writes && retTrue, "then b.buf[minIdx] = newID; return true")
	f.Bool("consumeLocked", f.LockCovers(fd, "b.mux", "b.buf"), "every use of b.buf is inside the b.mux critical section")
}

func facts(f *hc.Facts) {
	f.Const("messageIDModulo", "proto", "messageIDModulo")
	f.Const("yieldServerResponse", "proto", "yieldServerResponse")
	f.Const("yieldFromServer", "proto", "yieldFromServer")

	// size of the replay buffer created in mtproto.New
	size := ""
	if fd := f.FuncDecl("mtproto", "New"); fd != nil {
		ast.Inspect(fd.Body, func(n ast.Node) bool {
			if ce, ok := n.(*ast.CallExpr); ok && f.Src(ce.Fun) == "proto.NewMessageIDBuf" && len(ce.Args) == 1 {
				if lit, ok := ce.Args[0].(*ast.BasicLit); ok {
					size = lit.Value
				}
			}
			return true
		})
	}
	if _, err := strconv.Atoi(size); err == nil {
		f.Raw("def bufSize : Nat := " + size + " -- proto.NewMessageIDBuf(<n>) in mtproto.New")
	} else {
		f.Missing("bufSize", "proto.NewMessageIDBuf(literal) not found in mtproto.New")
	}

	// upper padding bound inside crypto.Cipher.Decrypt (interface; owned by C04/C05)
	maxPad := ""
	if fd := f.FuncDecl("crypto", "Cipher.Decrypt"); fd != nil {
		ast.Inspect(fd.Body, func(n ast.Node) bool {
			if gd, ok := n.(*ast.GenDecl); ok && gd.Tok == token.CONST {
				for _, s := range gd.Specs {
					vs := s.(*ast.ValueSpec)
					for i, id := range vs.Names {
						if id.Name == "maxPadding" && i < len(vs.Values) {
							if lit, ok := vs.Values[i].(*ast.BasicLit); ok {
								maxPad = lit.Value
							}
						}
					}
				}
			}
			return true
		})
	}
	if _, err := strconv.Atoi(maxPad); err == nil {
		f.Raw("def maxPadding : Nat := " + maxPad + " -- const maxPadding in crypto.Cipher.Decrypt")
	} else {
		f.Missing("maxPadding", "const maxPadding not found in crypto.Cipher.Decrypt")
	}

	consumeShape(f)
	checkMessageIDShape(f)
	decryptMessageShape(f)
	acceptanceStateWriters(f)
}

// pkgFuncs parses the non-test, non-hook files of a package directory and returns its function
// declarations keyed by "Recv.Name" / "Name".
func pkgFuncs(f *hc.Facts, dir string) map[string]*ast.FuncDecl {
	out := map[string]*ast.FuncDecl{}
	ents, _ := os.ReadDir(filepath.Join(f.Repo, dir))
	fset := token.NewFileSet()
	for _, e := range ents {
		n := e.Name()
		if e.IsDir() || !strings.HasSuffix(n, ".go") || strings.HasSuffix(n, "_test.go") || strings.HasPrefix(n, "verif_") {
			continue
		}
		af, err := parser.ParseFile(fset, filepath.Join(f.Repo, dir, n), nil, 0)
		if err != nil {
			continue
		}
		for _, d := range af.Decls {
			fd, ok := d.(*ast.FuncDecl)
			if !ok || fd.Body == nil {
				continue
			}
			name := fd.Name.Name
			if fd.Recv != nil && len(fd.Recv.List) > 0 {
				t := fd.Recv.List[0].Type
				if st, ok := t.(*ast.StarExpr); ok {
					t = st.X
				}
				if id, ok := t.(*ast.Ident); ok {
					name = id.Name + "." + name
				}
			}
			out[name] = fd
		}
	}
	return out
}

// acceptanceStateWriters: "no handled message may weaken the acceptance state".  Which code can
// change the replay buffer at all: the methods of proto.MessageIDBuf that write b.buf, the
// methods of the MessageBuf interface, and every use of c.messageIDBuf in package mtproto
// (function:method called on it, or function:other for any other use such as a type assertion).
func acceptanceStateWriters(f *hc.Facts) {
	quote := func(xs []string) string {
		sort.Strings(xs)
		q := make([]string, len(xs))
		for i, x := range xs {
			q[i] = strconv.Quote(x)
		}
		return "[" + strings.Join(q, ", ") + "]"
	}
	src := func(n ast.Node) string {
		var b strings.Builder
		printer.Fprint(&b, token.NewFileSet(), n)
		return flat(b.String())
	}
	var writers []string
	for name, fd := range pkgFuncs(f, "proto") {
		if !strings.HasPrefix(name, "MessageIDBuf.") {
			continue
		}
		writes := false
		ast.Inspect(fd.Body, func(n ast.Node) bool {
			switch x := n.(type) {
			case *ast.AssignStmt:
				for _, l := range x.Lhs {
					if s := src(l); strings.HasPrefix(s, "b.buf") {
						writes = true
					}
				}
			case *ast.IncDecStmt:
				if strings.HasPrefix(src(x.X), "b.buf") {
					writes = true
				}
			case *ast.CallExpr: // copy(b.buf, …), clear(b.buf), append to it
				if fn := src(x.Fun); (fn == "copy" || fn == "clear") && len(x.Args) > 0 && strings.HasPrefix(src(x.Args[0]), "b.buf") {
					writes = true
				}
			}
			return true
		})
		if writes {
			writers = append(writers, strings.TrimPrefix(name, "MessageIDBuf."))
		}
	}
	f.Raw("def bufWriters : List String := " + quote(writers) + " -- methods of proto.MessageIDBuf that write b.buf")
	var uses []string
	for name, fd := range pkgFuncs(f, "mtproto") {
		short := name
		if i := strings.Index(short, "."); i >= 0 {
			short = short[i+1:]
		}
		var stack []ast.Node
		ast.Inspect(fd.Body, func(n ast.Node) bool {
			if n == nil {
				stack = stack[:len(stack)-1]
				return true
			}
			stack = append(stack, n)
			se, ok := n.(*ast.SelectorExpr)
			if !ok || se.Sel.Name != "messageIDBuf" {
				return true
			}
			use := "other"
			if len(stack) >= 3 {
				if m, ok := stack[len(stack)-2].(*ast.SelectorExpr); ok && m.X == se {
					if ce, ok := stack[len(stack)-3].(*ast.CallExpr); ok && ce.Fun == m {
						use = m.Sel.Name
					}
				}
			}
			uses = append(uses, short+":"+use)
			return true
		})
	}
	f.Raw("def bufUses : List String := " + quote(uses) + " -- every use of <conn>.messageIDBuf in package mtproto: function:method (or function:other)")
	// the interface the connection sees
	var methods []string
	fset := token.NewFileSet()
	if af, err := parser.ParseFile(fset, filepath.Join(f.Repo, "mtproto", "conn.go"), nil, 0); err == nil {
		ast.Inspect(af, func(n ast.Node) bool {
			ts, ok := n.(*ast.TypeSpec)
			if !ok || ts.Name.Name != "MessageBuf" {
				return true
			}
			if it, ok := ts.Type.(*ast.InterfaceType); ok {
				for _, m := range it.Methods.List {
					for _, nm := range m.Names {
						methods = append(methods, nm.Name)
					}
					if len(m.Names) == 0 {
						methods = append(methods, "embedded:"+src(m.Type))
					}
				}
			}
			return false
		})
	}
	f.Raw("def messageBufMethods : List String := " + quote(methods) + " -- methods of interface mtproto.MessageBuf")
	// message handlers must not touch the session id or the key either
	var touch []string
	for name, fd := range pkgFuncs(f, "mtproto") {
		short := name
		if i := strings.Index(short, "."); i >= 0 {
			short = short[i+1:]
		}
		if !strings.HasPrefix(short, "handle") || short == "handleAuthKeyNotFound" || short == "handleClose" {
			continue
		}
		ast.Inspect(fd.Body, func(n ast.Node) bool {
			if se, ok := n.(*ast.SelectorExpr); ok {
				switch se.Sel.Name {
				case "sessionID", "authKey", "permKey", "messageIDBuf":
					if id, ok := se.X.(*ast.Ident); ok && id.Name == "c" {
						touch = append(touch, short+":"+se.Sel.Name)
					}
				}
			}
			return true
		})
	}
	f.Raw("def handlersTouchingAcceptanceState : List String := " + quote(touch) + " -- handle* functions that mention c.sessionID / c.authKey / c.permKey / c.messageIDBuf")
}

// checkMessageIDShape: which id types pass, and the two time comparisons with their operator and
// bound (the model interprets them).
func checkMessageIDShape(f *hc.Facts) {
	fd := f.FuncDecl("mtproto", "checkMessageID")
	names := []string{"acceptedYields", "pastGuarded", "pastStrict", "pastLimitNs", "futureStrict", "futureLimitNs"}
	bad := func(why string) {
		for _, n := range names {
			f.Missing(n, "mtproto.checkMessageID: "+why)
		}
	}
	if fd == nil || fd.Body == nil {
		bad("not found")
		return
	}
	// yield → type table of proto.MessageID.Type
	yieldOfType := map[string]string{}
	if tf := f.FuncDecl("proto", "MessageID.Type"); tf != nil {
		ast.Inspect(tf.Body, func(n ast.Node) bool {
			cc, ok := n.(*ast.CaseClause)
			if !ok || len(cc.List) != 1 || len(cc.Body) != 1 {
				return true
			}
			if rs, ok := cc.Body[0].(*ast.ReturnStmt); ok && len(rs.Results) == 1 {
				if v, ok := f.ConstInt("proto", f.Src(cc.List[0])); ok {
					yieldOfType[f.Src(rs.Results[0])] = v
				}
			}
			return true
		})
	}
	var yields []string
	typesOK := false
	var past, future *ast.IfStmt
	for _, st := range fd.Body.List {
		switch x := st.(type) {
		case *ast.SwitchStmt:
			if flat(f.Src(x.Tag)) != "id.Type()" {
				continue
			}
			def := false
			for _, c := range x.Body.List {
				cc := c.(*ast.CaseClause)
				if cc.List == nil { // default must reject
					def = len(cc.Body) == 1 && strings.HasPrefix(flat(f.Src(cc.Body[0])), "return errors.Wrapf(errRejected")
					continue
				}
				if len(cc.Body) != 0 {
					def = false
					break
				}
				for _, e := range cc.List {
					y, ok := yieldOfType[strings.TrimPrefix(f.Src(e), "proto.")]
					if !ok {
						bad("unknown type " + f.Src(e))
						return
					}
					yields = append(yields, y)
				}
			}
			typesOK = def
		case *ast.IfStmt:
			s := f.Src(x.Cond)
			rejects := len(x.Body.List) == 1 && strings.HasPrefix(flat(f.Src(x.Body.List[0])), "return errors.Wrap(errRejected")
			if !rejects {
				continue
			}
			if strings.Contains(s, "maxPast") {
				past = x
			} else if strings.Contains(s, "maxFuture") {
				future = x
			}
		}
	}
	if !typesOK || past == nil || future == nil {
		bad("type switch / time tests not recognised")
		return
	}
	sort.Strings(yields)
	// past: [created.Before(now) &&] now.Sub(created) OP maxPast
	guarded := false
	pc := past.Cond
	if be, ok := pc.(*ast.BinaryExpr); ok && be.Op == token.LAND {
		if flat(f.Src(be.X)) == "created.Before(now)" {
			guarded, pc = true, be.Y
		} else if flat(f.Src(be.Y)) == "created.Before(now)" {
			guarded, pc = true, be.X
		}
	}
	pop, ok1 := cmp(f, pc, "now.Sub(created)", "maxPast")
	fop, ok2 := cmp(f, future.Cond, "created.Sub(now)", "maxFuture")
	pl, ok3 := f.ConstInt("mtproto", "maxPast")
	fl, ok4 := f.ConstInt("mtproto", "maxFuture")
	if !ok1 || !ok2 || !ok3 || !ok4 || (pop != ">" && pop != ">=") || (fop != ">" && fop != ">=") {
		bad("time comparison not recognised")
		return
	}
	f.Raw("def acceptedYields : List Int := [" + strings.Join(yields, ", ") + "] -- id % 4 values whose MessageID.Type() passes the switch of checkMessageID")
	f.Bool("pastGuarded", guarded, "the past test is guarded by created.Before(now)")
	f.Bool("pastStrict", pop == ">", "rejected if now.Sub(created) > maxPast (false: >=)")
	f.Raw("def pastLimitNs : Int := " + pl + " -- mtproto.maxPast")
	f.Bool("futureStrict", fop == ">", "rejected if created.Sub(now) > maxFuture (false: >=)")
	f.Raw("def futureLimitNs : Int := " + fl + " -- mtproto.maxFuture")
}

// decryptMessageShape: the order of the checks of Conn.decryptMessage (0 decrypt, 1 session id,
// 2 message id, 3 replay buffer, 9 other) and how consumeMessage treats the outcome.
func decryptMessageShape(f *hc.Facts) {
	fd := f.FuncDecl("mtproto", "Conn.decryptMessage")
	if fd == nil || fd.Body == nil {
		f.Missing("decryptOrder", "Conn.decryptMessage not found")
	} else {
		var order []string
		rejectsAll := true
		for _, st := range fd.Body.List {
			switch x := st.(type) {
			case *ast.AssignStmt:
				if strings.Contains(f.Src(x), "c.cipher.DecryptFromBuffer(session.Key, b)") {
					order = append(order, "0")
				}
			case *ast.IfStmt:
				src := flat(f.Src(x.Cond))
				if x.Init != nil {
					src = flat(f.Src(x.Init)) + "; " + src
				}
				last := ""
				if n := len(x.Body.List); n > 0 {
					last = flat(f.Src(x.Body.List[n-1]))
				}
				switch {
				case src == "err != nil" && len(order) > 0 && order[len(order)-1] == "0":
					// the error test belonging to the decryption
				case src == "msg.SessionID != session.ID":
					order = append(order, "1")
					rejectsAll = rejectsAll && strings.HasPrefix(last, "return nil, errors.Wrapf(errRejected")
				case src == "err := checkMessageID(c.clock.Now(), msg.MessageID); err != nil":
					order = append(order, "2")
					rejectsAll = rejectsAll && strings.HasPrefix(last, "return nil, errors.Wrapf(err,")
				case src == "!c.messageIDBuf.Consume(msg.MessageID)":
					order = append(order, "3")
					rejectsAll = rejectsAll && strings.HasPrefix(last, "return nil, errors.Wrapf(errRejected")
				default:
					order = append(order, "9")
				}
			}
		}
		f.Raw("def decryptOrder : List Nat := [" + strings.Join(order, ", ") + "] -- checks of Conn.decryptMessage in order: 0 decrypt, 1 session id, 2 message id, 3 replay buffer, 9 other")
		f.Bool("decryptChecksReject", rejectsAll, "each failing check returns (nil, an error wrapping errRejected)")
	}
	// consumeMessage: rejected → return nil before handleMessage; other errors → returned
	cm := f.FuncDecl("mtproto", "Conn.consumeMessage")
	early, fatal, handleAfter := false, false, false
	if cm != nil && cm.Body != nil {
		stage := 0
		for _, st := range cm.Body.List {
			src := flat(f.Src(st))
			switch {
			case stage == 0 && strings.HasPrefix(src, "msg, err := c.decryptMessage(buf)"):
				stage = 1
			case stage >= 1 && strings.HasPrefix(src, "if errors.Is(err, errRejected) {"):
				if is := st.(*ast.IfStmt); len(is.Body.List) > 0 && flat(f.Src(is.Body.List[len(is.Body.List)-1])) == "return nil" {
					early = true
				}
			case stage >= 1 && strings.HasPrefix(src, "if err != nil {"):
				if is := st.(*ast.IfStmt); len(is.Body.List) > 0 && strings.HasPrefix(flat(f.Src(is.Body.List[len(is.Body.List)-1])), "return errors.Wrap(err") {
					fatal = true
				}
			case strings.Contains(src, "c.handleMessage(msg.MessageID"):
				handleAfter = early && fatal
			}
		}
	}
	f.Bool("rejectedReturnsBeforeHandle", early && handleAfter, "consumeMessage: a rejected message returns nil before handleMessage")
	f.Bool("otherErrorsAreFatal", fatal, "consumeMessage: any other decrypt error is returned (the read loop halts)")
}

// ---------------------------------------------------------------------------------- (i) replay buffer

// window is the specification of the replay window: the N largest accepted ids.
type window struct {
	n      int
	stored []int64 // ascending
}

func (w *window) verdict(id int64) bool {
	for _, s := range w.stored {
		if s == id {
			return false
		}
	}
	if len(w.stored) == w.n && id < w.stored[0] {
		return false
	}
	return true
}

func (w *window) add(id int64) {
	w.stored = append(w.stored, id)
	sort.Slice(w.stored, func(i, j int) bool { return w.stored[i] < w.stored[j] })
	if len(w.stored) > w.n {
		w.stored = w.stored[1:]
	}
}

func bits(vs []bool) string {
	if len(vs) == 0 {
		return "-"
	}
	b := make([]byte, len(vs))
	for i, v := range vs {
		b[i] = '0'
		if v {
			b[i] = '1'
		}
	}
	return string(b)
}

func bufLine(n int, ids []int64) string {
	var b strings.Builder
	fmt.Fprintf(&b, "buf %d", n)
	for _, id := range ids {
		fmt.Fprintf(&b, " %d", id)
	}
	return b.String()
}

// runBuf feeds a history to the real MessageIDBuf; for positive ids the verdicts are checked
// against the specification of the replay window.
func runBuf(c *hc.Ctx, n int, ids []int64, monitor bool) []bool {
	line := bufLine(n, ids)
	b := proto.NewMessageIDBuf(n)
	w := &window{n: n}
	out := make([]bool, len(ids))
	failed := false
	for i, id := range ids {
		got := b.Consume(id)
		out[i] = got
		if !monitor || failed {
			continue
		}
		want := w.verdict(id)
		if got && !want {
			failed = true
			c.Fail("buf-replay-accepted", line, fmt.Sprintf("op %d: Consume(%d) = true, but the id is a replay (stored window %v of N=%d)", i, id, w.stored, n))
		} else if !got && want {
			failed = true
			c.Fail("buf-fresh-rejected", line, fmt.Sprintf("op %d: Consume(%d) = false, but the id is fresh (stored window %v of N=%d)", i, id, w.stored, n))
		}
		if want {
			w.add(id)
		}
	}
	return out
}

func parseBufLine(line string) (int, []int64, bool) {
	ws := strings.Fields(line)
	if len(ws) < 2 || ws[0] != "buf" {
		return 0, nil, false
	}
	n, err := strconv.Atoi(ws[1])
	if err != nil || n < 1 {
		return 0, nil, false
	}
	var ids []int64
	for _, w := range ws[2:] {
		v, err := strconv.ParseInt(w, 10, 64)
		if err != nil {
			return 0, nil, false
		}
		ids = append(ids, v)
	}
	return n, ids, true
}

// ---------------------------------------------------------------------------------- (ii) checkMessageID

const sec = int64(1_000_000_000)

// idAt returns the id whose MessageID.Time() is exactly t (unix ns, fraction < 2^31 ns).
func idAt(t int64) int64 {
	s, f := t/sec, t%sec
	if f < 0 {
		s, f = s-1, f+sec
	}
	return s<<32 | f
}

func idTimeOf(id int64) int64 { return (id>>32)*sec + int64(int32(id)) }

// fresh is the statement's condition on the id alone.
func fresh(now, id int64) (ok bool, why string) {
	if m := id % 4; m != 1 && m != 3 {
		return false, "bad-type"
	}
	created := idTimeOf(id)
	if now-created > 300*sec {
		return false, "too-old"
	}
	if created-now > 30*sec {
		return false, "too-new"
	}
	return true, ""
}

func genNow(r *hc.RNG) int64 {
	return int64(r.Range(1_500_000_000, 2_100_000_000))*sec + int64(r.Intn(int(sec)))
}

// genID picks an id relative to `now`: on and around the window boundaries, all four types.
func genID(r *hc.RNG, now int64) int64 {
	switch r.Intn(10) {
	case 0: // arbitrary bits
		return int64(r.U64())
	case 1: // arbitrary non-negative, fraction possibly ≥ 2^31 (negative int32 nanoseconds)
		return int64(r.U64() >> 1)
	case 2, 3: // past boundary
		return idAt(now - 300*sec + int64(r.Range(-6, 6)))
	case 4, 5: // future boundary
		return idAt(now + 30*sec + int64(r.Range(-6, 6)))
	case 6: // inside
		return idAt(now + int64(r.Range(-299, 29))*sec + int64(r.Intn(int(sec))))
	case 7: // near now
		return idAt(now + int64(r.Range(-8, 8)))
	case 8: // far
		return idAt(now + int64(hc.Pick(r, -1, 1))*int64(r.Range(31, 100000))*sec)
	}
	// high 32 bits right, low 32 bits with the sign bit set
	return (now/sec)<<32 | int64(uint32(r.U64())|0x80000000)
}

// ---------------------------------------------------------------------------------- (iii) frames

type frame struct {
	now     int64
	keyKind int // 0 ok; 1 other auth key; 2 msg_key bit flipped; 3 ciphertext bit flipped; 4 encrypted as a client (reflection)
	session int64
	msgID   int64
	seqNo   int32
	dataLen int // declared MessageDataLen
	padding int // bytes after the data
	shortPadProbe bool
}

func (f frame) String() string {
	k := 0
	if f.keyKind == 0 {
		k = 1
	}
	return fmt.Sprintf("%d,%d,%d,%d,%d,%d,%d", f.now, k, f.session, f.msgID, f.seqNo, f.dataLen, f.padding)
}

const probeTypeID = 0xfeed0000 // not handled by handleMessage's switch → Handler.OnMessage

// encode builds the wire bytes of a frame. counter is placed in the payload to identify it.
func (f frame) encode(r *hc.RNG, key, otherKey crypto.AuthKey, counter uint32) []byte {
	var p bin.Buffer
	p.PutLong(int64(r.U64())) // salt
	p.PutLong(f.session)
	p.PutLong(f.msgID)
	p.PutInt32(f.seqNo)
	p.PutInt32(int32(f.dataLen))
	body := make([]byte, f.dataLen+f.padding)
	r.Read(body)
	if len(body) >= 8 {
		var h bin.Buffer
		h.PutUint32(probeTypeID)
		h.PutUint32(counter)
		copy(body, h.Buf)
	}
	p.Put(body)
	k, side := key, crypto.Server
	if f.keyKind == 1 {
		k = otherKey
	}
	if f.keyKind == 4 {
		side = crypto.Client
	}
	msgKey := crypto.MessageKey(k.Value, p.Buf, side)
	aesKey, iv := crypto.Keys(k.Value, msgKey, side)
	block, err := aes.NewCipher(aesKey[:])
	if err != nil {
		panic(err)
	}
	enc := make([]byte, len(p.Buf))
	ige.EncryptBlocks(block, iv[:], enc, p.Buf)
	if f.keyKind == 2 {
		msgKey[r.Intn(16)] ^= 1 << r.Intn(8)
	}
	if f.keyKind == 3 {
		enc[r.Intn(len(enc))] ^= 1 << r.Intn(8)
	}
	var out bin.Buffer
	if err := (crypto.EncryptedMessage{AuthKeyID: k.ID, MsgKey: msgKey, EncryptedData: enc}).Encode(&out); err != nil {
		panic(err)
	}
	return out.Buf
}

type recorder struct {
	mu       sync.Mutex
	calls    []uint32
	sessions int
}

func (h *recorder) OnMessage(b *bin.Buffer) error {
	id, _ := b.Uint32()
	ctr, _ := b.Uint32()
	h.mu.Lock()
	if id == probeTypeID {
		h.calls = append(h.calls, ctr)
	} else {
		h.calls = append(h.calls, 0xffffffff)
	}
	h.mu.Unlock()
	return nil
}
func (h *recorder) OnSession(mtproto.Session) error {
	h.mu.Lock()
	h.sessions++
	h.mu.Unlock()
	return nil
}

func (h *recorder) takeSessions() int {
	h.mu.Lock()
	defer h.mu.Unlock()
	n := h.sessions
	h.sessions = 0
	return n
}
func (h *recorder) take() []uint32 {
	h.mu.Lock()
	defer h.mu.Unlock()
	c := h.calls
	h.calls = nil
	return c
}

func randKey(r *hc.RNG) crypto.AuthKey {
	var k crypto.Key
	r.Read(k[:])
	return k.WithID()
}

// lengths of data/padding such that 32+data+padding is a multiple of 16
func genLens(r *hc.RNG) (dataLen, padding int, class string) {
	switch r.Intn(20) {
	case 0: // padding above the upper bound
		dataLen = 16 * r.Range(1, 4)
		padding = hc.Pick(r, 1040, 1056, 2048)
		return dataLen, padding, "pad>1024"
	case 1: // exactly the bounds
		if r.Bool() {
			return 16 * r.Range(1, 4), 1024, "pad=1024"
		}
		return 16*r.Range(1, 4) + 4, 12, "pad=12"
	case 2: // declared length not divisible by 4 (8 ≤ len so that a handler call would be visible)
		dataLen = hc.Pick(r, 9, 10, 11, 13, 14, 15, 17, 18, 19, 21, 22, 23)
		padding = 16 + (16-(dataLen%16))%16
		for padding < 12 {
			padding += 16
		}
		return dataLen, padding, "len%4!=0"
	case 3: // just above / far below the top
		dataLen = 16*r.Range(1, 4) + 12
		return dataLen, 1028 - 0, "pad=1028"
	}
	dataLen = 4 * r.Range(2, 40)
	padding = (16 - (dataLen % 16)) % 16
	if padding < 12 {
		padding += 16
	}
	padding += 16 * hc.Pick(r, 0, 0, 0, 1, 2, 15, 60, 62)
	if padding > 1024 {
		padding -= 16 * 4
	}
	return dataLen, padding, "pad-ok"
}

// expected decides by the property's statement whether a frame may be processed; w is the replay
// window of the accepted ids so far.
func expected(f frame, session int64, w *window) (ok bool, why string) {
	switch {
	case f.keyKind != 0:
		return false, "bad-key"
	case f.dataLen%4 != 0:
		return false, "len-not-mod4"
	case f.padding < 12:
		return false, "short-padding"
	case f.padding > 1024:
		return false, "long-padding"
	case f.session != session:
		return false, "wrong-session"
	}
	if ok, why := fresh(f.now, f.msgID); !ok {
		return false, why
	}
	if !w.verdict(f.msgID) {
		return false, "replay"
	}
	return true, ""
}

// runFrames drives one connection through a frame sequence; returns the per-frame observation
// ("-" dropped, "h" handled, "H" handled and acknowledged) and applies the monitor.
func runFrames(c *hc.Ctx, r *hc.RNG, session int64, n int, frames []frame, line string) []string {
	key, other := randKey(r), randKey(r)
	clk := neo.NewTime(time.Unix(0, 0))
	rec := &recorder{}
	conn := mtproto.VerifC07NewConn(mtproto.Options{
		Clock:   clk,
		Random:  r,
		Key:     key,
		Handler: rec,
		Cipher:  crypto.NewClientCipher(r),
	}, session, n, len(frames)+1)
	defer mtproto.VerifC07Close(conn)
	w := &window{n: n}
	out := make([]string, len(frames))
	failed := false
	for i, f := range frames {
		clk.Set(time.Unix(0, f.now))
		wire := f.encode(r, key, other, uint32(i+1))
		var err error
		func() {
			defer func() {
				if p := recover(); p != nil {
					err = fmt.Errorf("panic: %v", p)
					c.Fail("frame-panic", line, fmt.Sprintf("frame %d (%s): %v", i, f, p))
				}
			}()
			err = mtproto.VerifC07ConsumeMessage(context.Background(), conn, &bin.Buffer{Buf: wire})
		}()
		calls := rec.take()
		acks := mtproto.VerifC07Acks(conn)
		handled := len(calls) > 0
		o := "-"
		if handled {
			o = "h"
		}
		if len(acks) > 0 {
			o = "H"
			if !handled {
				o = "A" // acknowledged without a handler call
			}
		}
		out[i] = o
		if failed {
			continue
		}
		ok, why := expected(f, session, w)
		if ok {
			w.add(f.msgID)
		}
		if !ok && o != "-" {
			failed = true
			c.Fail("frame-accepted-"+why, line, fmt.Sprintf("frame %d (%s) must be dropped (%s) but was processed: handler calls %v, acks %v, err=%v", i, f, why, calls, acks, err))
		}
		if handled && (len(calls) != 1 || calls[0] != uint32(i+1)) {
			failed = true
			c.Fail("frame-handler-mismatch", line, fmt.Sprintf("frame %d: handler calls %v", i, calls))
		}
	}
	return out
}

func genFrames(r *hc.RNG, session int64, n int, count int) ([]frame, map[string]int) {
	dist := map[string]int{}
	now := genNow(r)
	var frames []frame
	var sent []int64 // ids of earlier well-formed frames
	for i := 0; i < count; i++ {
		if r.Chance(70) {
			now += int64(r.Intn(3 * int(sec))) // time passes
		} else if r.Chance(10) {
			now += int64(r.Range(10, 400)) * sec
		}
		f := frame{now: now, session: session, seqNo: int32(r.Intn(1 << 20))}
		var class string
		f.dataLen, f.padding, class = genLens(r)
		dist["frame.len."+class]++
		// id
		switch k := r.Intn(12); {
		case k < 4 && len(sent) > 0: // replay / neighbourhood of an earlier id
			f.msgID = sent[r.Intn(len(sent))]
			if r.Chance(30) {
				f.msgID += 4 * int64(r.Range(-3, 3))
			}
			dist["frame.id.replay-or-near"]++
		case k < 6:
			f.msgID = genID(r, now)
			dist["frame.id.boundary/any"]++
		default: // fresh, server typed, near now — increasing or slightly out of order
			t := now + int64(r.Range(-20, 5))*sec + int64(r.Intn(int(sec)))
			id := idAt(t)&^3 | hc.Pick(r, int64(1), int64(3))
			f.msgID = id
			dist["frame.id.fresh"]++
		}
		switch k := r.Intn(20); k {
		case 0:
			f.session = hc.Pick(r, session+1, session-1, 0, int64(r.U64()), ^session)
			dist["frame.wrong-session"]++
		case 1:
			f.keyKind = r.Range(1, 4)
			dist[fmt.Sprintf("frame.keykind=%d", f.keyKind)]++
		}
		frames = append(frames, f)
		sent = append(sent, f.msgID)
	}
	return frames, dist
}

// ---------------------------------------------------------------------------------- (iv) the read loop, through Run

// loopTransport feeds server frames to Conn.readLoop and swallows what the client writes (only
// the session id of the first written frame is needed).
type loopTransport struct {
	key     crypto.AuthKey
	dec     crypto.Cipher
	in      chan []byte
	session chan int64
	once    sync.Once
}

func (t *loopTransport) Send(ctx context.Context, b *bin.Buffer) error {
	t.once.Do(func() {
		cp := &bin.Buffer{Buf: append([]byte{}, b.Buf...)}
		if d, err := t.dec.DecryptFromBuffer(t.key, cp); err == nil {
			t.session <- d.SessionID
		} else {
			t.session <- 0
		}
	})
	return nil
}

func (t *loopTransport) Recv(ctx context.Context, b *bin.Buffer) error {
	select {
	case f := <-t.in:
		b.ResetTo(f)
		return nil
	case <-ctx.Done():
		return ctx.Err()
	}
}
func (t *loopTransport) Close() error { return nil }

var _ transport.Conn = (*loopTransport)(nil)

// watchdog is generous and grows with the machine's load: nothing here is a timing assertion.
func watchdog() time.Duration {
	d := 90 * time.Second
	if b, err := os.ReadFile("/proc/loadavg"); err == nil {
		if f := strings.Fields(string(b)); len(f) > 0 {
			if l, err := strconv.ParseFloat(f[0], 64); err == nil && l > 32 {
				d += time.Duration(l/32) * 60 * time.Second
			}
		}
	}
	return d
}

type loopFrame struct {
	f     frame
	bad      string // "" = must be handled (once per id); otherwise why it must be dropped
	fatal    bool   // does not decrypt: consumeMessage returns an error, the read loop halts
	optional bool   // valid, but sent after the fatal frame: may or may not be handled before the loop halts
}

type loopOutcome struct {
	input    string
	handled  map[uint32]int // frame number → handler calls
	runEnded bool
	runErr   error
	herr     error
}

// runReadLoop starts a connection with the public New/Run, delivers `frames` as fast as the read
// loop takes them (each is handled in its own goroutine), and reports which reached the handler.
// If `endsFatal`, the last frame is undecryptable and Run must end with an error.
func runReadLoop(seed uint64, kind string) (out loopOutcome, frames []loopFrame) {
	r := hc.NewRNG(seed)
	key, other := randKey(r), randKey(r)
	tr := &loopTransport{key: key, dec: crypto.NewServerCipher(r.Fork()), in: make(chan []byte, 1024), session: make(chan int64, 1)}
	rec := &recorder{}
	conn := mtproto.New(func(ctx context.Context) (transport.Conn, error) { return tr, nil }, mtproto.Options{
		Random: r.Fork(), Key: key, Cipher: crypto.NewClientCipher(r.Fork()), CompressThreshold: -1, Handler: rec,
		PingInterval: 10 * time.Millisecond, PingTimeout: 10 * time.Minute, AckInterval: 5 * time.Millisecond,
	})
	ctx, cancel := context.WithCancel(context.Background())
	defer cancel()
	runDone := make(chan error, 1)
	go func() {
		runDone <- conn.Run(ctx, func(ctx context.Context) error { <-ctx.Done(); return ctx.Err() })
	}()
	var session int64
	select {
	case session = <-tr.session:
	case err := <-runDone:
		out.herr = fmt.Errorf("Run ended before the first frame was written: %v", err)
		return
	case <-time.After(watchdog()):
		out.herr = fmt.Errorf("no frame written within the watchdog")
		return
	}
	// build the frames: ids relative to the real clock, well inside the window
	now := time.Now().UnixNano()
	nextID := func(k int) int64 { return idAt(now+int64(k)*1000)&^3 | hc.Pick(r, int64(1), int64(3)) }
	count := r.Range(5, 60)
	if kind == "burst" {
		count = r.Range(40, 90)
	}
	var valid []int64
	for k := 0; k < count; k++ {
		f := frame{now: now, session: session, seqNo: int32(r.Intn(1<<20)) * 2, msgID: nextID(k)}
		f.dataLen, f.padding = 4*r.Range(2, 10), 0
		f.padding = (16 - (f.dataLen % 16)) % 16
		if f.padding < 12 {
			f.padding += 16
		}
		lf := loopFrame{f: f}
		switch c := r.Intn(20); {
		case c < 3 && len(valid) > 0: // replay of an earlier valid id (maybe concurrently with it)
			lf.f.msgID = valid[r.Intn(len(valid))]
			lf.bad = "replay-candidate"
		case c == 3:
			lf.f.session = hc.Pick(r, session+1, 0, ^session)
			lf.bad = "wrong-session"
		case c == 4:
			lf.f.msgID = idAt(now-int64(r.Range(301, 900))*sec)&^3 | 1
			lf.bad = "too-old"
		case c == 5:
			lf.f.msgID = idAt(now+int64(r.Range(200, 900))*sec)&^3 | 3
			lf.bad = "too-new"
		case c == 6:
			lf.f.msgID = nextID(k)&^3 | hc.Pick(r, int64(0), int64(2))
			lf.bad = "bad-type"
		default:
			valid = append(valid, lf.f.msgID)
		}
		frames = append(frames, lf)
	}
	if kind == "fatal" {
		f := frame{now: now, session: session, seqNo: 2, msgID: nextID(count + 1), dataLen: 16, padding: 16}
		f.keyKind = hc.Pick(r, 1, 2, 3, 4)
		if r.Chance(25) {
			f.keyKind, f.padding = 0, 0 // decrypts, but no padding: rejected by the cipher
		}
		frames = append(frames, loopFrame{f: f, bad: "undecryptable", fatal: true})
		// the loop looks at the recorded error only before its next Recv: one more frame lets it notice
		t := frame{now: now, session: session, seqNo: 2, msgID: nextID(count + 2), dataLen: 16, padding: 16}
		frames = append(frames, loopFrame{f: t, optional: true})
	}
	var lb strings.Builder
	fmt.Fprintf(&lb, "readloop kind=%s session=%d", kind, session)
	for _, lf := range frames {
		lb.WriteString(" " + lf.f.String())
		if lf.bad != "" {
			lb.WriteString("!" + lf.bad)
		}
	}
	out.input = lb.String()
	for i, lf := range frames {
		tr.in <- lf.f.encode(r, key, other, uint32(i+1))
	}
	// wait until every frame that must be handled has been handled (or Run ended)
	out.handled = map[uint32]int{}
	want := map[int64]bool{}
	for _, v := range valid {
		want[v] = true
	}
	handledIDs := map[int64]int{}
	deadline := time.Now().Add(watchdog())
	collect := func() {
		for _, c := range rec.take() {
			out.handled[c]++
			if c >= 1 && int(c) <= len(frames) {
				handledIDs[frames[c-1].f.msgID]++
			}
		}
	}
	for time.Now().Before(deadline) {
		collect()
		missing := 0
		for id := range want {
			if handledIDs[id] == 0 {
				missing++
			}
		}
		if missing == 0 {
			break
		}
		select {
		case out.runErr = <-runDone:
			out.runEnded = true
			collect()
			deadline = time.Now()
		case <-time.After(2 * time.Millisecond):
		}
	}
	if kind == "fatal" && !out.runEnded {
		// keep traffic flowing (as pongs and updates would): the loop notices the error before a Recv
		fd := time.Now().Add(watchdog())
		for k := 0; time.Now().Before(fd) && !out.runEnded; k++ {
			t := frame{now: now, session: session, seqNo: 2, msgID: nextID(count + 10 + k), dataLen: 16, padding: 16}
			frames = append(frames, loopFrame{f: t, optional: true})
			select {
			case tr.in <- t.encode(r, key, other, uint32(len(frames))):
			default:
			}
			select {
			case out.runErr = <-runDone:
				out.runEnded = true
			case <-time.After(3 * time.Millisecond):
			}
		}
	}
	time.Sleep(20 * time.Millisecond) // late handler calls of frames that must be dropped would show up here
	collect()
	if !out.runEnded {
		// the connection must still be alive: one more valid frame gets through
		probe := frame{now: now, session: session, seqNo: 2, msgID: nextID(count + 5), dataLen: 16, padding: 16}
		frames = append(frames, loopFrame{f: probe})
		tr.in <- probe.encode(r, key, other, uint32(len(frames)))
		pd := time.Now().Add(watchdog())
		for time.Now().Before(pd) && out.handled[uint32(len(frames))] == 0 {
			select {
			case out.runErr = <-runDone:
				out.runEnded = true
				pd = time.Now()
			case <-time.After(2 * time.Millisecond):
			}
			collect()
		}
		cancel()
		if !out.runEnded {
			select {
			case <-runDone:
			case <-time.After(watchdog()):
				out.herr = fmt.Errorf("Run did not return after cancellation")
			}
		}
	}
	return
}

// ---------------------------------------------------------------------------------- (v) service messages and replays

// No handled message may weaken the acceptance state: histories that interleave every kind of
// message the connection handles itself with byte-for-byte replays of earlier frames (the service
// frames included).

var svcKinds = []string{"probe", "new_session_created", "bad_server_salt", "bad_msg_notification", "future_salts", "pong", "msgs_ack", "container", "gzip", "rpc_result", "msg_detailed_info"}

func tl(e bin.Encoder) []byte {
	var b bin.Buffer
	if err := e.Encode(&b); err != nil {
		panic(err)
	}
	return b.Buf
}

func probeBody(counter uint32) []byte {
	var h bin.Buffer
	h.PutUint32(probeTypeID)
	h.PutUint32(counter)
	return h.Buf
}

func svcPayload(r *hc.RNG, kind string, counter uint32, nowSec int) []byte {
	switch kind {
	case "new_session_created":
		return tl(&mt.NewSessionCreated{FirstMsgID: int64(r.U64() >> 2 << 2), UniqueID: int64(r.U64()), ServerSalt: int64(r.U64())})
	case "bad_server_salt":
		return tl(&mt.BadServerSalt{BadMsgID: int64(r.U64() >> 2 << 2), BadMsgSeqno: 1, ErrorCode: 48, NewServerSalt: int64(r.U64())})
	case "bad_msg_notification":
		return tl(&mt.BadMsgNotification{BadMsgID: int64(r.U64() >> 2 << 2), BadMsgSeqno: 1, ErrorCode: hc.Pick(r, 16, 17, 32, 33)})
	case "future_salts":
		return tl(&mt.FutureSalts{ReqMsgID: 4, Now: nowSec, Salts: []mt.FutureSalt{{ValidSince: nowSec, ValidUntil: nowSec + 3600, Salt: int64(r.U64())}}})
	case "pong":
		return tl(&mt.Pong{MsgID: 4, PingID: int64(r.U64())})
	case "msgs_ack":
		return tl(&mt.MsgsAck{MsgIDs: []int64{4, 8}})
	case "rpc_result":
		return tl(&proto.Result{RequestMessageID: int64(r.U64() >> 2 << 2), Result: tl(&mt.MsgsAck{MsgIDs: []int64{4}})})
	case "msg_detailed_info":
		return tl(&mt.MsgDetailedInfo{MsgID: 4, AnswerMsgID: 5, Bytes: 8, Status: 0})
	case "gzip":
		return tl(&proto.GZIP{Data: probeBody(counter)})
	case "container":
		var c proto.MessageContainer
		for k, n := 0, r.Range(1, 3); k < n; k++ {
			inner := hc.Pick(r, "probe", "new_session_created", "future_salts", "pong", "msgs_ack", "bad_server_salt")
			body := probeBody(counter)
			if inner != "probe" {
				body = svcPayload(r, inner, counter, nowSec)
			}
			c.Messages = append(c.Messages, proto.Message{ID: int64(r.U64()>>3<<2) | 1, SeqNo: 2 * k, Bytes: len(body), Body: body})
		}
		return tl(&c)
	}
	return probeBody(counter)
}

// sealFrame encrypts a payload as the server would (12..27 bytes of padding).
func sealFrame(r *hc.RNG, key crypto.AuthKey, session, msgID int64, seqNo int32, payload []byte) (wire []byte, padding int) {
	var p bin.Buffer
	p.PutLong(int64(r.U64()))
	p.PutLong(session)
	p.PutLong(msgID)
	p.PutInt32(seqNo)
	p.PutInt32(int32(len(payload)))
	p.Put(payload)
	padding = (16 - ((32 + len(payload)) % 16)) % 16
	if padding < 12 {
		padding += 16
	}
	pad := make([]byte, padding)
	r.Read(pad)
	p.Put(pad)
	msgKey := crypto.MessageKey(key.Value, p.Buf, crypto.Server)
	aesKey, iv := crypto.Keys(key.Value, msgKey, crypto.Server)
	block, err := aes.NewCipher(aesKey[:])
	if err != nil {
		panic(err)
	}
	enc := make([]byte, len(p.Buf))
	ige.EncryptBlocks(block, iv[:], enc, p.Buf)
	var out bin.Buffer
	if err := (crypto.EncryptedMessage{AuthKeyID: key.ID, MsgKey: msgKey, EncryptedData: enc}).Encode(&out); err != nil {
		panic(err)
	}
	return out.Buf, padding
}

type svcFrame struct {
	kind     string
	now      int64
	msgID    int64
	seqNo    int32
	dataLen  int
	padding  int
	wire     []byte
	replayOf int // index of the frame whose bytes are sent again, -1 for a new frame
}

// runService drives one connection through a history of service frames and replays.
func runService(c *hc.Ctx, r *hc.RNG) (line, impl string, nontrivial bool) {
	key := randKey(r)
	session := int64(r.U64())
	n := hc.Pick(r, 2, 3, 5, 100)
	clk := neo.NewTime(time.Unix(0, 0))
	rec := &recorder{}
	count := r.Range(4, 40)
	conn := mtproto.VerifC07NewConn(mtproto.Options{Clock: clk, Random: r, Key: key, Handler: rec, Cipher: crypto.NewClientCipher(r)}, session, n, count+1)
	defer mtproto.VerifC07Close(conn)
	now := genNow(r)
	var frames []svcFrame
	var lb strings.Builder
	fmt.Fprintf(&lb, "conn %d %d", session, n)
	var obs []byte
	w := &window{n: n}
	failed := false
	replays, services := 0, 0
	for i := 0; i < count; i++ {
		now += int64(r.Intn(2 * int(sec)))
		var f svcFrame
		if len(frames) > 0 && r.Chance(45) { // the very same bytes again
			j := len(frames) - 1 - r.Intn(min(len(frames), 4))
			if r.Chance(25) {
				j = r.Intn(len(frames))
			}
			f = frames[j]
			if f.replayOf < 0 {
				f.replayOf = j
			}
			f.now = now
			replays++
		} else {
			kind := hc.Pick(r, svcKinds...)
			if r.Chance(30) {
				kind = "new_session_created"
			}
			t := now + int64(r.Range(-20, 5))*sec + int64(r.Intn(int(sec)))
			f = svcFrame{kind: kind, now: now, replayOf: -1, msgID: idAt(t)&^3 | hc.Pick(r, int64(1), int64(3)), seqNo: int32(r.Intn(1<<20))*2 + 1}
			payload := svcPayload(r, kind, uint32(i+1), int(now/sec))
			f.dataLen = len(payload)
			f.wire, f.padding = sealFrame(r, key, session, f.msgID, f.seqNo, payload)
			if kind != "probe" {
				services++
			}
		}
		frames = append(frames, f)
		fmt.Fprintf(&lb, " %d,1,%d,%d,%d,%d,%d", f.now, session, f.msgID, f.seqNo, f.dataLen, f.padding)
		clk.Set(time.Unix(0, f.now))
		var err error
		func() {
			defer func() {
				if p := recover(); p != nil {
					err = fmt.Errorf("panic: %v", p)
					if !failed {
						failed = true
						c.Fail("frame-panic", lb.String(), fmt.Sprintf("frame %d (%s): %v", i, f.kind, p))
					}
				}
			}()
			err = mtproto.VerifC07ConsumeMessage(context.Background(), conn, &bin.Buffer{Buf: append([]byte{}, f.wire...)})
		}()
		calls, acks, sessions := rec.take(), mtproto.VerifC07Acks(conn), rec.takeSessions()
		processed := len(acks) > 0 || len(calls) > 0 || sessions > 0
		if processed {
			obs = append(obs, 'H')
		} else {
			obs = append(obs, '-')
		}
		if failed {
			continue
		}
		okFresh, why := fresh(f.now, f.msgID)
		ok := okFresh && w.verdict(f.msgID)
		if okFresh && !ok {
			why = "replay"
		}
		if ok {
			w.add(f.msgID)
		}
		if !ok && processed {
			failed = true
			what := "a " + f.kind + " frame"
			if f.replayOf >= 0 {
				what = fmt.Sprintf("the byte-for-byte replay of frame %d (%s)", f.replayOf, f.kind)
			}
			c.Fail("service-history-accepted-"+why, lb.String(), fmt.Sprintf("frame %d, %s, must be dropped (%s) but was processed: handler calls %v, OnSession calls %d, acks %v, err=%v", i, what, why, calls, sessions, acks, err))
		}
	}
	c.Count(fmt.Sprintf("service.N=%d", n))
	return lb.String(), string(obs), replays > 0 && services > 0
}

// ---------------------------------------------------------------------------------- run

func run(c *hc.Ctx) error {
	r := c.Rng
	if c.Replay != "" {
		if n, ids, ok := parseBufLine(c.Replay); ok {
			pos := true
			for _, id := range ids {
				pos = pos && id > 0
			}
			v := runBuf(c, n, ids, pos)
			c.Eval(c.Replay, true)
			out, err := c.Drv.Ask(c.Replay)
			if err != nil {
				return err
			}
			c.Compare(c.Replay, bits(v), out)
			return nil
		}
		c.Note("replay input is not a buf line; running the full tier instead")
	}
	var lines, impls []string
	var skipLast []bool
	add := func(line, impl string) {
		lines = append(lines, line)
		impls = append(impls, impl)
		skipLast = append(skipLast, false)
	}

	// ---- (i) replay buffer. Fixed witnesses first (D1: an older, non-latest id replayed).
	for _, h := range []struct {
		n   int
		ids []int64
	}{
		{3, []int64{10, 20, 30, 10}},
		{2, []int64{5, 9, 7, 5, 9, 7, 8, 6}},
		{1, []int64{5, 5, 4, 6, 5}},
		{3, []int64{30, 20, 10, 5, 15, 20, 40, 10}},
	} {
		v := runBuf(c, h.n, h.ids, true)
		c.Eval(bufLine(h.n, h.ids), true)
		c.Count("buf.fixed")
		add(bufLine(h.n, h.ids), bits(v))
	}
	nHist := c.N(12000, 300000)
	for i := 0; i < nHist; i++ {
		n := hc.Pick(r, 1, 2, 3, 3, 10, 10, 100)
		count := hc.Pick(r, r.Range(1, 12), r.Range(1, 40), r.Range(1, 40), r.Range(40, 400))
		if n == 100 {
			count = r.Range(90, 400)
		}
		universe := hc.Pick(r, n+1, 2*n+2, 3*n+5, 10*n, 1000)
		base := hc.Pick(r, int64(1), int64(1)<<32*1_700_000_000, int64(1)<<62)
		monitor := true
		ids := make([]int64, count)
		style := r.Intn(4)
		cur := 0
		for j := range ids {
			var k int
			switch style {
			case 0: // uniform over the universe
				k = r.Intn(universe)
			case 1: // mostly increasing with replays of older ones
				if r.Chance(65) {
					cur++
					k = cur
				} else {
					k = r.Intn(cur + 1)
				}
			case 2: // decreasing
				k = universe - j%universe
				if r.Chance(20) {
					k = r.Intn(universe)
				}
			default: // increasing in steps with jitter
				cur += r.Range(0, 2)
				k = cur + r.Range(-n, 1)
				if k < 0 {
					k = 0
				}
			}
			ids[j] = base + 4*int64(k)
		}
		if r.Chance(5) { // zero / negative ids: correspondence only (never reach the buffer in a connection)
			monitor = false
			for j := range ids {
				if r.Chance(30) {
					ids[j] = int64(r.Range(-5, 5))
				}
			}
		}
		v := runBuf(c, n, ids, monitor)
		line := bufLine(n, ids)
		dups := false
		seen := map[int64]bool{}
		for _, id := range ids {
			dups = dups || seen[id]
			seen[id] = true
		}
		c.Eval(line, dups && len(seen) > n)
		c.Count(fmt.Sprintf("buf.N=%d", n))
		if !monitor {
			c.Count("buf.with-nonpositive-ids")
		}
		add(line, bits(v))
	}

	// ---- (ii) checkMessageID
	nChk := c.N(120000, 2000000)
	for i := 0; i < nChk; i++ {
		now := genNow(r)
		id := genID(r, now)
		ok, rej := mtproto.VerifC07CheckMessageID(time.Unix(0, now), id)
		want, why := fresh(now, id)
		line := fmt.Sprintf("chk %d %d", now, id)
		c.Eval(line, true)
		if want {
			c.Count("chk.ok")
		} else {
			c.Count("chk." + why)
		}
		if ok && !want {
			c.Fail("chk-accepted-"+why, line, fmt.Sprintf("checkMessageID accepted id with time %d at now %d (type bits %d)", idTimeOf(id), now, id%4))
		}
		if !ok && !rej {
			c.Fail("chk-error-not-rejected", line, "checkMessageID returned an error that is not errRejected")
		}
		add(line, b01(ok))
	}

	// ---- (iii) whole frames through Conn.consumeMessage
	nSeq := c.N(1500, 40000)
	for i := 0; i < nSeq; i++ {
		n := hc.Pick(r, 1, 2, 3, 5, 100)
		count := r.Range(1, 30)
		if n == 100 && r.Chance(30) {
			count = r.Range(100, 160)
		}
		session := int64(r.U64())
		frames, dist := genFrames(r, session, n, count)
		probe := r.Chance(25)
		if probe { // D2 probe: padding below 12 (last frame of the sequence)
			f := frames[len(frames)-1]
			f.keyKind, f.session = 0, session
			f.dataLen = 16 * r.Range(1, 3)
			f.padding = hc.Pick(r, 0, 0, 4, 8)
			f.dataLen += (16 - f.padding) % 16
			t := f.now + int64(r.Range(1, 5))*sec
			f.msgID = idAt(t)&^3 | 1
			f.shortPadProbe = true
			frames[len(frames)-1] = f
			dist["frame.len.pad<12(probe)"]++
		}
		var lb strings.Builder
		fmt.Fprintf(&lb, "conn %d %d", session, n)
		for _, f := range frames {
			lb.WriteString(" ")
			lb.WriteString(f.String())
		}
		line := lb.String()
		obs := runFrames(c, r.Fork(), session, n, frames, line)
		for k, v := range dist {
			for j := 0; j < v; j++ {
				c.Count(k)
			}
		}
		for _, o := range obs {
			c.Count("frame.obs=" + o)
		}
		c.Eval(line, len(frames) >= 2)
		add(line, strings.Join(obs, ""))
		_ = probe // the short-padding probe is compared too since crypto repaired D2 (11c870b0c)
	}

	// ---- (v) histories of connection-handled service messages interleaved with replays
	nSvc := c.N(1500, 40000)
	for i := 0; i < nSvc; i++ {
		line, impl, nt := runService(c, r.Fork())
		c.Eval(line, nt)
		c.Count("service.history")
		add(line, impl)
	}

	// ---- (iv) the read loop: whole connections (public New/Run), frames handled concurrently
	nLoop := c.N(12, 120)
	type lres struct {
		out    loopOutcome
		frames []loopFrame
		kind   string
	}
	lr := make([]lres, nLoop)
	var lwg sync.WaitGroup
	lsem := make(chan struct{}, 6)
	for i := 0; i < nLoop; i++ {
		kind := hc.Pick(r, "mixed", "mixed", "burst", "fatal", "fatal")
		seed := r.U64()
		lwg.Add(1)
		go func(i int) {
			defer lwg.Done()
			lsem <- struct{}{}
			defer func() { <-lsem }()
			o, fr := runReadLoop(seed, kind)
			lr[i] = lres{o, fr, kind}
		}(i)
	}
	lwg.Wait()
	for _, x := range lr {
		if x.out.herr != nil {
			return x.out.herr
		}
		c.Eval(x.out.input, true)
		c.Count("readloop." + x.kind)
		perID := map[int64]int{}
		for num, n := range x.out.handled {
			if num < 1 || int(num) > len(x.frames) {
				c.Fail("readloop-unknown-message-handled", x.out.input, fmt.Sprintf("handler saw payload #%d", num))
				continue
			}
			lf := x.frames[num-1]
			perID[lf.f.msgID] += n
			if lf.bad != "" && lf.bad != "replay-candidate" {
				c.Fail("readloop-accepted-"+lf.bad, x.out.input, fmt.Sprintf("frame %d (%s) must be dropped (%s) but reached the handler", num-1, lf.f, lf.bad))
			}
		}
		for id, n := range perID {
			if n > 1 {
				c.Fail("readloop-id-handled-twice", x.out.input, fmt.Sprintf("message id %d reached the handler %d times (frames are handled concurrently, the replay buffer must serialise them)", id, n))
			}
		}
		// fewer than N = 100 ids are ever stored, so "lower than all stored" cannot apply: every
		// valid id must get through exactly once whatever order the goroutines ran in
		// (theorem fresh_id_accepted_while_not_full)
		if x.kind != "fatal" || true {
			for _, lf := range x.frames {
				if lf.bad == "" && !lf.optional && perID[lf.f.msgID] != 1 && !(x.out.runEnded && x.kind != "fatal") {
					c.Fail("readloop-valid-dropped", x.out.input, fmt.Sprintf("valid message id %d was handled %d times (Run ended=%v err=%v)", lf.f.msgID, perID[lf.f.msgID], x.out.runEnded, x.out.runErr))
					break
				}
			}
		}
		switch x.kind {
		case "fatal":
			if !x.out.runEnded || x.out.runErr == nil {
				c.Fail("readloop-undecryptable-not-fatal", x.out.input, fmt.Sprintf("an undecryptable frame did not end Run with an error (ended=%v err=%v)", x.out.runEnded, x.out.runErr))
			}
			c.Count("readloop.run-ended-by-undecryptable-frame")
		default:
			if x.out.runEnded {
				c.Fail("readloop-died-on-rejected-frames", x.out.input, fmt.Sprintf("Run ended (%v) although every frame decrypts; rejected frames must only be dropped", x.out.runErr))
			}
			c.Count("readloop.alive-after-rejected-frames")
		}
	}

	outs, err := c.Drv.Batch(lines)
	if err != nil {
		return err
	}
	for i, o := range outs {
		impl := impls[i]
		if skipLast[i] && len(o) == len(impl) && len(o) > 0 {
			// the short-padding probe is monitored, not compared (interface of crypto, D2)
			o, impl = o[:len(o)-1], impl[:len(impl)-1]
		}
		if c.Compare(lines[i], impl, o) {
			c.Res.TracesValidated++
		}
	}
	c.Res.Rule = "buffer histories: N ∈ {1,2,3,10,100}, 1..400 ids drawn from a universe a few times N (uniform / mostly increasing with replays / decreasing / jittered), non-trivial = contains a duplicate and more than N distinct ids; checkMessageID: ids at ±6 ns of both window boundaries, inside, far, arbitrary bits, negative int32 fraction, all 4 types (all non-trivial); frame sequences through consumeMessage on one connection: fresh/replayed/boundary ids, wrong session, foreign key, flipped msg_key/ciphertext bit, client-side (reflected) encryption, padding 12/1024/>1024, length % 4 ≠ 0, odd/even seq_no, clock moving; non-trivial = at least 2 frames; service histories: 4..40 frames on one connection mixing every message type the connection handles itself (new_session_created, bad_server_salt, bad_msg_notification, future_salts, pong, msgs_ack, containers of these, gzip, rpc_result, msg_detailed_info; all with odd seq_no so that an acknowledgement shows acceptance) with byte-for-byte replays of earlier frames, non-trivial = at least one service frame and one replay; read loop: whole connections through the public New/Run, 5..90 frames delivered back to back and handled in concurrent goroutines (replays racing with their originals, wrong session, stale/future/client-typed ids; optionally an undecryptable last frame), checked order-independently; distinct = distinct input line"
	c.PartialNote("the padding bounds 12..1024 and length % 4 are enforced inside crypto.Cipher.Decrypt (C04/C05; the lower bound was defect D2, repaired by /repo 11c870b0c): the C07 model takes them as the cipher's interface, the harness still sends frames with 0/4/8 and >1024 bytes of padding through the real code")
	c.PartialNote("decryption under the session key is abstracted in the model as a boolean (auth-key id and msg_key match); that a tampered or foreign ciphertext fails that test is C05's cryptographic assumption, exercised here with 4 kinds of bad frames")
	c.PartialNote("in the read-loop part frames are handled by concurrent goroutines in an order the Go scheduler chooses; it is checked order-independently (at most once per id, never a frame that must be dropped, every valid id exactly once while fewer than 100 ids are stored, liveness of Run); the sequential frame sequences of part (iii) are compared frame by frame with the model")
	c.PartialNote("handleAuthKeyNotFound (transport error 404 → key re-creation or PFS reconnect) is not driven; there is no server-time offset in checkMessageID (it takes c.clock.Now() — a regenerated fact)")
	return nil
}

func b01(b bool) string {
	if b {
		return "1"
	}
	return "0"
}
