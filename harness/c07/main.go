// C07 — acceptance of incoming encrypted messages: correspondence of proto.MessageIDBuf.Consume,
// mtproto.checkMessageID and mtproto.Conn.consumeMessage (decrypt → session → id → replay buffer →
// handler) with the Lean model TdModel.C07, plus the property monitor on the implementation.
package main

import (
	"context"
	"crypto/aes"
	"fmt"
	"go/ast"
	"go/token"
	"sort"
	"strconv"
	"strings"
	"sync"
	"time"

	"github.com/gotd/ige"
	"github.com/gotd/neo"

	"github.com/gotd/td/bin"
	"github.com/gotd/td/crypto"
	"github.com/gotd/td/mtproto"
	"github.com/gotd/td/proto"

	"verif/harness/hc"
)

func main() {
	hc.Main(hc.Spec{Prop: "C07", Facts: facts, Run: run})
}

// ---------------------------------------------------------------------------------- facts

func flat(s string) string { return strings.Join(strings.Fields(s), " ") }

func facts(f *hc.Facts) {
	f.Const("maxPast", "mtproto", "maxPast")
	f.Const("maxFuture", "mtproto", "maxFuture")
	f.Const("messageIDModulo", "proto", "messageIDModulo")
	f.Const("yieldServerResponse", "proto", "yieldServerResponse")
	f.Const("yieldFromServer", "proto", "yieldFromServer")

	// size of the replay buffer created in mtproto.New
	size := ""
	if fd := f.FuncDecl("mtproto", "New"); fd != nil {
		ast.Inspect(fd.Body, func(n ast.Node) bool {
			if ce, ok := n.(*ast.CallExpr); ok && f.Src(ce.Fun) == "proto.NewMessageIDBuf" && len(ce.Args) == 1 {
				if lit, ok := ce.Args[0].(*ast.BasicLit); ok {
					size = lit.Value
				}
			}
			return true
		})
	}
	if _, err := strconv.Atoi(size); err == nil {
		f.Raw("def bufSize : Nat := " + size + " -- proto.NewMessageIDBuf(<n>) in mtproto.New")
	} else {
		f.Missing("bufSize", "proto.NewMessageIDBuf(literal) not found in mtproto.New")
	}

	// upper padding bound inside crypto.Cipher.Decrypt (interface; owned by C04/C05)
	maxPad := ""
	if fd := f.FuncDecl("crypto", "Cipher.Decrypt"); fd != nil {
		ast.Inspect(fd.Body, func(n ast.Node) bool {
			if gd, ok := n.(*ast.GenDecl); ok && gd.Tok == token.CONST {
				for _, s := range gd.Specs {
					vs := s.(*ast.ValueSpec)
					for i, id := range vs.Names {
						if id.Name == "maxPadding" && i < len(vs.Values) {
							if lit, ok := vs.Values[i].(*ast.BasicLit); ok {
								maxPad = lit.Value
							}
						}
					}
				}
			}
			return true
		})
	}
	if _, err := strconv.Atoi(maxPad); err == nil {
		f.Raw("def maxPadding : Nat := " + maxPad + " -- const maxPadding in crypto.Cipher.Decrypt")
	} else {
		f.Missing("maxPadding", "const maxPadding not found in crypto.Cipher.Decrypt")
	}

	// MessageIDBuf.Consume: where the minimum search starts, loop body, tail
	if fd := f.FuncDecl("proto", "MessageIDBuf.Consume"); fd != nil && fd.Body != nil {
		var parts []string
		for _, st := range fd.Body.List {
			parts = append(parts, flat(f.Src(st)))
		}
		f.Str("consumeBody", strings.Join(parts, " ; "), "statements of proto.MessageIDBuf.Consume")
	} else {
		f.Missing("consumeBody", "proto.MessageIDBuf.Consume not found")
	}

	// Conn.decryptMessage: the order decrypt → session → checkMessageID → Consume
	if fd := f.FuncDecl("mtproto", "Conn.decryptMessage"); fd != nil && fd.Body != nil {
		var conds []string
		for _, st := range fd.Body.List {
			switch x := st.(type) {
			case *ast.AssignStmt:
				conds = append(conds, flat(f.Src(x)))
			case *ast.IfStmt:
				s := flat(f.Src(x.Cond))
				if x.Init != nil {
					s = flat(f.Src(x.Init)) + "; " + s
				}
				conds = append(conds, "if "+s)
			case *ast.ReturnStmt:
				conds = append(conds, flat(f.Src(x)))
			}
		}
		f.Str("decryptMessageSteps", strings.Join(conds, " | "), "top-level steps of Conn.decryptMessage")
	} else {
		f.Missing("decryptMessageSteps", "Conn.decryptMessage not found")
	}

	// Conn.consumeMessage: a rejected message returns before handleMessage
	if fd := f.FuncDecl("mtproto", "Conn.consumeMessage"); fd != nil && fd.Body != nil && len(fd.Body.List) >= 4 {
		var head []string
		for _, st := range fd.Body.List[:4] {
			switch x := st.(type) {
			case *ast.AssignStmt:
				head = append(head, flat(f.Src(x)))
			case *ast.IfStmt:
				s := flat(f.Src(x.Cond))
				if x.Init != nil {
					s = flat(f.Src(x.Init)) + "; " + s
				}
				last := ""
				if n := len(x.Body.List); n > 0 {
					last = flat(f.Src(x.Body.List[n-1]))
				}
				head = append(head, "if "+s+" { … "+last+" }")
			}
		}
		f.Str("consumeMessageHead", strings.Join(head, " | "), "first statements of Conn.consumeMessage")
	} else {
		f.Missing("consumeMessageHead", "Conn.consumeMessage not found")
	}
}

// ---------------------------------------------------------------------------------- (i) replay buffer

// window is the specification of the replay window: the N largest accepted ids.
type window struct {
	n      int
	stored []int64 // ascending
}

func (w *window) verdict(id int64) bool {
	for _, s := range w.stored {
		if s == id {
			return false
		}
	}
	if len(w.stored) == w.n && id < w.stored[0] {
		return false
	}
	return true
}

func (w *window) add(id int64) {
	w.stored = append(w.stored, id)
	sort.Slice(w.stored, func(i, j int) bool { return w.stored[i] < w.stored[j] })
	if len(w.stored) > w.n {
		w.stored = w.stored[1:]
	}
}

func bits(vs []bool) string {
	if len(vs) == 0 {
		return "-"
	}
	b := make([]byte, len(vs))
	for i, v := range vs {
		b[i] = '0'
		if v {
			b[i] = '1'
		}
	}
	return string(b)
}

func bufLine(n int, ids []int64) string {
	var b strings.Builder
	fmt.Fprintf(&b, "buf %d", n)
	for _, id := range ids {
		fmt.Fprintf(&b, " %d", id)
	}
	return b.String()
}

// runBuf feeds a history to the real MessageIDBuf; for positive ids the verdicts are checked
// against the specification of the replay window.
func runBuf(c *hc.Ctx, n int, ids []int64, monitor bool) []bool {
	line := bufLine(n, ids)
	b := proto.NewMessageIDBuf(n)
	w := &window{n: n}
	out := make([]bool, len(ids))
	failed := false
	for i, id := range ids {
		got := b.Consume(id)
		out[i] = got
		if !monitor || failed {
			continue
		}
		want := w.verdict(id)
		if got && !want {
			failed = true
			c.Fail("buf-replay-accepted", line, fmt.Sprintf("op %d: Consume(%d) = true, but the id is a replay (stored window %v of N=%d)", i, id, w.stored, n))
		} else if !got && want {
			failed = true
			c.Fail("buf-fresh-rejected", line, fmt.Sprintf("op %d: Consume(%d) = false, but the id is fresh (stored window %v of N=%d)", i, id, w.stored, n))
		}
		if want {
			w.add(id)
		}
	}
	return out
}

func parseBufLine(line string) (int, []int64, bool) {
	ws := strings.Fields(line)
	if len(ws) < 2 || ws[0] != "buf" {
		return 0, nil, false
	}
	n, err := strconv.Atoi(ws[1])
	if err != nil || n < 1 {
		return 0, nil, false
	}
	var ids []int64
	for _, w := range ws[2:] {
		v, err := strconv.ParseInt(w, 10, 64)
		if err != nil {
			return 0, nil, false
		}
		ids = append(ids, v)
	}
	return n, ids, true
}

// ---------------------------------------------------------------------------------- (ii) checkMessageID

const sec = int64(1_000_000_000)

// idAt returns the id whose MessageID.Time() is exactly t (unix ns, fraction < 2^31 ns).
func idAt(t int64) int64 {
	s, f := t/sec, t%sec
	if f < 0 {
		s, f = s-1, f+sec
	}
	return s<<32 | f
}

func idTimeOf(id int64) int64 { return (id>>32)*sec + int64(int32(id)) }

// fresh is the statement's condition on the id alone.
func fresh(now, id int64) (ok bool, why string) {
	if m := id % 4; m != 1 && m != 3 {
		return false, "bad-type"
	}
	created := idTimeOf(id)
	if now-created > 300*sec {
		return false, "too-old"
	}
	if created-now > 30*sec {
		return false, "too-new"
	}
	return true, ""
}

func genNow(r *hc.RNG) int64 {
	return int64(r.Range(1_500_000_000, 2_100_000_000))*sec + int64(r.Intn(int(sec)))
}

// genID picks an id relative to `now`: on and around the window boundaries, all four types.
func genID(r *hc.RNG, now int64) int64 {
	switch r.Intn(10) {
	case 0: // arbitrary bits
		return int64(r.U64())
	case 1: // arbitrary non-negative, fraction possibly ≥ 2^31 (negative int32 nanoseconds)
		return int64(r.U64() >> 1)
	case 2, 3: // past boundary
		return idAt(now - 300*sec + int64(r.Range(-6, 6)))
	case 4, 5: // future boundary
		return idAt(now + 30*sec + int64(r.Range(-6, 6)))
	case 6: // inside
		return idAt(now + int64(r.Range(-299, 29))*sec + int64(r.Intn(int(sec))))
	case 7: // near now
		return idAt(now + int64(r.Range(-8, 8)))
	case 8: // far
		return idAt(now + int64(hc.Pick(r, -1, 1))*int64(r.Range(31, 100000))*sec)
	}
	// high 32 bits right, low 32 bits with the sign bit set
	return (now/sec)<<32 | int64(uint32(r.U64())|0x80000000)
}

// ---------------------------------------------------------------------------------- (iii) frames

type frame struct {
	now     int64
	keyKind int // 0 ok; 1 other auth key; 2 msg_key bit flipped; 3 ciphertext bit flipped; 4 encrypted as a client (reflection)
	session int64
	msgID   int64
	seqNo   int32
	dataLen int // declared MessageDataLen
	padding int // bytes after the data
	shortPadProbe bool
}

func (f frame) String() string {
	k := 0
	if f.keyKind == 0 {
		k = 1
	}
	return fmt.Sprintf("%d,%d,%d,%d,%d,%d,%d", f.now, k, f.session, f.msgID, f.seqNo, f.dataLen, f.padding)
}

const probeTypeID = 0xfeed0000 // not handled by handleMessage's switch → Handler.OnMessage

// encode builds the wire bytes of a frame. counter is placed in the payload to identify it.
func (f frame) encode(r *hc.RNG, key, otherKey crypto.AuthKey, counter uint32) []byte {
	var p bin.Buffer
	p.PutLong(int64(r.U64())) // salt
	p.PutLong(f.session)
	p.PutLong(f.msgID)
	p.PutInt32(f.seqNo)
	p.PutInt32(int32(f.dataLen))
	body := make([]byte, f.dataLen+f.padding)
	r.Read(body)
	if len(body) >= 8 {
		var h bin.Buffer
		h.PutUint32(probeTypeID)
		h.PutUint32(counter)
		copy(body, h.Buf)
	}
	p.Put(body)
	k, side := key, crypto.Server
	if f.keyKind == 1 {
		k = otherKey
	}
	if f.keyKind == 4 {
		side = crypto.Client
	}
	msgKey := crypto.MessageKey(k.Value, p.Buf, side)
	aesKey, iv := crypto.Keys(k.Value, msgKey, side)
	block, err := aes.NewCipher(aesKey[:])
	if err != nil {
		panic(err)
	}
	enc := make([]byte, len(p.Buf))
	ige.EncryptBlocks(block, iv[:], enc, p.Buf)
	if f.keyKind == 2 {
		msgKey[r.Intn(16)] ^= 1 << r.Intn(8)
	}
	if f.keyKind == 3 {
		enc[r.Intn(len(enc))] ^= 1 << r.Intn(8)
	}
	var out bin.Buffer
	if err := (crypto.EncryptedMessage{AuthKeyID: k.ID, MsgKey: msgKey, EncryptedData: enc}).Encode(&out); err != nil {
		panic(err)
	}
	return out.Buf
}

type recorder struct {
	mu    sync.Mutex
	calls []uint32
}

func (h *recorder) OnMessage(b *bin.Buffer) error {
	id, _ := b.Uint32()
	ctr, _ := b.Uint32()
	h.mu.Lock()
	if id == probeTypeID {
		h.calls = append(h.calls, ctr)
	} else {
		h.calls = append(h.calls, 0xffffffff)
	}
	h.mu.Unlock()
	return nil
}
func (h *recorder) OnSession(mtproto.Session) error { return nil }
func (h *recorder) take() []uint32 {
	h.mu.Lock()
	defer h.mu.Unlock()
	c := h.calls
	h.calls = nil
	return c
}

func randKey(r *hc.RNG) crypto.AuthKey {
	var k crypto.Key
	r.Read(k[:])
	return k.WithID()
}

// lengths of data/padding such that 32+data+padding is a multiple of 16
func genLens(r *hc.RNG) (dataLen, padding int, class string) {
	switch r.Intn(20) {
	case 0: // padding above the upper bound
		dataLen = 16 * r.Range(1, 4)
		padding = hc.Pick(r, 1040, 1056, 2048)
		return dataLen, padding, "pad>1024"
	case 1: // exactly the bounds
		if r.Bool() {
			return 16 * r.Range(1, 4), 1024, "pad=1024"
		}
		return 16*r.Range(1, 4) + 4, 12, "pad=12"
	case 2: // declared length not divisible by 4 (8 ≤ len so that a handler call would be visible)
		dataLen = hc.Pick(r, 9, 10, 11, 13, 14, 15, 17, 18, 19, 21, 22, 23)
		padding = 16 + (16-(dataLen%16))%16
		for padding < 12 {
			padding += 16
		}
		return dataLen, padding, "len%4!=0"
	case 3: // just above / far below the top
		dataLen = 16*r.Range(1, 4) + 12
		return dataLen, 1028 - 0, "pad=1028"
	}
	dataLen = 4 * r.Range(2, 40)
	padding = (16 - (dataLen % 16)) % 16
	if padding < 12 {
		padding += 16
	}
	padding += 16 * hc.Pick(r, 0, 0, 0, 1, 2, 15, 60, 62)
	if padding > 1024 {
		padding -= 16 * 4
	}
	return dataLen, padding, "pad-ok"
}

// expected decides by the property's statement whether a frame may be processed; w is the replay
// window of the accepted ids so far.
func expected(f frame, session int64, w *window) (ok bool, why string) {
	switch {
	case f.keyKind != 0:
		return false, "bad-key"
	case f.dataLen%4 != 0:
		return false, "len-not-mod4"
	case f.padding < 12:
		return false, "short-padding"
	case f.padding > 1024:
		return false, "long-padding"
	case f.session != session:
		return false, "wrong-session"
	}
	if ok, why := fresh(f.now, f.msgID); !ok {
		return false, why
	}
	if !w.verdict(f.msgID) {
		return false, "replay"
	}
	return true, ""
}

// runFrames drives one connection through a frame sequence; returns the per-frame observation
// ("-" dropped, "h" handled, "H" handled and acknowledged) and applies the monitor.
func runFrames(c *hc.Ctx, r *hc.RNG, session int64, n int, frames []frame, line string) []string {
	key, other := randKey(r), randKey(r)
	clk := neo.NewTime(time.Unix(0, 0))
	rec := &recorder{}
	conn := mtproto.VerifC07NewConn(mtproto.Options{
		Clock:   clk,
		Random:  r,
		Key:     key,
		Handler: rec,
		Cipher:  crypto.NewClientCipher(r),
	}, session, n, len(frames)+1)
	defer mtproto.VerifC07Close(conn)
	w := &window{n: n}
	out := make([]string, len(frames))
	failed := false
	for i, f := range frames {
		clk.Set(time.Unix(0, f.now))
		wire := f.encode(r, key, other, uint32(i+1))
		var err error
		func() {
			defer func() {
				if p := recover(); p != nil {
					err = fmt.Errorf("panic: %v", p)
					c.Fail("frame-panic", line, fmt.Sprintf("frame %d (%s): %v", i, f, p))
				}
			}()
			err = mtproto.VerifC07ConsumeMessage(context.Background(), conn, &bin.Buffer{Buf: wire})
		}()
		calls := rec.take()
		acks := mtproto.VerifC07Acks(conn)
		handled := len(calls) > 0
		o := "-"
		if handled {
			o = "h"
		}
		if len(acks) > 0 {
			o = "H"
			if !handled {
				o = "A" // acknowledged without a handler call
			}
		}
		out[i] = o
		if failed {
			continue
		}
		ok, why := expected(f, session, w)
		if ok {
			w.add(f.msgID)
		}
		if !ok && o != "-" {
			failed = true
			c.Fail("frame-accepted-"+why, line, fmt.Sprintf("frame %d (%s) must be dropped (%s) but was processed: handler calls %v, acks %v, err=%v", i, f, why, calls, acks, err))
		}
		if handled && (len(calls) != 1 || calls[0] != uint32(i+1)) {
			failed = true
			c.Fail("frame-handler-mismatch", line, fmt.Sprintf("frame %d: handler calls %v", i, calls))
		}
	}
	return out
}

func genFrames(r *hc.RNG, session int64, n int, count int) ([]frame, map[string]int) {
	dist := map[string]int{}
	now := genNow(r)
	var frames []frame
	var sent []int64 // ids of earlier well-formed frames
	for i := 0; i < count; i++ {
		if r.Chance(70) {
			now += int64(r.Intn(3 * int(sec))) // time passes
		} else if r.Chance(10) {
			now += int64(r.Range(10, 400)) * sec
		}
		f := frame{now: now, session: session, seqNo: int32(r.Intn(1 << 20))}
		var class string
		f.dataLen, f.padding, class = genLens(r)
		dist["frame.len."+class]++
		// id
		switch k := r.Intn(12); {
		case k < 4 && len(sent) > 0: // replay / neighbourhood of an earlier id
			f.msgID = sent[r.Intn(len(sent))]
			if r.Chance(30) {
				f.msgID += 4 * int64(r.Range(-3, 3))
			}
			dist["frame.id.replay-or-near"]++
		case k < 6:
			f.msgID = genID(r, now)
			dist["frame.id.boundary/any"]++
		default: // fresh, server typed, near now — increasing or slightly out of order
			t := now + int64(r.Range(-20, 5))*sec + int64(r.Intn(int(sec)))
			id := idAt(t)&^3 | hc.Pick(r, int64(1), int64(3))
			f.msgID = id
			dist["frame.id.fresh"]++
		}
		switch k := r.Intn(20); k {
		case 0:
			f.session = hc.Pick(r, session+1, session-1, 0, int64(r.U64()), ^session)
			dist["frame.wrong-session"]++
		case 1:
			f.keyKind = r.Range(1, 4)
			dist[fmt.Sprintf("frame.keykind=%d", f.keyKind)]++
		}
		frames = append(frames, f)
		sent = append(sent, f.msgID)
	}
	return frames, dist
}

// ---------------------------------------------------------------------------------- run

func run(c *hc.Ctx) error {
	r := c.Rng
	if c.Replay != "" {
		if n, ids, ok := parseBufLine(c.Replay); ok {
			pos := true
			for _, id := range ids {
				pos = pos && id > 0
			}
			v := runBuf(c, n, ids, pos)
			c.Eval(c.Replay, true)
			out, err := c.Drv.Ask(c.Replay)
			if err != nil {
				return err
			}
			c.Compare(c.Replay, bits(v), out)
			return nil
		}
		c.Note("replay input is not a buf line; running the full tier instead")
	}
	var lines, impls []string
	var skipLast []bool
	add := func(line, impl string) {
		lines = append(lines, line)
		impls = append(impls, impl)
		skipLast = append(skipLast, false)
	}

	// ---- (i) replay buffer. Fixed witnesses first (D1: an older, non-latest id replayed).
	for _, h := range []struct {
		n   int
		ids []int64
	}{
		{3, []int64{10, 20, 30, 10}},
		{2, []int64{5, 9, 7, 5, 9, 7, 8, 6}},
		{1, []int64{5, 5, 4, 6, 5}},
		{3, []int64{30, 20, 10, 5, 15, 20, 40, 10}},
	} {
		v := runBuf(c, h.n, h.ids, true)
		c.Eval(bufLine(h.n, h.ids), true)
		c.Count("buf.fixed")
		add(bufLine(h.n, h.ids), bits(v))
	}
	nHist := c.N(12000, 300000)
	for i := 0; i < nHist; i++ {
		n := hc.Pick(r, 1, 2, 3, 3, 10, 10, 100)
		count := hc.Pick(r, r.Range(1, 12), r.Range(1, 40), r.Range(1, 40), r.Range(40, 400))
		if n == 100 {
			count = r.Range(90, 400)
		}
		universe := hc.Pick(r, n+1, 2*n+2, 3*n+5, 10*n, 1000)
		base := hc.Pick(r, int64(1), int64(1)<<32*1_700_000_000, int64(1)<<62)
		monitor := true
		ids := make([]int64, count)
		style := r.Intn(4)
		cur := 0
		for j := range ids {
			var k int
			switch style {
			case 0: // uniform over the universe
				k = r.Intn(universe)
			case 1: // mostly increasing with replays of older ones
				if r.Chance(65) {
					cur++
					k = cur
				} else {
					k = r.Intn(cur + 1)
				}
			case 2: // decreasing
				k = universe - j%universe
				if r.Chance(20) {
					k = r.Intn(universe)
				}
			default: // increasing in steps with jitter
				cur += r.Range(0, 2)
				k = cur + r.Range(-n, 1)
				if k < 0 {
					k = 0
				}
			}
			ids[j] = base + 4*int64(k)
		}
		if r.Chance(5) { // zero / negative ids: correspondence only (never reach the buffer in a connection)
			monitor = false
			for j := range ids {
				if r.Chance(30) {
					ids[j] = int64(r.Range(-5, 5))
				}
			}
		}
		v := runBuf(c, n, ids, monitor)
		line := bufLine(n, ids)
		dups := false
		seen := map[int64]bool{}
		for _, id := range ids {
			dups = dups || seen[id]
			seen[id] = true
		}
		c.Eval(line, dups && len(seen) > n)
		c.Count(fmt.Sprintf("buf.N=%d", n))
		if !monitor {
			c.Count("buf.with-nonpositive-ids")
		}
		add(line, bits(v))
	}

	// ---- (ii) checkMessageID
	nChk := c.N(120000, 2000000)
	for i := 0; i < nChk; i++ {
		now := genNow(r)
		id := genID(r, now)
		ok, rej := mtproto.VerifC07CheckMessageID(time.Unix(0, now), id)
		want, why := fresh(now, id)
		line := fmt.Sprintf("chk %d %d", now, id)
		c.Eval(line, true)
		if want {
			c.Count("chk.ok")
		} else {
			c.Count("chk." + why)
		}
		if ok && !want {
			c.Fail("chk-accepted-"+why, line, fmt.Sprintf("checkMessageID accepted id with time %d at now %d (type bits %d)", idTimeOf(id), now, id%4))
		}
		if !ok && !rej {
			c.Fail("chk-error-not-rejected", line, "checkMessageID returned an error that is not errRejected")
		}
		add(line, b01(ok))
	}

	// ---- (iii) whole frames through Conn.consumeMessage
	nSeq := c.N(1500, 40000)
	for i := 0; i < nSeq; i++ {
		n := hc.Pick(r, 1, 2, 3, 5, 100)
		count := r.Range(1, 30)
		if n == 100 && r.Chance(30) {
			count = r.Range(100, 160)
		}
		session := int64(r.U64())
		frames, dist := genFrames(r, session, n, count)
		probe := r.Chance(25)
		if probe { // D2 probe: padding below 12 (last frame of the sequence)
			f := frames[len(frames)-1]
			f.keyKind, f.session = 0, session
			f.dataLen = 16 * r.Range(1, 3)
			f.padding = hc.Pick(r, 0, 0, 4, 8)
			f.dataLen += (16 - f.padding) % 16
			t := f.now + int64(r.Range(1, 5))*sec
			f.msgID = idAt(t)&^3 | 1
			f.shortPadProbe = true
			frames[len(frames)-1] = f
			dist["frame.len.pad<12(probe)"]++
		}
		var lb strings.Builder
		fmt.Fprintf(&lb, "conn %d %d", session, n)
		for _, f := range frames {
			lb.WriteString(" ")
			lb.WriteString(f.String())
		}
		line := lb.String()
		obs := runFrames(c, r.Fork(), session, n, frames, line)
		for k, v := range dist {
			for j := 0; j < v; j++ {
				c.Count(k)
			}
		}
		for _, o := range obs {
			c.Count("frame.obs=" + o)
		}
		c.Eval(line, len(frames) >= 2)
		add(line, strings.Join(obs, ""))
		_ = probe // the short-padding probe is compared too since crypto repaired D2 (11c870b0c)
	}

	outs, err := c.Drv.Batch(lines)
	if err != nil {
		return err
	}
	for i, o := range outs {
		impl := impls[i]
		if skipLast[i] && len(o) == len(impl) && len(o) > 0 {
			// the short-padding probe is monitored, not compared (interface of crypto, D2)
			o, impl = o[:len(o)-1], impl[:len(impl)-1]
		}
		if c.Compare(lines[i], impl, o) {
			c.Res.TracesValidated++
		}
	}
	c.Res.Rule = "buffer histories: N ∈ {1,2,3,10,100}, 1..400 ids drawn from a universe a few times N (uniform / mostly increasing with replays / decreasing / jittered), non-trivial = contains a duplicate and more than N distinct ids; checkMessageID: ids at ±6 ns of both window boundaries, inside, far, arbitrary bits, negative int32 fraction, all 4 types (all non-trivial); frame sequences through consumeMessage on one connection: fresh/replayed/boundary ids, wrong session, foreign key, flipped msg_key/ciphertext bit, client-side (reflected) encryption, padding 12/1024/>1024, length % 4 ≠ 0, odd/even seq_no, clock moving; non-trivial = at least 2 frames; distinct = distinct input line"
	c.PartialNote("the padding bounds 12..1024 and length % 4 are enforced inside crypto.Cipher.Decrypt (C04/C05; the lower bound was defect D2, repaired by /repo 11c870b0c): the C07 model takes them as the cipher's interface, the harness still sends frames with 0/4/8 and >1024 bytes of padding through the real code")
	c.PartialNote("decryption under the session key is abstracted in the model as a boolean (auth-key id and msg_key match); that a tampered or foreign ciphertext fails that test is C05's cryptographic assumption, exercised here with 4 kinds of bad frames")
	c.PartialNote("readLoop runs consumeMessage in one goroutine per frame; the harness feeds frames sequentially (MessageIDBuf.Consume is a critical section of its own mutex, so concurrent frames are some sequential order of Consume calls)")
	return nil
}

func b01(b bool) string {
	if b {
		return "1"
	}
	return "0"
}
