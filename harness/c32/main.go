// C32 — uploads: correspondence of telegram/uploader (Upload, smallLoop, bigLoop, part arithmetic) with
// the Lean model TdModel.C32, plus the property monitor on the implementation (parts 0..n-1 once, bytes
// in part order equal the source, part sizes, 3999-part limit, descriptor, FileTotalParts).
package main

import (
	"context"
	"crypto/md5"
	"encoding/binary"
	"encoding/hex"
	"fmt"
	"go/ast"
	"io"
	"sort"
	"strconv"
	"strings"
	"sync"

	"github.com/gotd/td/telegram/uploader"
	"github.com/gotd/td/tg"
	"github.com/gotd/td/tgerr"

	"verif/harness/hc"
)

func main() {
	hc.Main(hc.Spec{Prop: "C32", Facts: facts, Run: run})
}

func facts(f *hc.Facts) {
	f.Const("bigFileLimit", "telegram/uploader", "bigFileLimit")
	f.Const("partsLimit", "telegram/uploader", "partsLimit")
	f.Const("defaultPartSize", "telegram/uploader", "defaultPartSize")
	f.Const("paddingPartSize", "telegram/uploader", "paddingPartSize")
	f.Const("maximumPartSize", "telegram/uploader", "MaximumPartSize")
	// the per-part retry loops (`for { rpc; flood → continue; false → again }`) have no counter / limit:
	// control skeleton = conditions of the ifs and the branch/return statements, in source order
	skeleton := func(fn, rpc string) string {
		fd := f.FuncDecl("telegram/uploader", fn)
		out := "missing"
		if fd == nil {
			return out
		}
		ast.Inspect(fd.Body, func(n ast.Node) bool {
			fs, ok := n.(*ast.ForStmt)
			if !ok || !strings.Contains(f.Src(fs.Body), rpc) {
				return true
			}
			if inner := fs.Body; inner != nil {
				// descend to the innermost `for` that contains the RPC call
				for _, st := range inner.List {
					if in, ok := st.(*ast.ForStmt); ok && strings.Contains(f.Src(in.Body), rpc) {
						return true
					}
				}
			}
			var parts []string
			if fs.Init != nil || fs.Cond != nil || fs.Post != nil {
				parts = append(parts, "for-header")
			}
			ast.Inspect(fs.Body, func(m ast.Node) bool {
				switch s := m.(type) {
				case *ast.IfStmt:
					parts = append(parts, "if "+f.Src(s.Cond))
				case *ast.BranchStmt:
					parts = append(parts, s.Tok.String())
				case *ast.ReturnStmt:
					parts = append(parts, "return")
				case *ast.IncDecStmt:
					parts = append(parts, f.Src(s))
				case *ast.ForStmt:
					parts = append(parts, "for")
				}
				return true
			})
			out = strings.Join(parts, " | ")
			return false
		})
		return out
	}
	big := skeleton("Uploader.uploadBigFilePart", "UploadSaveBigFilePart")
	small := skeleton("Uploader.smallLoop", "UploadSaveFilePart")
	wantBig := "if err != nil | if flood | continue | return | if r | return"
	wantSmall := "if err != nil | if flood | continue | return | if !r | continue | break"
	if big == wantBig && small == wantSmall {
		f.Bool("retryLoopsUnbounded", true, "uploadBigFilePart: "+big+" ## smallLoop: "+small)
	} else {
		f.Raw("def retryLoopsUnbounded : Bool := missing_fact_retryLoopsUnbounded -- uploadBigFilePart: " + big + " ## smallLoop: " + small)
	}
	// ---- statement structure of the two loops, interpreted by the model
	src := func(fn string) string { return strings.Join(strings.Fields(f.FuncSrc("telegram/uploader", fn)), "") }
	small, bigL, bigP := src("Uploader.smallLoop"), src("Uploader.bigLoop"), src("Uploader.uploadBigFilePart")
	tri := func(name string, yes, no bool, comment string) {
		switch {
		case yes && !no:
			f.Bool(name, true, comment)
		case no && !yes:
			f.Bool(name, false, comment)
		default:
			f.Raw("def " + name + " : Bool := missing_fact_" + name + " -- " + comment)
		}
	}
	// FilePart of small files: sentParts % partsLimit
	tri("smallPartIsModLimit", strings.Contains(small, "FilePart:int(upload.sentParts.Load())%partsLimit,"),
		strings.Contains(small, "FilePart:int(upload.sentParts.Load()),"), "smallLoop: FilePart expression")
	// part ids of big files: the plain counter, passed on unchanged
	tri("bigPartIsCounter", strings.Contains(bigL, "id:int(upload.sentParts.Load()),") && strings.Contains(bigP, "FilePart:p.id,"),
		strings.Contains(bigL, "id:int(upload.sentParts.Load())%partsLimit,") && strings.Contains(bigP, "FilePart:p.id,"),
		"bigLoop: id expression; uploadBigFilePart: FilePart: p.id")
	// the MD5 is fed by a TeeReader around the source (once per byte read), not inside the retry loop
	tee := strings.Contains(small, "r:=io.TeeReader(upload.from,h)") && strings.Contains(small, "io.ReadFull(r,buf.Buf)") && !strings.Contains(small, "h.Write(")
	perAttempt := !strings.Contains(small, "io.TeeReader(") && strings.Contains(small, "io.ReadFull(upload.from,buf.Buf)") && strings.Contains(small, "for{if_,err:=h.Write(read)")
	tri("md5ViaTeeReader", tee, perAttempt, "smallLoop: io.TeeReader(upload.from, h) + io.ReadFull(r, …) / h.Write(read) inside the retry loop")
	// both loops cut the source with io.ReadFull into part-size buffers; a short read is the last part,
	// io.EOF ends the loop without a part
	rf := func(src string) bool {
		return strings.Contains(src, "n,err:=io.ReadFull(r,buf.Buf)") &&
			strings.Contains(src, "caseerrors.Is(err,io.ErrUnexpectedEOF):last=true") &&
			strings.Contains(src, "caseerrors.Is(err,io.EOF):")
	}
	tri("readFullLoops", rf(small) && rf(bigL) && strings.Contains(small, "upload.pool.GetSize(upload.partSize)") &&
		strings.Contains(bigL, "upload.pool.GetSize(upload.partSize)"), false,
		"smallLoop/bigLoop: n, err := io.ReadFull(r, buf.Buf) on part-size buffers; ErrUnexpectedEOF → last; EOF → done")
	// FileTotalParts is read from upload.totalParts when the request is built
	tri("totalPartsReadAtSend", strings.Contains(bigP, "FileTotalParts:p.upload.totalParts,"), false, "uploadBigFilePart: FileTotalParts: p.upload.totalParts")
	f.TranslateFuncs("telegram/uploader", "checkPartSize", "checkPartSize", "computeParts", "computeParts", "computePartSize", "computePartSize")
}

// ---------------------------------------------------------------- simulated source

type gen struct {
	seed uint64
	size int64
}

func mix(z uint64) uint64 {
	z = (z ^ (z >> 30)) * 0xBF58476D1CE4E5B9
	z = (z ^ (z >> 27)) * 0x94D049BB133111EB
	return z ^ (z >> 31)
}

// fill writes the source bytes [off, off+len(p)).
func (g gen) fill(off int64, p []byte) {
	var w [8]byte
	for len(p) > 0 {
		idx := uint64(off) / 8
		binary.LittleEndian.PutUint64(w[:], mix(g.seed+idx*0x9E3779B97F4A7C15))
		k := int(off % 8)
		n := copy(p, w[k:])
		p = p[n:]
		off += int64(n)
	}
}

func hash64(h uint64, p []byte) uint64 {
	for len(p) >= 8 {
		h = (h ^ binary.LittleEndian.Uint64(p)) * 0x100000001b3
		p = p[8:]
	}
	for _, b := range p {
		h = (h ^ uint64(b)) * 0x100000001b3
	}
	return h
}

type srcReader struct {
	g    gen
	pos  int64
	rng  *hc.RNG
	mode int // 0 = as much as asked, 1 = random chunk, 2 = tiny chunks
}

func (s *srcReader) Read(p []byte) (int, error) {
	if s.pos >= s.g.size {
		return 0, io.EOF
	}
	n := len(p)
	switch s.mode {
	case 1:
		n = 1 + s.rng.Intn(n)
	case 2:
		n = 1 + s.rng.Intn(7)
		if n > len(p) {
			n = len(p)
		}
	}
	if int64(n) > s.g.size-s.pos {
		n = int(s.g.size - s.pos)
	}
	s.g.fill(s.pos, p[:n])
	s.pos += int64(n)
	if s.pos >= s.g.size && s.rng.Bool() {
		return n, io.EOF // a reader may report EOF together with the last bytes
	}
	return n, nil
}

// ---------------------------------------------------------------- mock client

type partLog struct {
	attempts  int
	totals    map[int]bool
	length    int
	hash      uint64
	data      []byte
	differ    bool // a retry differed from the first request
	saved     int  // times answered true
	afterSave bool // a request arrived after the part was saved
}

type mock struct {
	mu       sync.Mutex
	script   map[int]string
	parts    map[int]*partLog
	keep     bool
	smallN   int
	bigN     int
	fileIDs  map[int64]bool
	floodSec int
}

func (m *mock) handle(id int64, part, total int, b []byte) (bool, error) {
	m.mu.Lock()
	defer m.mu.Unlock()
	m.fileIDs[id] = true
	l := m.parts[part]
	h := hash64(14695981039346656037, b)
	if l == nil {
		l = &partLog{totals: map[int]bool{}, length: len(b), hash: h}
		if m.keep {
			l.data = append([]byte(nil), b...)
		}
		m.parts[part] = l
	} else if l.length != len(b) || l.hash != h {
		l.differ = true
	}
	if l.saved > 0 {
		l.afterSave = true
	}
	l.totals[total] = true
	a := l.attempts
	l.attempts++
	sc := m.script[part]
	if a < len(sc) {
		switch sc[a] {
		case 'n':
			return false, nil
		case 'f':
			return false, tgerr.New(420, "FLOOD_WAIT_"+strconv.Itoa(m.floodSec))
		case 'e':
			return false, tgerr.New(500, "INTERNAL_SERVER_ERROR")
		}
	}
	l.saved++
	return true, nil
}

func (m *mock) UploadSaveFilePart(ctx context.Context, r *tg.UploadSaveFilePartRequest) (bool, error) {
	m.mu.Lock()
	m.smallN++
	m.mu.Unlock()
	return m.handle(r.FileID, r.FilePart, 0, r.Bytes)
}

func (m *mock) UploadSaveBigFilePart(ctx context.Context, r *tg.UploadSaveBigFilePartRequest) (bool, error) {
	m.mu.Lock()
	m.bigN++
	m.mu.Unlock()
	return m.handle(r.FileID, r.FilePart, r.FileTotalParts, r.Bytes)
}

// ---------------------------------------------------------------- cases

type ucase struct {
	size     int64
	declared int64 // size or -1
	ps       int   // 0 = automatic
	threads  int
	script   map[int]string
	mode     int
	bytes    bool // byte-level case: the source goes to the model as hex
	seed     uint64
	rng      *hc.RNG
	class    string
}

type uresult struct {
	err     error
	panicv  any
	file    tg.InputFileClass
	m       *mock
	srcMD5  string
	srcHash []uint64 // per part, recomputed from the generator
}

func scriptString(sc map[int]string) string {
	if len(sc) == 0 {
		return "-"
	}
	keys := make([]int, 0, len(sc))
	for k := range sc {
		keys = append(keys, k)
	}
	sort.Ints(keys)
	p := make([]string, len(keys))
	for i, k := range keys {
		p[i] = fmt.Sprintf("%d:%s", k, sc[k])
	}
	return strings.Join(p, ",")
}

func (u *ucase) psString() string {
	if u.ps == 0 {
		return "auto"
	}
	return strconv.Itoa(u.ps)
}

func runCase(u *ucase) (res uresult) {
	m := &mock{script: u.script, parts: map[int]*partLog{}, keep: u.bytes, fileIDs: map[int64]bool{}}
	res.m = m
	defer func() {
		if r := recover(); r != nil {
			res.panicv = r
		}
	}()
	up := uploader.NewUploader(m).WithThreads(u.threads).WithIDGenerator(func() (int64, error) { return 4242, nil })
	if u.ps != 0 {
		up = up.WithPartSize(u.ps)
	}
	rd := &srcReader{g: gen{u.seed, u.size}, rng: u.rng, mode: u.mode}
	res.file, res.err = up.Upload(context.Background(), uploader.NewUpload("f.bin", rd, u.declared))
	return res
}

func sortedTotals(s map[int]bool) []int {
	out := make([]int, 0, len(s))
	for k := range s {
		out = append(out, k)
	}
	sort.Ints(out)
	return out
}

func hasErr(sc map[int]string) bool {
	for _, s := range sc {
		if strings.Contains(s, "e") {
			return true
		}
	}
	return false
}

// validPS: part sizes Telegram accepts (divisible by 1 KiB, dividing 512 KiB).
func validPS(ps int) bool { return ps > 0 && ps%1024 == 0 && 524288%ps == 0 }

func genScript(r *hc.RNG, nparts int, floodBudget *int, allowErr bool) map[int]string {
	sc := map[int]string{}
	if nparts > 0 && r.Chance(20) {
		// a run of 1..64 consecutive refusals of ONE part (first / middle / last): `false` answers are
		// retried at once, a FLOOD_WAIT costs a real second (at most one, within the budget)
		part := hc.Pick(r, 0, nparts/2, nparts-1)
		n := hc.Pick(r, 1, 2, 5, 19, 20, 21, 32, 63, 64, r.Range(1, 64))
		b := []byte(strings.Repeat("n", n))
		if *floodBudget > 0 && r.Chance(15) {
			*floodBudget--
			b[r.Intn(n)] = 'f'
		}
		sc[part] = string(b)
		return sc
	}
	if nparts == 0 || r.Chance(45) {
		return sc
	}
	k := r.Range(1, 3)
	for i := 0; i < k; i++ {
		part := r.Intn(nparts)
		if r.Chance(30) {
			part = hc.Pick(r, 0, nparts-1)
		}
		var b []byte
		for j := r.Range(1, 3); j > 0; j-- {
			if r.Chance(25) && *floodBudget > 0 {
				*floodBudget--
				b = append(b, 'f')
			} else {
				b = append(b, 'n')
			}
		}
		if allowErr && r.Chance(8) {
			b = append(b, 'e')
		} else if r.Bool() {
			b = append(b, 'o')
		}
		sc[part] = string(b)
	}
	return sc
}

func ceilDiv(a, b int64) int64 { return (a + b - 1) / b }

// ---------------------------------------------------------------- run

func run(c *hc.Ctx) error {
	r := c.Rng.Fork() // hc.NewRNG(seed) streams of neighbouring seeds are the same sequence shifted by one draw and re-synchronise; a fork lands far away
	var lines, impls, kinds []string

	// ---- 1. part arithmetic: translated Go functions vs the real ones
	arith := c.N(4000, 200000)
	for i := 0; i < arith; i++ {
		var total int64
		switch r.Intn(6) {
		case 0:
			total = int64(r.Range(-2, 3))
		case 1: // around k * 3999 * 128 KiB
			total = int64(hc.Pick(r, 1, 2, 3, 4, 5, 8))*3999*131072 + int64(r.Range(-3, 3))
		case 2:
			total = int64(r.Intn(1 << 24))
		case 3:
			total = int64(r.U64() % (1 << 33))
		case 4:
			total = int64(hc.Pick(r, 1024, 131072, 262144, 524288, 10485760))*int64(r.Range(0, 4100)) + int64(r.Range(-1, 1))
		case 5:
			total = int64(r.U64() % (1 << 40))
		}
		ps := uploader.VerifC32ComputePartSize(total)
		n := uploader.VerifC32ComputeParts(ps, total)
		line := fmt.Sprintf("psize %d", total)
		c.Eval(line, total > 3999*131072)
		c.Count("arith.psize")
		if total >= 0 && total <= 3999*524288 && n > 3999 {
			c.Fail("autosize-over-3999", line, fmt.Sprintf("part size %d gives %d parts", ps, n))
		}
		if !validPS(ps) || uploader.VerifC32CheckPartSize(ps) != nil {
			c.Fail("autosize-invalid-part-size", line, fmt.Sprintf("part size %d", ps))
		}
		lines, impls, kinds = append(lines, line), append(impls, fmt.Sprintf("%d %d", ps, n)), append(kinds, "")
		// computeParts with arbitrary part sizes; checkPartSize on arbitrary values
		p2 := hc.Pick(r, 1, 1000, 1024, 2048, 3072, 4096, 65536, 131072, 262144, 524288, 1048576, r.Range(1, 1<<20))
		line = fmt.Sprintf("parts %d %d", p2, total)
		c.Count("arith.parts")
		gotParts := uploader.VerifC32ComputeParts(p2, total)
		wantParts := int64(0)
		if total > 0 {
			wantParts = (total + int64(p2) - 1) / int64(p2)
		}
		if int64(gotParts) != wantParts {
			c.Fail("compute-parts", line, fmt.Sprintf("computeParts = %d, ⌈total/partSize⌉ = %d", gotParts, wantParts))
		}
		lines, impls, kinds = append(lines, line), append(impls, strconv.Itoa(gotParts)), append(kinds, "")
		p3 := hc.Pick(r, 0, 1, 512, 1000, 1024, 2048, 3072, 5120, 131072, 262144, 524288, 524289, 1048576, r.Range(0, 1<<21), 1024*r.Range(0, 600))
		line = fmt.Sprintf("check %d", p3)
		c.Count("arith.check")
		got := "ok"
		if uploader.VerifC32CheckPartSize(p3) != nil {
			got = "err"
		}
		if (got == "ok") != validPS(p3) {
			c.Fail("check-part-size", line, "checkPartSize answered "+got)
		}
		lines, impls, kinds = append(lines, line), append(impls, got), append(kinds, "")
	}

	// ---- 2. uploads
	floodBudget := c.N(10, 60)
	var cases []*ucase
	addCase := func(class string, size int64, unknown bool, ps, threads int, allowErr bool) {
		u := &ucase{size: size, declared: size, ps: ps, threads: threads, class: class, seed: r.U64(), rng: r.Fork()}
		if unknown {
			u.declared = -1
		}
		eff := int64(ps)
		if eff <= 0 {
			eff = 131072
		}
		u.script = genScript(r, int(ceilDiv(size, eff)), &floodBudget, allowErr)
		u.mode = r.Intn(2)
		if size <= 1<<16 {
			u.mode = r.Intn(3)
			u.bytes = size <= 12*1024
		}
		cases = append(cases, u)
	}
	nTiny := c.N(90, 3000)
	for i := 0; i < nTiny; i++ {
		ps := hc.Pick(r, 1024, 1024, 2048, 4096)
		var size int64
		switch r.Intn(5) {
		case 0:
			size = int64(hc.Pick(r, 0, 1, ps-1, ps, ps+1))
		case 1:
			size = int64(ps * r.Range(0, 5))
		case 2:
			size = int64(ps*r.Range(0, 5) + hc.Pick(r, 1, -1, ps/2))
		default:
			size = int64(r.Range(0, 12*1024))
		}
		if size < 0 {
			size = 0
		}
		if r.Chance(10) {
			ps = hc.Pick(r, 0, 1000, 3072, 1048576, 1536) // 0 = automatic; others invalid
		}
		addCase("tiny", size, r.Chance(40), ps, r.Range(1, 8), true)
	}
	nMid := c.N(40, 600)
	for i := 0; i < nMid; i++ {
		ps := hc.Pick(r, 0, 0, 1024, 4096, 65536, 131072, 262144, 524288)
		eff := ps
		if eff == 0 {
			eff = 131072
		}
		size := int64(eff*r.Range(0, 40) + hc.Pick(r, 0, 0, 1, -1, r.Intn(eff)))
		if size < 0 {
			size = 0
		}
		addCase("mid", size, r.Chance(35), ps, r.Range(1, 8), true)
	}
	// the 10 MiB small/big threshold and the 3999-part limit of small files
	for _, d := range []int64{-1, 0, 1} {
		addCase("threshold-10MiB", 10485760+d, false, hc.Pick(r, 0, 4096, 524288), r.Range(1, 8), false)
		addCase("small-parts-limit", 3999*1024+d, false, 1024, 1, false)
	}
	addCase("threshold-10MiB", 10485760+int64(r.Range(-3, 3)), true, 0, r.Range(1, 8), false)
	addCase("small-parts-limit", 3999*2048+1, false, 2048, 1, false)
	// beyond the part limit with an explicit part size (big file: no limit is enforced by the uploader)
	addCase("big-explicit-over-limit", 4001*4096+5, r.Bool(), 4096, r.Range(2, 8), false)
	// automatic part size switches
	bounds := []int64{3999 * 131072}
	if c.Thorough() {
		bounds = append(bounds, 3999*262144, 3999*524288)
	}
	for _, b := range bounds {
		for _, d := range []int64{0, 1} {
			addCase("auto-size-switch", b+d, false, 0, r.Range(4, 8), false)
		}
	}
	if c.Thorough() {
		addCase("auto-size-switch", 3999*131072+1, true, 0, 8, false)
	}

	results := make([]uresult, len(cases))
	var wg sync.WaitGroup
	sem := make(chan struct{}, 6)
	for i := range cases {
		wg.Add(1)
		sem <- struct{}{}
		go func(i int) {
			defer wg.Done()
			defer func() { <-sem }()
			results[i] = runCase(cases[i])
		}(i)
	}
	wg.Wait()

	type pending struct {
		u   *ucase
		res uresult
		ids []int
	}
	var pend []pending
	for i, u := range cases {
		res := results[i]
		m := res.m
		digest := "-"
		var line string
		if u.bytes {
			src := make([]byte, u.size)
			gen{u.seed, u.size}.fill(0, src)
			line = fmt.Sprintf("up %d %s %s %s", u.declared, u.psString(), scriptString(u.script), hc.Hex(src))
			sum := md5.Sum(src)
			digest = hex.EncodeToString(sum[:])
		} else {
			if u.size <= 10485760 {
				h := md5.New()
				buf := make([]byte, 1<<16)
				for off := int64(0); off < u.size; off += int64(len(buf)) {
					n := int64(len(buf))
					if n > u.size-off {
						n = u.size - off
					}
					gen{u.seed, u.size}.fill(off, buf[:n])
					h.Write(buf[:n])
				}
				digest = hex.EncodeToString(h.Sum(nil))
			}
			line = fmt.Sprintf("plan %d %s %d %s %s", u.declared, u.psString(), u.size, scriptString(u.script), digest)
		}
		big := u.declared == -1 || u.declared > 10485760
		c.Eval(line, u.size > 0)
		c.Count("upload." + u.class)
		c.Count(fmt.Sprintf("upload.threads=%d", u.threads))
		if u.declared == -1 {
			c.Count("upload.unknown-size")
		}
		if len(u.script) > 0 {
			c.Count("upload.with-retries")
			for _, sc := range u.script {
				if len(sc) >= 20 {
					c.Count("upload.retry-run>=20")
				}
			}
		}
		ids := make([]int, 0, len(m.parts))
		for id := range m.parts {
			ids = append(ids, id)
		}
		sort.Ints(ids)

		// ---- monitor (independent of the model)
		switch {
		case res.panicv != nil:
			c.Fail("upload-panic", line, fmt.Sprint(res.panicv))
		case res.err != nil:
			c.Count("upload.outcome=error")
			psOK := u.ps == 0 || validPS(u.ps)
			tooMany := !big && u.ps != 0 && psOK && ceilDiv(u.size, int64(u.ps)) > 3999
			if psOK && !tooMany && !hasErr(u.script) {
				c.Fail("upload-unexpected-error", line, res.err.Error())
			}
		default:
			c.Count("upload.outcome=ok")
			monitorOK(c, line, u, res, ids, big, digest)
		}
		lines, impls, kinds = append(lines, line), append(impls, ""), append(kinds, "upload")
		pend = append(pend, pending{u, res, ids})
	}

	c.Res.Rule = "arithmetic: totals around k·3999·128 KiB, small, up to 2^40, part sizes valid and invalid; uploads: sizes 0, 1, ps±1, k·ps, random (byte-level up to 12 KiB with part sizes 1–4 KiB), up to 40 parts of every valid part size, 10 MiB±1, 3999·1 KiB±1 (small part limit), 3999·128 KiB(+1) (thorough: also 3999·256 KiB, 3999·512 KiB), known and unknown total, automatic/explicit/invalid part size, 1..8 threads, readers returning full/random/tiny chunks, scripted false/FLOOD_WAIT/error answers incl. runs of 1..64 consecutive refusals of the first / a middle / the last part; non-trivial = non-empty source (uploads) or total beyond 3999·128 KiB (arithmetic); distinct = distinct input line"
	c.PartialNote("goroutine scheduling of bigLoop below the granularity of whole part requests, and the unsynchronised read of upload.totalParts (unknown-size uploads: earlier parts may carry -1 or n), are not exhibited by the model; the model fixes only the per-part request sequence")

	outs, err := c.Drv.Batch(lines)
	if err != nil {
		return err
	}
	pi := 0
	for i, o := range outs {
		if kinds[i] == "" {
			if c.Compare(lines[i], impls[i], o) {
				c.Res.TracesValidated++
			}
			continue
		}
		p := pend[pi]
		pi++
		impl := implObservation(p.u, p.res, p.ids, o)
		model := o
		if p.res.err != nil && (p.u.declared == -1 || p.u.declared > 10485760) {
			// failed big upload: which other parts were sent is up to the scheduler; compare the outcome
			if k := strings.Index(model, " |"); k >= 0 {
				model = model[:k]
			}
			if k := strings.Index(impl, " |"); k >= 0 {
				impl = impl[:k]
			}
		}
		if c.Compare(lines[i], impl, model) {
			c.Res.TracesValidated++
		}
	}
	return nil
}

// monitorOK checks a successful upload against the property, without the model.
func monitorOK(c *hc.Ctx, line string, u *ucase, res uresult, ids []int, big bool, digest string) {
	m := res.m
	n := len(ids)
	fail := func(key, detail string) { c.Fail(key, line, detail) }
	for i, id := range ids {
		if id != i {
			fail("part-ids-not-0..n-1", fmt.Sprintf("part ids %v", ids))
			return
		}
	}
	var off int64
	var first int
	g := gen{u.seed, u.size}
	buf := make([]byte, 0, 1<<20)
	for i := 0; i < n; i++ {
		l := m.parts[i]
		switch {
		case l.saved != 1:
			fail("part-not-saved-once", fmt.Sprintf("part %d answered true %d times", i, l.saved))
		case l.afterSave:
			fail("part-resent-after-save", fmt.Sprintf("part %d", i))
		case l.differ:
			fail("retry-differs", fmt.Sprintf("part %d was retried with different bytes", i))
		}
		if i == 0 {
			first = l.length
		}
		if i < n-1 && l.length != first {
			fail("part-size-not-uniform", fmt.Sprintf("part %d has %d bytes, part 0 has %d", i, l.length, first))
		}
		if i == n-1 && (l.length == 0 || l.length > first) {
			fail("last-part-size", fmt.Sprintf("last part has %d bytes, part size %d", l.length, first))
		}
		// bytes in part order equal the source
		if off+int64(l.length) > u.size {
			fail("bytes-beyond-source", fmt.Sprintf("part %d ends at %d, source has %d bytes", i, off+int64(l.length), u.size))
			return
		}
		h := uint64(14695981039346656037)
		for done := 0; done < l.length; {
			k := l.length - done
			if k > cap(buf) {
				k = cap(buf)
			}
			g.fill(off+int64(done), buf[:k])
			h = hash64(h, buf[:k])
			done += k
		}
		// (chained hash64 equals the one-shot hash because every piece but the last is a multiple of 8)
		if h != l.hash {
			fail("bytes-differ-from-source", fmt.Sprintf("part %d (source offset %d, %d bytes)", i, off, l.length))
		}
		off += int64(l.length)
	}
	if off != u.size {
		fail("source-not-covered", fmt.Sprintf("parts cover %d of %d bytes", off, u.size))
	}
	if n > 1 && !(first%1024 == 0 && 524288%first == 0) {
		fail("part-size-invalid", fmt.Sprintf("part size %d", first))
	}
	// (unknown total size: the part size cannot be chosen from the size — streamed uploads beyond
	// 3999·128 KiB exceed the limit by construction; the property speaks of automatic sizing, which needs
	// the size; see notes/C32.md)
	if u.ps == 0 && u.declared >= 0 && u.size <= 3999*524288 && n > 3999 {
		fail("autosize-over-3999", fmt.Sprintf("%d parts", n))
	}
	// descriptor
	switch f := res.file.(type) {
	case *tg.InputFile:
		if big {
			fail("descriptor-kind", "InputFile for a big/unknown-size upload")
		}
		if f.Parts != n {
			fail("descriptor-parts", fmt.Sprintf("Parts=%d, %d parts saved", f.Parts, n))
		}
		if digest != "-" && f.MD5Checksum != digest {
			fail("descriptor-md5", fmt.Sprintf("MD5Checksum=%s, source md5=%s", f.MD5Checksum, digest))
		}
		if m.bigN != 0 {
			fail("descriptor-kind", "saveBigFilePart used for a small file")
		}
	case *tg.InputFileBig:
		if !big {
			fail("descriptor-kind", "InputFileBig for a file of at most 10 MiB")
		}
		if f.Parts != n {
			fail("descriptor-parts", fmt.Sprintf("Parts=%d, %d parts saved", f.Parts, n))
		}
		if m.smallN != 0 {
			fail("descriptor-kind", "saveFilePart used for a big file")
		}
		// FileTotalParts: the final count once it is known
		for i := 0; i < n; i++ {
			ts := sortedTotals(m.parts[i].totals)
			psUsed := u.ps // unknown size: explicit, or the default 128 KiB (no automatic growth)
			if psUsed == 0 {
				psUsed = 131072
			}
			lastShort := n > 0 && m.parts[n-1].length < psUsed
			for _, t := range ts {
				ok := false
				switch {
				case u.declared != -1:
					ok = t == n
				case i == n-1 && lastShort:
					ok = t == n
				case lastShort:
					ok = t == n || t == -1
				default:
					ok = t == -1
				}
				if !ok {
					fail("total-parts-field", fmt.Sprintf("part %d of %d carries FileTotalParts=%d", i, n, t))
				}
			}
		}
	default:
		fail("descriptor-kind", fmt.Sprintf("%T", res.file))
	}
	if len(m.fileIDs) > 1 {
		fail("file-id-changes", fmt.Sprint(len(m.fileIDs)))
	}
}

// implObservation renders what the mock client saw in the model's output format.  `model` is consulted
// only for the "either -1 or n" flag of unknown-size uploads (see PartialNote).
func implObservation(u *ucase, res uresult, ids []int, model string) string {
	m := res.m
	var b strings.Builder
	switch {
	case res.panicv != nil:
		b.WriteString("panic")
	case res.err != nil:
		e := res.err.Error()
		switch {
		case strings.Contains(e, "invalid part size"):
			b.WriteString("error invalid-part-size")
		case strings.Contains(e, "part size is too small"):
			b.WriteString("error too-many-parts")
		case strings.Contains(e, "INTERNAL_SERVER_ERROR"):
			b.WriteString("error rpc")
		default:
			b.WriteString("error other:" + strings.ReplaceAll(e, " ", "_"))
		}
	default:
		switch f := res.file.(type) {
		case *tg.InputFile:
			fmt.Fprintf(&b, "file big=0 parts=%d md5=%s", f.Parts, f.MD5Checksum)
		case *tg.InputFileBig:
			fmt.Fprintf(&b, "file big=1 parts=%d md5=none", f.Parts)
		}
	}
	b.WriteString(" |")
	// model entries, for the orUnknown flag
	var mreqs []string
	if k := strings.Index(model, " |"); k >= 0 {
		mreqs = strings.Fields(model[k+2:])
	}
	var off int64
	for i, id := range ids {
		l := m.parts[id]
		ts := sortedTotals(l.totals)
		tot := make([]string, len(ts))
		for j, t := range ts {
			tot[j] = strconv.Itoa(t)
		}
		totStr, flag := strings.Join(tot, "/"), "0"
		if i < len(mreqs) {
			f := strings.Split(mreqs[i], ":")
			if len(f) >= 3 && f[2] == "1" {
				okSet := true
				for _, t := range tot {
					if t != "-1" && t != f[1] {
						okSet = false
					}
				}
				if okSet {
					totStr, flag = f[1], "1"
				}
			}
		}
		saved := 0
		if l.saved > 0 {
			saved = 1
		}
		payload := fmt.Sprintf("%d+%d", off, l.length)
		if u.bytes {
			payload = hc.Hex(l.data)
		}
		if l.differ {
			payload += "!retry-differs"
		}
		fmt.Fprintf(&b, " %d:%s:%s:%d:%d:%s", id, totStr, flag, l.attempts, saved, payload)
		off += int64(l.length)
	}
	return b.String()
}
