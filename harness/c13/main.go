// C13 — DH parameter checks and pq factorisation: correspondence of crypto.{CheckGP,CheckDH,
// CheckDHParams,DecomposePQ} with the Lean model TdModel.C13, plus the property monitor on the
// implementation (Euler's criterion, independent range arithmetic, factor check).
package main

import (
	"bytes"
	"encoding/binary"
	"fmt"
	"math/big"
	"strconv"
	"strings"
	"time"

	"github.com/gotd/td/crypto"

	"verif/harness/c13facts"
	"verif/harness/hc"
)

func main() {
	hc.Main(hc.Spec{Prop: "C13", Facts: c13facts.Facts, Run: run})
}

// ---------------------------------------------------------------------------------------------
// run

func gpTag(err error) string {
	switch {
	case err == nil:
		return "ok"
	case strings.Contains(err.Error(), "unexpected g"):
		return "bad-g"
	case strings.Contains(err.Error(), "quadratic residue"):
		return "not-residue"
	case strings.Contains(err.Error(), "p should be 2^2047"):
		return "bad-bits"
	case strings.Contains(err.Error(), "(p-1)/2 is not prime"):
		return "not-safe"
	case strings.Contains(err.Error(), "p is not prime"):
		return "not-prime"
	}
	return "other:" + err.Error()
}

func dhpTag(err error) string {
	if err == nil {
		return "ok"
	}
	m := err.Error()
	switch {
	case strings.Contains(m, "bad g,"):
		return "fail 0"
	case strings.Contains(m, "bad g_a, g_a must be 1 <"):
		return "fail 1"
	case strings.Contains(m, "bad g_b, g_b must be 1 <"):
		return "fail 2"
	case strings.Contains(m, "bad g_a, g_a must be 2^"):
		return "fail 3"
	case strings.Contains(m, "bad g_b, g_b must be 2^"):
		return "fail 4"
	}
	return "other:" + m
}

func safely(fn func() string) (out string) {
	defer func() {
		if r := recover(); r != nil {
			out = fmt.Sprintf("panic:%v", r)
		}
	}()
	return fn()
}

type cmp struct{ line, impl string }

var (
	one = big.NewInt(1)
	two = big.NewInt(2)
)

// euler: g^((p-1)/2) mod p == 1 (g is a non-zero quadratic residue modulo the odd prime p).
func euler(g int64, p *big.Int) bool {
	e := new(big.Int).Rsh(new(big.Int).Sub(p, one), 1)
	return new(big.Int).Exp(big.NewInt(g), e, p).Cmp(one) == 0
}

func sieve(n int) []int {
	comp := make([]bool, n+1)
	var ps []int
	for i := 2; i <= n; i++ {
		if !comp[i] {
			ps = append(ps, i)
			for j := i * i; j <= n; j += i {
				comp[j] = true
			}
		}
	}
	return ps
}

func bit(b bool) string {
	if b {
		return "1"
	}
	return "0"
}

type tapeReader struct{ r *bytes.Reader }

func (t tapeReader) Read(p []byte) (int, error) { return t.r.Read(p) }

func run(c *hc.Ctx) error {
	r := c.Rng
	var cs []cmp
	var drvErr error
	var drvTime time.Duration
	flush := func() { // model answers for the collected requests (in chunks, to bound memory)
		if len(cs) == 0 || drvErr != nil {
			cs = cs[:0]
			return
		}
		t := time.Now()
		lines := make([]string, len(cs))
		for i, x := range cs {
			lines[i] = x.line
		}
		outs, err := c.Drv.Batch(lines)
		if err != nil {
			drvErr = err
			cs = cs[:0]
			return
		}
		for i, o := range outs {
			if c.Compare(cs[i].line, cs[i].impl, o) {
				c.Res.TracesValidated++
			}
		}
		cs = cs[:0]
		drvTime += time.Since(t)
	}
	add := func(line, impl string) {
		cs = append(cs, cmp{line, impl})
		if len(cs) >= 40000 {
			flush()
		}
	}

	// ---- 1. CheckGP on every safe prime below the bound × g ∈ −1..9  (exhaustive grid)
	bound := c.N(200_000, 3_000_000)
	primes := sieve(bound)
	isP := make(map[int]bool, len(primes))
	for _, p := range primes {
		isP[p] = true
	}
	nSafe := 0
	for _, p := range primes {
		if p < 5 || !isP[(p-1)/2] {
			continue
		}
		nSafe++
		bp := big.NewInt(int64(p))
		for g := -1; g <= 9; g++ {
			got := safely(func() string { return gpTag(crypto.CheckGP(g, bp)) })
			line := fmt.Sprintf("gp %d %d", g, p)
			c.Eval(line, p > 7 && g >= 2 && g <= 7)
			if p > 7 {
				want := g >= 2 && g <= 7 && euler(int64(g), bp)
				if (got == "ok") != want {
					c.Fail("checkgp-residue", line, fmt.Sprintf("CheckGP=%s but (g in 2..7 and g^((p-1)/2)=1 mod p)=%v", got, want))
				}
				c.Count("gp.safe-prime." + got)
			} else {
				c.Count("gp.safe-prime<=7(excluded from monitor)")
			}
			add(line, got)
		}
	}
	c.Note("CheckGP: all %d safe primes 5..%d × g in -1..9 enumerated", nSafe, bound)
	// arbitrary p (not safe primes, negative, huge): correspondence only
	for i := 0; i < c.N(2000, 100000); i++ {
		var p *big.Int
		switch r.Intn(4) {
		case 0:
			p = big.NewInt(int64(r.Intn(2000)) - 1000)
		case 1:
			p = new(big.Int).SetBytes(r.Bytes(r.Range(1, 260)))
		case 2:
			p = new(big.Int).Neg(new(big.Int).SetBytes(r.Bytes(r.Range(1, 40))))
		default:
			p = big.NewInt(int64(r.U64() >> uint(r.Intn(63))))
		}
		g := hc.Pick(r, -7, -2, 0, 1, 2, 3, 4, 5, 6, 7, 8, 24, int(int32(r.U64())))
		got := safely(func() string { return gpTag(crypto.CheckGP(g, p)) })
		line := fmt.Sprintf("gp %d %s", g, p)
		c.Eval(line, true)
		c.Count("gp.arbitrary." + got)
		add(line, got)
	}

	t0 := time.Now()
	lap := func(what string) {
		c.Note("time %s: %.1fs", what, time.Since(t0).Seconds())
		t0 = time.Now()
	}
	lap("1 CheckGP (implementation side)")
	// ---- 2. CheckDH on 2048-bit safe primes, and on near misses
	type cand struct {
		p    *big.Int
		kind string
	}
	var cands []cand
	sps := hc.SafePrimes2048()
	nTab := len(sps)
	// each accepted CheckDH costs 2×64 Miller–Rabin rounds on 2048 bits (≈0.3 s): quick takes the
	// production prime and 3 PRNG-chosen table primes, thorough all of them
	for i, p := range sps {
		if c.Thorough() || i == 0 {
			cands = append(cands, cand{p, "safe"})
		}
	}
	if !c.Thorough() {
		for k := 0; k < 3; k++ {
			cands = append(cands, cand{sps[1+r.Intn(nTab-1)], "safe"})
		}
	}
	for i := 0; i < c.N(2, 40); i++ {
		sp := sps[r.Intn(nTab)]
		cands = append(cands,
			cand{new(big.Int).Add(sp, two), "safe+2"},
			cand{new(big.Int).Rsh(sp, 1), "(p-1)/2:2047-bit prime"},
			cand{new(big.Int).Add(new(big.Int).Lsh(sp, 1), one), "2p+1:2049-bit"},
			cand{new(big.Int).Neg(sp), "negated"},
			cand{new(big.Int).SetBit(new(big.Int).SetBytes(r.Bytes(256)), 2047, 1), "random-2048"},
		)
		// a 2048-bit prime that is (almost surely) not safe
		q := new(big.Int).SetBit(new(big.Int).SetBytes(r.Bytes(256)), 2047, 1)
		q.SetBit(q, 0, 1)
		for !q.ProbablyPrime(8) {
			q.Add(q, two)
		}
		if q.BitLen() == 2048 {
			cands = append(cands, cand{q, "prime-not-safe"})
		}
	}
	for _, q := range hc.SafePrimesOffSize() { // genuine safe primes of the wrong size
		cands = append(cands, cand{q, fmt.Sprintf("safe-prime-%d-bits", q.BitLen())})
	}
	cands = append(cands, cand{new(big.Int).Lsh(one, 2047), "2^2047"}, cand{new(big.Int).Sub(new(big.Int).Lsh(one, 2048), one), "2^2048-1"},
		cand{new(big.Int).Lsh(one, 2048), "2^2048"}, cand{new(big.Int).Sub(new(big.Int).Lsh(one, 2047), one), "2^2047-1"}, cand{big.NewInt(23), "23"}, cand{big.NewInt(0), "0"})
	for _, cd := range cands {
		p := cd.p
		pr1 := crypto.Prime(p)
		half := new(big.Int).Quo(new(big.Int).Sub(p, one), two)
		pr2 := crypto.Prime(half)
		// independent oracle for the monitor
		isSafe2048 := p.Sign() > 0 && p.BitLen() == 2048 && p.ProbablyPrime(20) && half.ProbablyPrime(20)
		gs := []int{-1, 0, 1, 2, 3, 4, 5, 6, 7, 8, 9}
		if cd.kind != "safe" {
			gs = []int{hc.Pick(r, 2, 3, 4, 5, 6, 7), 4, hc.Pick(r, 0, 1, 8)}
		}
		if strings.HasPrefix(cd.kind, "safe-prime-") {
			gs = []int{2, 3, 4, 5, 6, 7}
		}
		for _, g := range gs {
			got := safely(func() string { return gpTag(crypto.CheckDH(g, p)) })
			line := fmt.Sprintf("dh %d %s %s %s", g, p, bit(pr1), bit(pr2))
			c.Eval(line, true)
			c.Count("dh." + cd.kind + "." + got)
			want := isSafe2048 && g >= 2 && g <= 7 && euler(int64(g), p)
			if (got == "ok") != want {
				c.Fail("checkdh-accept", fmt.Sprintf("dh %d %s", g, p), fmt.Sprintf("CheckDH=%s (%s) but spec accept=%v", got, cd.kind, want))
			}
			add(line, got)
		}
	}

	lap("2 CheckDH (implementation side)")
	// ---- 3. CheckDHParams: boundaries of both margins
	s1984 := new(big.Int).Lsh(one, 1984)
	nDHP := c.N(60, 1500)
	for i := 0; i < nDHP; i++ {
		var p *big.Int
		switch {
		case i < nTab:
			p = sps[i]
		case r.Chance(60):
			p = sps[r.Intn(nTab)]
		case r.Chance(50):
			p = new(big.Int).SetBit(new(big.Int).SetBytes(r.Bytes(256)), 2047, 1)
		default: // primes too small for the safety margin, degenerate moduli
			p = hc.Pick(r, big.NewInt(23), big.NewInt(3), big.NewInt(0), big.NewInt(-5), new(big.Int).Lsh(one, 1985), new(big.Int).Add(new(big.Int).Lsh(one, 1985), two),
				new(big.Int).Add(new(big.Int).Lsh(one, 1985), one), new(big.Int).SetBytes(r.Bytes(r.Range(240, 256))))
		}
		off := func(b *big.Int, d int64) *big.Int { return new(big.Int).Add(b, big.NewInt(d)) }
		pm := new(big.Int).Sub(p, s1984)
		pick := func() *big.Int {
			switch r.Intn(12) {
			case 0:
				return big.NewInt(int64(r.Intn(5)) - 1) // -1..3
			case 1:
				return off(p, int64(r.Intn(5))-3) // p-3..p+1
			case 2:
				return off(s1984, int64(r.Intn(5))-2)
			case 3:
				return off(pm, int64(r.Intn(5))-2)
			case 4:
				return new(big.Int).SetBytes(r.Bytes(r.Range(1, 257)))
			case 5:
				return new(big.Int).Neg(new(big.Int).SetBytes(r.Bytes(r.Range(1, 257))))
			default: // mostly inside both margins so that single boundary values decide the outcome
				if pm.Cmp(s1984) <= 0 {
					return new(big.Int).SetBytes(r.Bytes(248))
				}
				span := new(big.Int).Sub(pm, s1984)
				x := new(big.Int).Mod(new(big.Int).SetBytes(r.Bytes(260)), span)
				return x.Add(x, s1984)
			}
		}
		for k := 0; k < 40; k++ {
			g, ga, gb := pick(), pick(), pick()
			if r.Chance(60) {
				g = big.NewInt(int64(hc.Pick(r, 2, 3, 4, 5, 6, 7)))
			}
			got := safely(func() string { return dhpTag(crypto.CheckDHParams(p, g, ga, gb)) })
			line := fmt.Sprintf("dhp %s %s %s %s", p, g, ga, gb)
			pm1 := new(big.Int).Sub(p, one)
			in := func(x, lo, hi *big.Int) bool { return lo.Cmp(x) < 0 && x.Cmp(hi) < 0 }
			want := in(g, one, pm1) && in(ga, one, pm1) && in(gb, one, pm1) && in(ga, s1984, pm) && in(gb, s1984, pm)
			c.Eval(line, true)
			c.Count("dhp." + got)
			if (got == "ok") != want {
				c.Fail("checkdhparams-range", line, fmt.Sprintf("CheckDHParams=%s but spec accept=%v", got, want))
			}
			add(line, got)
		}
	}

	lap("3 CheckDHParams (implementation side)")
	// ---- 4. DecomposePQ
	small := sieve(17389) // first 2000 primes
	type pqCase struct {
		n, p, q *big.Int // p ≤ q primes (nil when n is not a semiprime)
		kind    string
	}
	var pqs []pqCase
	mk := func(a, b *big.Int, kind string) {
		if a.Cmp(b) > 0 {
			a, b = b, a
		}
		pqs = append(pqs, pqCase{new(big.Int).Mul(a, b), a, b, kind})
	}
	if c.Thorough() { // every pair of the first 700 primes (incl. squares): 245 350 semiprimes
		for i := 0; i < 700; i++ {
			for j := i; j < 700; j++ {
				mk(big.NewInt(int64(small[i])), big.NewInt(int64(small[j])), "table")
			}
		}
	} else {
		for i := 0; i < 3000; i++ {
			a, b := small[r.Intn(len(small))], small[r.Intn(len(small))]
			if r.Chance(10) {
				a = small[r.Intn(12)]
			}
			if r.Chance(5) {
				b = a
			}
			mk(big.NewInt(int64(a)), big.NewInt(int64(b)), "table")
		}
		for i := 0; i < 12; i++ { // the smallest ones explicitly
			for j := i; j < 12; j++ {
				mk(big.NewInt(int64(small[i])), big.NewInt(int64(small[j])), "table")
			}
		}
	}
	rp := func(bits int) *big.Int {
		for {
			x := new(big.Int).SetUint64(r.U64() >> uint(64-bits))
			x.SetBit(x, bits-1, 1).SetBit(x, 0, 1)
			for !x.ProbablyPrime(10) {
				x.Add(x, two)
			}
			if x.BitLen() == bits {
				return x
			}
		}
	}
	for i := 0; i < c.N(150, 4000); i++ {
		b1 := r.Range(8, 24)
		b2 := r.Range(b1, 24)
		mk(rp(b1), rp(b2), "medium")
	}
	for i := 0; i < c.N(3, 60); i++ { // below 2^63 like the server's pq
		for {
			a, b := rp(31), rp(32)
			if n := new(big.Int).Mul(a, b); n.BitLen() <= 63 {
				mk(a, b, "63-bit")
				break
			}
		}
	}
	mk(big.NewInt(0x494C553B), big.NewInt(0x53911073), "doc-vector")
	for i := 0; i < c.N(30, 300); i++ { // not semiprimes: correspondence only
		n := big.NewInt(int64(hc.Pick(r, 8, 12, 30, 2*3*5*7, 1001, 3*3*3, 2*2*2*2, 255255, r.Range(4, 5000)*2)))
		pqs = append(pqs, pqCase{n: n, kind: "composite"})
	}
	for _, pc := range pqs {
		// 20 outer rounds for small n (where one round fails with noticeable probability), 8 otherwise
		tapeWords := 40
		if pc.n.BitLen() > 20 {
			tapeWords = 16
		}
		words := tapeWords
		if r.Chance(3) {
			words = r.Intn(4)
		}
		tape := make([]byte, 8*words)
		var ws []string
		for k := 0; k < words; k++ {
			w := r.U64()
			if r.Chance(5) {
				w = hc.Pick[uint64](r, 0, 1, ^uint64(0), 15, 16)
			}
			binary.BigEndian.PutUint64(tape[8*k:], w)
			ws = append(ws, strconv.FormatUint(w, 10))
		}
		if r.Chance(2) && words > 0 { // a torn final word is an error as well
			tape = tape[:len(tape)-r.Range(1, 7)]
			ws = ws[:len(ws)-1]
		}
		var gp, gq *big.Int
		got := safely(func() string {
			rd := bytes.NewReader(tape)
			p, q, err := crypto.DecomposePQ(pc.n, tapeReader{rd})
			if err != nil {
				return "tape"
			}
			gp, gq = p, q
			// rounds = pairs of random words consumed: an observable of the path taken through the loops
			return fmt.Sprintf("ok %s %s rounds=%d", p, q, (len(tape)-rd.Len())/16)
		})
		line := fmt.Sprintf("pq %s %s", pc.n, strings.Join(ws, " "))
		if len(ws) == 0 {
			line = fmt.Sprintf("pq %s", pc.n)
		}
		c.Eval(line, pc.p != nil && words == tapeWords)
		c.Count("pq." + pc.kind + "." + strings.SplitN(got, " ", 2)[0])
		if pc.p != nil {
			switch {
			case strings.HasPrefix(got, "panic"):
				c.Fail("pq-panic", line, got)
			case got == "tape" && words == tapeWords:
				c.Fail("pq-no-factor", line, fmt.Sprintf("no factor of %s found within %d outer rounds", pc.n, tapeWords/2))
			case got != "tape" && gp != nil && (gp.Cmp(pc.p) != 0 || gq.Cmp(pc.q) != 0):
				c.Fail("pq-wrong-factors", line, fmt.Sprintf("got %s, want %s %s", got, pc.p, pc.q))
			}
		}
		add(line, got)
	}

	// ---- 5. inputs outside the specification: pq ∈ {0, 1} (division-by-zero panics) and prime pq (no
	// factorisation exists: runs until the random source is exhausted).  Model and code must still agree.
	advPrimes := []int64{2, 3, 5, 7, 11, 13, 97, 251, 65521, 1048573}
	for i := 0; i < c.N(24, 200); i++ {
		var n *big.Int
		kind := ""
		if i%2 == 0 {
			n, kind = big.NewInt(int64(i/2%2)), "pq-0-or-1"
		} else {
			n, kind = big.NewInt(advPrimes[r.Intn(len(advPrimes))]), "pq-prime"
		}
		words := hc.Pick(r, 0, 1, 2, 3, 8)
		tape := make([]byte, 8*words)
		var ws []string
		for k := 0; k < words; k++ {
			w := r.U64()
			binary.BigEndian.PutUint64(tape[8*k:], w)
			ws = append(ws, strconv.FormatUint(w, 10))
		}
		got := safely(func() string {
			p, q, err := crypto.DecomposePQ(n, tapeReader{bytes.NewReader(tape)})
			if err != nil {
				return "tape"
			}
			return fmt.Sprintf("ok %s %s", p, q)
		})
		if strings.HasPrefix(got, "panic") {
			got = "panic"
		}
		line := strings.TrimSpace(fmt.Sprintf("pq %s %s", n, strings.Join(ws, " ")))
		c.Eval(line, true)
		c.Count("pq." + kind + "." + strings.SplitN(got, " ", 2)[0])
		if strings.HasPrefix(got, "ok") {
			c.Fail("pq-bogus-factors", line, "DecomposePQ returned "+got+" for an input that has no factorisation into two factors > 1")
		}
		add(line, got)
	}
	c.Note("observation (outside the quantifier 'products of two primes'): DecomposePQ panics (division by zero) for pq = 0 and pq = 1 and never returns for a prime pq (theorems decompose_zero_one_panics, decompose_prime_never_returns); exchange/client_flow.go calls it on the server-supplied pq after checking only pq <= 2^63")

	lap("4 DecomposePQ (implementation side)")
	c.Res.Exhaustive = c.Thorough() // quick: only the CheckGP grid is exhaustive, the semiprime table is sampled
	c.Res.Rule = "CheckGP: exhaustive grid (every safe prime below the bound × g∈−1..9; non-trivial = p>7 and g∈2..7, judged by Euler's criterion) + arbitrary p; " +
		"CheckDH: every 2048-bit safe prime of the fixed table × g∈−1..9 and near misses (p+2, 2047/2049 bits, negated, random, non-safe prime, 2^2047, 2^2048±…); " +
		"CheckDHParams: g, g_a, g_b drawn from {−1..3, p−3..p+1, 2^1984±2, p−2^1984±2, random inside both margins, random, negative} for table primes, random 2048-bit and degenerate moduli; " +
		"DecomposePQ: semiprimes of the 2000-prime table (quick: 3000 sampled; thorough: all 245350 pairs of its first 700 primes), 8..24-bit prime pairs, 63-bit semiprimes, the documentation vector, with a 40-word (n < 2^20) or 16-word random tape (non-trivial = semiprime with a full tape); distinct = distinct request line"
	c.PartialNote("primality inside CheckDH is Go's ProbablyPrime(64): the model takes its two answers as oracle inputs; termination of DecomposePQ is probabilistic and only exercised (20 or 8 outer rounds)")

	flush()
	c.Note("time model driver: %.1fs", drvTime.Seconds())
	return drvErr
}
