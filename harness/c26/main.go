// C26 — closing or cancelling never strands callers and classifies retryability.
//
// Same machinery as C24.  The monitor checks on the implementation: after ForceClose every
// pending Do returns once the parked threads are released (none needs an environment action),
// Close/ForceClose themselves return, the close error is retryable (errors.Is ErrEngineClosed)
// exactly for calls that were not acknowledged, and a cancelled call issues exactly one drop
// request iff its request had been sent.
package main

import (
	"fmt"

	"verif/harness/c24/rpcsim"
	"verif/harness/hc"
)

func main() {
	hc.Main(hc.Spec{Prop: "C26", Facts: rpcsim.Facts, Run: run})
}

func one(name string, mr int, env ...rpcsim.Option) *rpcsim.Scenario {
	return &rpcsim.Scenario{Name: name, Cfg: rpcsim.Config{MaxRetries: mr, Interval: 3},
		Calls: []rpcsim.Option{{Kind: "start", ID: 1, Seq: 1, Body: 7}}, Env: env}
}

var (
	res0   = rpcsim.Option{Kind: "nres", ID: 0, Target: 1, Val: 100}
	ack1   = rpcsim.Option{Kind: "ack", IDs: []int64{1}}
	adv3   = rpcsim.Option{Kind: "adv", D: 3}
	cancel = rpcsim.Option{Kind: "cancel", ID: 1}
	fclose = rpcsim.Option{Kind: "fclose", ID: 2}
	closeG = rpcsim.Option{Kind: "close", ID: 1}
)

func directed() []rpcsim.Directed {
	return []rpcsim.Directed{
		{Sc: one("fclose-not-acked", 2, fclose), Script: []string{"start 1 1 7", "sret 1 ok", "fclose 2", "run 1"}},
		{Sc: one("fclose-acked", 2, ack1, fclose), Script: []string{"start 1 1 7", "sret 1 ok", "ack 1", "run 1", "fclose 2", "run 1"}},
		{Sc: one("fclose-ack-together", 2, ack1, fclose), Repeat: 20, Script: []string{"start 1 1 7", "sret 1 ok", "ack 1", "fclose 2", "run 1", "run 1"}},
		{Sc: one("fclose-acked-in-batch-after-unknown", 2, rpcsim.Option{Kind: "ack", IDs: []int64{91, 1}}, fclose), Script: []string{
			"start 1 1 7", "sret 1 ok", "ack 91 1", "run 1", "fclose 2", "run 1"}},
		{Sc: one("fclose-during-send", 2, fclose), Script: []string{"start 1 1 7", "fclose 2", "sret 1 ok", "run 1"}},
		{Sc: one("fclose-then-start", 2, fclose), Script: []string{"fclose 2", "start 1 1 7"}},
		{Sc: one("close-then-start", 2, closeG), Script: []string{"close 1", "start 1 1 7"}},
		{Sc: one("graceful-close-waits", 2, closeG, res0), Script: []string{"start 1 1 7", "sret 1 ok", "close 1", "nres 0 1 100", "nrun 0", "nrun 0", "nrun 0", "nwrite 0 ok", "run 1", "run 1"}},
		{Sc: one("cancel-sent-drop", 2, cancel), Script: []string{"start 1 1 7", "sret 1 ok", "cancel 1", "run 1", "run 1", "dret 1 ok"}},
		{Sc: &rpcsim.Scenario{Name: "cancel-not-sent-no-drop", Cfg: rpcsim.Config{MaxRetries: 2, Interval: 3}, Can: true, DropErr: true,
			Calls: []rpcsim.Option{{Kind: "start", ID: 1, Seq: 1, Body: 7}}, Env: []rpcsim.Option{cancel}},
			Script: []string{"start 1 1 7", "cancel 1", "sret 1 can", "run 1"}},
		// the server answers the cancelled request while the drop round trip is in flight: the no-op
		// callback installed by the cancel branch gets the error (nil buffer) / the result
		{Sc: one("error-during-drop", 2, cancel, rpcsim.Option{Kind: "nerr", ID: 2, Target: 1, Val: 400}), Script: []string{
			"start 1 1 7", "sret 1 ok", "cancel 1", "run 1", "run 1", "nerr 2 1 400", "nrun 2", "dret 1 ok"}},
		{Sc: one("result-during-drop", 2, cancel, rpcsim.Option{Kind: "nres", ID: 0, Target: 1, Val: 100, Shape: rpcsim.ShapeResultGz}), Script: []string{
			"start 1 1 7", "sret 1 ok", "cancel 1", "run 1", "run 1", "nres 0 1 100", "nrun 0", "dret 1 ok"}},
		{Sc: one("cancel-and-result", 2, cancel, res0), Repeat: 20, Script: []string{
			"start 1 1 7", "sret 1 ok", "nres 0 1 100", "nrun 0", "nrun 0", "nrun 0", "nwrite 0 ok", "cancel 1", "run 1", "run 1"}},
		{Sc: one("cancel-and-fclose", 2, cancel, ack1, fclose), Repeat: 20, Script: []string{
			"start 1 1 7", "sret 1 ok", "ack 1", "run 1", "cancel 1", "fclose 2", "run 1"}},
	}
}

// ctxDirected: for every kind of caller context (plain cancel, cancel with a custom cause, expiring
// deadline, timeout-with-cause under a cancelled parent, nested derived contexts) a cancellation
// after the send and before the ack, one before the send returns, one after the ack, and an
// already-cancelled context: Do must return exactly ctx.Err() and issue one drop request iff sent.
func ctxDirected() []rpcsim.Directed {
	var ds []rpcsim.Directed
	for kind := 0; kind < rpcsim.NumCtxKinds; kind++ {
		mk := func(name string, pre bool, env ...rpcsim.Option) *rpcsim.Scenario {
			return &rpcsim.Scenario{Name: fmt.Sprintf("ctx-kind-%d-%s", kind, name), Cfg: rpcsim.Config{MaxRetries: 2, Interval: 3}, Can: true, DropErr: true,
				Calls: []rpcsim.Option{{Kind: "start", ID: 1, Seq: 1, Body: 7, CtxKind: kind, PreCanc: pre}}, Env: env}
		}
		ds = append(ds,
			rpcsim.Directed{Sc: mk("cancel-after-send", false, cancel), Script: []string{"start 1 1 7", "sret 1 ok", "cancel 1", "run 1", "run 1", "dret 1 ok"}},
			rpcsim.Directed{Sc: mk("cancel-during-send", false, cancel), Script: []string{"start 1 1 7", "cancel 1", "sret 1 can", "run 1"}},
			rpcsim.Directed{Sc: mk("cancel-after-ack", false, ack1, cancel), Script: []string{"start 1 1 7", "sret 1 ok", "ack 1", "run 1", "cancel 1", "run 1", "dret 1 err"}},
			rpcsim.Directed{Sc: mk("cancel-during-resend", false, adv3, cancel), Script: []string{"start 1 1 7", "sret 1 ok", "adv 3", "run 1", "cancel 1", "sret 1 can", "run 1", "dret 1 ok"}},
			rpcsim.Directed{Sc: mk("already-cancelled", true), Script: []string{"start 1 1 7", "sret 1 ok", "run 1", "run 1", "dret 1 ok"}},
			rpcsim.Directed{Sc: mk("already-cancelled-send-fails", true), Script: []string{"start 1 1 7", "sret 1 can", "run 1"}},
		)
	}
	return ds
}

func dfsScenarios() []*rpcsim.Scenario {
	return []*rpcsim.Scenario{
		one("dfs-fclose-ack", 1, fclose, ack1),
		one("dfs-fclose-cancel", 1, fclose, cancel),
		one("dfs-fclose-ack-result", 1, fclose, ack1, res0),
		one("dfs-cancel-ack-tick", 1, cancel, ack1, adv3),
		one("dfs-close-cancel-result", 1, closeG, cancel, res0),
		one("dfs-fclose-cancel-result", 1, fclose, cancel, res0),
		one("dfs-fclose-ack-tick", 1, fclose, ack1, adv3),
		{Name: "dfs-two-calls-fclose-ack", Cfg: rpcsim.Config{MaxRetries: 1, Interval: 3},
			Calls: []rpcsim.Option{{Kind: "start", ID: 1, Seq: 1, Body: 7}, {Kind: "start", ID: 2, Seq: 3, Body: 8}},
			Env:   []rpcsim.Option{fclose, {Kind: "ack", IDs: []int64{2}}}},
		{Name: "dfs-cancel-callback-failures", Cfg: rpcsim.Config{MaxRetries: 1, Interval: 3}, SendErr: true, Can: true, DropErr: true,
			Calls: []rpcsim.Option{{Kind: "start", ID: 1, Seq: 1, Body: 7}}, Env: []rpcsim.Option{cancel, fclose}},
	}
}

func run(c *hc.Ctx) error {
	k := &rpcsim.Check{C: c, Prop: "C26", Src: rpcsim.ReadSrc(hc.NewFacts("C26", c.Repo)), W: rpcsim.WeightsC26,
		Nontrivial: func(s *rpcsim.Sim) bool {
			return s.Stats["cancel-pending"] > 0 || s.Stats["fclose-pending"] > 0 || s.Stats["close-pending"] > 0
		}}
	if err := k.RunDirected(directed()); err != nil {
		return err
	}
	if err := k.RunDirected(ctxDirected()); err != nil {
		return err
	}
	if err := k.RunRandom(c.N(5000, 300000)); err != nil {
		return err
	}
	if c.Thorough() {
		complete, err := k.RunDFS(dfsScenarios(), 400000)
		if err != nil {
			return err
		}
		c.Res.Exhaustive = complete
	}
	c.Res.Rule = "a schedule = an order of thread releases at the scheduling points of rpc/engine.go and of environment actions (ForceClose, Close, cancel at every point relative to send, ack, result, retry timer) over 1..4 concurrent calls; every run ends with ForceClose and the release of all parked threads; non-trivial = a cancel, Close or ForceClose hit a pending call; distinct = distinct schedule"
	c.PartialNote("'promptly' is checked as: after ForceClose every call returns within the model's bound of its own steps with no environment action; wall-clock latency is not measured")
	c.PartialNote("send and drop callbacks are assumed to return (they are released by the scheduler); a send that blocks forever is outside the model")
	return k.Flush()
}
