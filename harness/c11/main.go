// C11 — exchange answer decryption reports every hash mismatch: correspondence of
// crypto.GuessDataWithHash / DataWithHash / DecryptExchangeAnswer / EncryptExchangeAnswer with the
// Lean model TdModel.C11 (on Lean's SHA-1/AES), and the property monitor: a nil error must come
// with data whose SHA-1 equals the first 20 bytes of the decrypted answer (defect D4).
package main

import (
	"bytes"
	"crypto/aes"
	"crypto/sha1"
	"fmt"
	"strings"

	"github.com/gotd/ige"

	"github.com/gotd/td/crypto"

	"verif/harness/c04shared"
	"verif/harness/hc"
)

func main() {
	hc.Main(hc.Spec{Prop: "C11", Facts: facts, Run: run})
}

func facts(f *hc.Facts) {
	c04shared.FactsC11(f)
	c04shared.RefreshSiblings(f, map[string]func(*hc.Facts){"C06": c04shared.FactsC06})
}

func showOpt(b []byte) string {
	if b == nil {
		return "nil"
	}
	return "data " + hc.Hex(b)
}

func errTag(err error) string {
	s := err.Error()
	switch {
	case strings.Contains(s, "create aes cipher"):
		return "cipher"
	case strings.Contains(s, "invalid len of data_with_hash"):
		return "align"
	case strings.Contains(s, "guess data from data_with_hash"):
		return "guess"
	case strings.Contains(s, "get answer with hash"):
		return "rand"
	}
	return "other:" + s
}

func decryptSafe(data, key, iv []byte) (dst []byte, err error, p any) {
	defer func() {
		if r := recover(); r != nil {
			p = r
		}
	}()
	dst, err = crypto.DecryptExchangeAnswer(data, key, iv)
	return
}

// rawDecrypt is the reference used by the monitor: AES-IGE with the standard library.
func rawDecrypt(data, key, iv []byte) []byte {
	blk, err := aes.NewCipher(key)
	if err != nil {
		return nil
	}
	out := make([]byte, len(data))
	ige.DecryptBlocks(blk, iv, out, data)
	return out
}

func run(c *hc.Ctx) error {
	r := c.Rng
	var q c04shared.Queue
	var rt c04shared.Retainer
	n := c.N(20000, 1000000)
	for i := 0; i < n; i++ {
		if err := q.MaybeFlush(c); err != nil {
			return err
		}
		rt.MaybeVerify(c, 2048)
		key, iv := r.Bytes(32), r.Bytes(32)
		if r.Chance(3) {
			key = make([]byte, 32)
		}
		if r.Chance(3) {
			iv = make([]byte, 32)
		}
		var data []byte
		kind := ""
		switch k := r.Intn(10); {
		case k < 4: // random block-aligned ciphertext: the hash matches for no padding length
			data = r.Bytes(16 * hc.Pick(r, 0, 1, 2, 3, 4, 5, 8, 16, r.Range(0, 64), r.Range(0, 256)))
			if len(data) == 0 && r.Bool() {
				data = []byte{} // empty but non-nil
			}
			if r.Chance(5) {
				data = bytes.Repeat([]byte{1}, len(data)) // DESIGN.md witness shape: 0x01 bytes, zero key
				key = make([]byte, 32)
			}
			kind = "random"
		case k < 7: // genuine answer
			ans := r.Bytes(hc.Pick(r, 0, 1, 11, 12, 27, 28, 43, 44, r.Range(0, 600)))
			rnd := r.Bytes(31)
			enc, err := crypto.EncryptExchangeAnswer(bytes.NewReader(rnd), ans, key, iv)
			line := fmt.Sprintf("enc %s %s %s %s", hc.Hex(rnd), hc.Hex(ans), hc.Hex(key), hc.Hex(iv))
			if err != nil {
				c.Fail("encrypt-error", line, err.Error())
				continue
			}
			q.Add(line, "ok "+hc.Hex(enc))
			c.Count("op.EncryptExchangeAnswer")
			rt.Keep("EncryptExchangeAnswer", line, func() []byte { return enc })
			data = append([]byte{}, enc...) // the decryption below gets its own copy of the ciphertext
			// monitor: the genuine answer must come back
			got, derr, p := decryptSafe(enc, key, iv)
			if p != nil || derr != nil || !bytes.Equal(got, ans) {
				c.Fail("genuine-answer-not-recovered", line, fmt.Sprintf("err=%v panic=%v got %d bytes", derr, p, len(got)))
			}
			kind = "genuine"
		case k == 8 && r.Chance(50): // genuine answer extended by whole blocks: IGE decrypts the original blocks
			// unchanged, so the SHA-1 prefix still matches data followed by ≥ 16 bytes of garbage — must be an error
			ans := r.Bytes(r.Range(0, 200))
			enc, err := crypto.EncryptExchangeAnswer(r, ans, key, iv)
			if err != nil {
				continue
			}
			data = append(enc, r.Bytes(16*r.Range(1, 4))...)
			kind = "extended"
		case k < 9: // genuine with one flipped bit
			ans := r.Bytes(r.Range(0, 300))
			enc, err := crypto.EncryptExchangeAnswer(r, ans, key, iv)
			if err != nil || len(enc) == 0 {
				continue
			}
			enc[r.Intn(len(enc))] ^= byte(1 << r.Intn(8))
			data = enc
			kind = "bitflip"
		case k == 9 && r.Bool(): // near miss at plaintext level: one bit of SHA1(data) / data / padding flipped, then sealed
			ans := r.Bytes(hc.Pick(r, 0, 1, 12, 28, r.Range(0, 200)))
			dwh, err := crypto.DataWithHash(ans, r)
			if err != nil {
				continue
			}
			bit := r.Intn(20 * 8)
			if r.Chance(40) {
				bit = 8*hc.Pick(r, 0, 18, 19) + r.Intn(8) // first / last bytes of the hash
			}
			if r.Chance(15) && len(ans) > 0 {
				bit = 160 + r.Intn(8*len(ans))
			}
			dwh[bit/8] ^= 1 << (bit % 8)
			blk, err := aes.NewCipher(key)
			if err != nil {
				continue
			}
			data = make([]byte, len(dwh))
			ige.EncryptBlocks(blk, iv, data, dwh)
			kind = "near-miss"
		default: // not block aligned / bad key length
			data = r.Bytes(r.Range(1, 200))
			switch r.Intn(4) {
			case 0:
				key = r.Bytes(hc.Pick(r, 0, 1, 15, 17, 31, 33, 48))
			case 1: // aligned data, IV of the wrong size: gotd/ige panics by contract (explicit model outcome)
				data = r.Bytes(16 * r.Range(0, 8))
				iv = r.Bytes(hc.Pick(r, 0, 16, 31, 33, 64))
			case 2: // AES-128/192 keys are accepted by aes.NewCipher (monitor only: the executable model is AES-256)
				key = r.Bytes(hc.Pick(r, 16, 24))
				if r.Bool() {
					data = r.Bytes(16 * r.Range(0, 8))
				}
			}
			kind = "malformed"
		}
		c.Count("dec.input=" + kind)
		nilFlag := "val"
		if data == nil {
			nilFlag = "nil"
		}
		line := fmt.Sprintf("dec %s %s %s %s", nilFlag, hc.Hex(data), hc.Hex(key), hc.Hex(iv))
		dst, err, p := decryptSafe(data, key, iv)
		c.Eval(kind+" "+c04shared.Sig(line), kind != "malformed")
		impl := ""
		switch {
		case p != nil && len(iv) != 32:
			impl = "err panic-iv"
			c.Count("dec.result=panic-iv")
		case p != nil:
			impl = "panic"
			c.Count("dec.result=panic")
			c.Fail("decrypt-panic", line, fmt.Sprint(p))
		case err != nil:
			impl = "err " + errTag(err)
			c.Count("dec.result=" + impl)
			if dst != nil {
				c.Fail("error-with-data", line, "an error was returned together with data")
			}
		default:
			impl = "ok " + showOpt(dst)
			if dst != nil {
				rt.Keep("DecryptExchangeAnswer", line, func() []byte { return dst })
			}
			// ---- the property: success means authenticated, non-nil data
			plain := rawDecrypt(data, key, iv)
			switch {
			case dst == nil:
				c.Count("dec.result=ok-nil")
				c.Fail("success-without-data", line, fmt.Sprintf("DecryptExchangeAnswer returned (nil, nil) for a %d-byte ciphertext whose SHA-1 prefix matches no padding length", len(data)))
			case len(plain) < 20 || !bytes.Equal(sum(dst), plain[:20]):
				c.Count("dec.result=ok-unauthenticated")
				c.Fail("success-with-unauthenticated-data", line, "returned data does not hash to the SHA-1 prefix")
			case !bytes.HasPrefix(plain[20:], dst) || len(plain)-20-len(dst) > 15:
				c.Count("dec.result=ok-wrong-slice")
				c.Fail("success-with-wrong-slice", line, "returned data is not data_with_hash[20:len-i], i < 16")
			default:
				c.Count("dec.result=ok-data")
			}
		}
		if len(key) != 16 && len(key) != 24 {
			q.Add(line, impl)
		}
		// DataWithHash directly: SHA1(data) ++ data ++ 0..15 bytes from the reader, length a multiple of 16
		if r.Chance(10) {
			d := r.Bytes(hc.Pick(r, 0, 1, 11, 12, 13, 27, 28, 29, r.Range(0, 100)))
			rnd := r.Bytes(31)
			w, err := crypto.DataWithHash(d, bytes.NewReader(rnd))
			wl := fmt.Sprintf("dwh %s %s", hc.Hex(rnd), hc.Hex(d))
			c.Count("op.DataWithHash")
			if err != nil {
				c.Fail("datawithhash-error", wl, err.Error())
			} else {
				if len(w)%16 != 0 || len(w) < 20+len(d) || len(w)-20-len(d) > 15 || !bytes.Equal(w[:20], sum(d)) || !bytes.Equal(w[20:20+len(d)], d) {
					c.Fail("datawithhash-malformed", wl, fmt.Sprintf("%d bytes for %d bytes of data", len(w), len(d)))
				}
				q.Add(wl, "ok "+hc.Hex(w))
				rt.Keep("DataWithHash", wl, func() []byte { return w })
			}
		}
		// GuessDataWithHash on the decrypted bytes / on random bytes
		if r.Chance(30) {
			var d []byte
			if len(key) == 32 && len(iv) == 32 && len(data)%16 == 0 && r.Bool() {
				d = rawDecrypt(data, key, iv)
			} else {
				d = r.Bytes(hc.Pick(r, 0, 1, 19, 20, 21, 35, 36, r.Range(0, 100)))
				if r.Bool() && len(d) >= 20 { // make it match at some padding length, incl. 16 and more (must not be found)
					pad := hc.Pick(r, 0, 1, 15, 16, 17)
					body := r.Bytes(r.Range(0, 40))
					d = append(sum(body), body...)
					d = append(d, r.Bytes(pad)...)
					if r.Chance(40) { // near miss: one bit of the hash prefix flipped → must not be found
						d[hc.Pick(r, 0, 10, 18, 19)] ^= 1 << r.Intn(8)
					}
				}
			}
			g := crypto.GuessDataWithHash(d)
			gl := "guess " + hc.Hex(d)
			c.Count("op.GuessDataWithHash")
			if g != nil && (len(d) < 20 || !bytes.Equal(sum(g), d[:20])) {
				c.Fail("guess-unauthenticated", gl, "GuessDataWithHash returned data that does not hash to the prefix")
			}
			if g != nil && len(d)-20-len(g) > 15 {
				c.Fail("guess-strips-more-than-15-bytes", gl, fmt.Sprintf("returned %d bytes of a %d-byte buffer: %d bytes of padding stripped", len(g), len(d), len(d)-20-len(g)))
			}
			q.Add(gl, showOpt(g))
		}
	}
	rt.Verify(c)
	// from 2..4 goroutines at once (the helpers share no state): genuine answers must come back and
	// random ciphertexts must be errors; results re-read afterwards
	workers := r.Range(2, 4)
	c04shared.Concurrently(c, &rt, workers, c.N(2000, 40000)/workers, func(r *hc.RNG, w, i int) {
		key, iv := r.Bytes(32), r.Bytes(32)
		ans := r.Bytes(r.Range(0, 300))
		rnd := r.Bytes(31)
		line := fmt.Sprintf("enc %s %s %s %s", hc.Hex(rnd), hc.Hex(ans), hc.Hex(key), hc.Hex(iv))
		c.Count("concurrent.answer")
		enc, err := crypto.EncryptExchangeAnswer(bytes.NewReader(rnd), ans, key, iv)
		if err != nil {
			c.Fail("encrypt-error", line, err.Error())
			return
		}
		rt.Keep("EncryptExchangeAnswer(concurrent)", line, func() []byte { return enc })
		got, derr, p := decryptSafe(append([]byte{}, enc...), key, iv)
		if p != nil || derr != nil || !bytes.Equal(got, ans) {
			c.Fail("genuine-answer-not-recovered", line, fmt.Sprintf("concurrent use, %d goroutines: err=%v panic=%v", workers, derr, p))
			return
		}
		rt.Keep("DecryptExchangeAnswer(concurrent)", line, func() []byte { return got })
		junk := r.Bytes(16 * r.Range(1, 8))
		if dst, err, _ := decryptSafe(junk, key, iv); err == nil {
			c.Fail("success-without-data", fmt.Sprintf("dec val %s %s %s", hc.Hex(junk), hc.Hex(key), hc.Hex(iv)), fmt.Sprintf("concurrent use: accepted %d random bytes, data=%v", len(junk), dst != nil))
		}
	})
	if err := q.Flush(c); err != nil {
		return err
	}
	c.Res.Rule = "32-byte keys and IVs (3% all-zero each); ciphertexts: 40% random block-aligned 0..4096 bytes incl. empty nil/non-nil (no padding length matches), 30% genuine EncryptExchangeAnswer outputs (answer lengths around the 16-byte alignment), 20% genuine with one flipped ciphertext bit, 5% near misses (one bit of the SHA-1 prefix or of the data flipped before sealing), 2.5% genuine extended by 1..4 whole random blocks, 5% malformed (unaligned length / bad key length / IV of the wrong size / AES-128/192 keys; trivial). distinct = distinct input line"
	c.PartialNote("AES-128/192 keys and IVs whose length is not 32 are outside the model (every caller derives 32-byte key and IV with TempAESKeys); a wrong IV length makes gotd/ige panic")
	return nil
}

func sum(b []byte) []byte {
	s := sha1.Sum(b)
	return s[:]
}
