// C06 — key derivation: crypto.MessageKey / Keys / MessageKeyV1 / KeysV1 / OldKeys / EncryptBindMessage
// against (a) the Lean model's code-shaped `Impl` and specification-shaped `Spec` definitions run on
// the Lean SHA-1/SHA-256 (an implementation that shares no code with Go), byte for byte, and
// (b) the property monitor: the specification text re-implemented here with crypto/sha1|sha256.
package main

import (
	"bytes"
	"crypto/aes"
	"crypto/sha1"
	"crypto/sha256"
	"encoding/binary"
	"fmt"
	"strings"

	"github.com/gotd/ige"

	"github.com/gotd/td/bin"
	"github.com/gotd/td/crypto"

	"verif/harness/c04shared"
	"verif/harness/hc"
)

func main() {
	hc.Main(hc.Spec{Prop: "C06", Facts: c04shared.FactsC06, Run: run})
}

func substr(s []byte, off, n int) []byte { return s[off : off+n] }

func cat(parts ...[]byte) []byte {
	var r []byte
	for _, p := range parts {
		r = append(r, p...)
	}
	return r
}

// specification text, MTProto 2.0
func specMsgKey(ak, pt []byte, x int) []byte {
	l := sha256.Sum256(cat(substr(ak, 88+x, 32), pt))
	return substr(l[:], 8, 16)
}

func specKeys(ak, mk []byte, x int) (k, iv []byte) {
	a := sha256.Sum256(cat(mk, substr(ak, x, 36)))
	b := sha256.Sum256(cat(substr(ak, 40+x, 36), mk))
	k = cat(substr(a[:], 0, 8), substr(b[:], 8, 16), substr(a[:], 24, 8))
	iv = cat(substr(b[:], 0, 8), substr(a[:], 8, 16), substr(b[:], 24, 8))
	return
}

// specification text, MTProto 1.0
func specKeysV1(ak, mk []byte, x int) (k, iv []byte) {
	a := sha1.Sum(cat(mk, substr(ak, x, 32)))
	b := sha1.Sum(cat(substr(ak, 32+x, 16), mk, substr(ak, 48+x, 16)))
	c := sha1.Sum(cat(substr(ak, 64+x, 32), mk))
	d := sha1.Sum(cat(mk, substr(ak, 96+x, 32)))
	k = cat(substr(a[:], 0, 8), substr(b[:], 8, 12), substr(c[:], 4, 12))
	iv = cat(substr(a[:], 8, 12), substr(b[:], 0, 8), substr(c[:], 16, 4), substr(d[:], 0, 8))
	return
}

type pending struct {
	line string
	impl string // value of the Go implementation, expected for both the Impl and the Spec model
	n    int    // how many times impl is repeated in the model's answer
}

func run(c *hc.Ctx) error {
	r := c.Rng
	var rt c04shared.Retainer
	var ps []pending
	var flushErr error
	flush := func() {
		if len(ps) == 0 || flushErr != nil {
			ps = nil
			return
		}
		lines := make([]string, len(ps))
		for i, p := range ps {
			lines[i] = p.line
		}
		outs, err := c.Drv.Batch(lines)
		if err != nil {
			flushErr = err
			ps = nil
			return
		}
		for i, o := range outs {
			want := strings.TrimSpace(strings.Repeat(ps[i].impl+" ", ps[i].n))
			if c.Compare(ps[i].line, want, o) {
				c.Res.TracesValidated++
			}
		}
		ps = nil
	}
	add := func(line, impl string, n int) {
		ps = append(ps, pending{line, impl, n})
		if len(ps) >= 20000 {
			flush()
		}
	}
	sideName := func(s crypto.Side) string {
		if s == crypto.Server {
			return "s"
		}
		return "c"
	}
	n := c.N(20000, 500000)
	for i := 0; i < n; i++ {
		key := c04shared.GenKey(r)
		side := hc.Pick(r, crypto.Client, crypto.Server)
		x := 0
		if side == crypto.Server {
			x = 8
		}
		var mk bin.Int128
		copy(mk[:], r.Bytes(16))
		if r.Chance(3) {
			mk = bin.Int128{}
		}
		rt.MaybeVerify(c, 4096)
		switch op := r.Intn(5); op {
		case 0:
			pt := r.Bytes(hc.Pick(r, 0, 1, 15, 16, 31, 32, 55, 56, 63, 64, 119, 120, r.Range(0, 700), r.Range(0, 4096)))
			got := crypto.MessageKey(key, pt, side)
			c.Count("op.MessageKey")
			rt.Keep("MessageKey", fmt.Sprintf("mk %s %s %s", sideName(side), hc.Hex(key[:]), hc.Hex(pt)), func() []byte { return got[:] })
			line := fmt.Sprintf("mk %s %s %s", sideName(side), hc.Hex(key[:]), hc.Hex(pt))
			c.Eval(c04shared.Sig(line), true)
			if want := specMsgKey(key[:], pt, x); !bytes.Equal(got[:], want) {
				c.Fail("msgkey-differs-from-spec", line, fmt.Sprintf("crypto.MessageKey=%x spec=%x", got[:], want))
			}
			add(line, hc.Hex(got[:]), 2)
		case 1:
			k, iv := crypto.Keys(key, mk, side)
			c.Count("op.Keys")
			rt.Keep("Keys", fmt.Sprintf("keys %s %s %s", sideName(side), hc.Hex(key[:]), hc.Hex(mk[:])), func() []byte { return append(append([]byte{}, k[:]...), iv[:]...) })
			line := fmt.Sprintf("keys %s %s %s", sideName(side), hc.Hex(key[:]), hc.Hex(mk[:]))
			c.Eval(c04shared.Sig(line), true)
			if wk, wiv := specKeys(key[:], mk[:], x); !bytes.Equal(k[:], wk) || !bytes.Equal(iv[:], wiv) {
				c.Fail("keys-differ-from-spec", line, fmt.Sprintf("crypto.Keys=%x %x spec=%x %x", k[:], iv[:], wk, wiv))
			}
			add(line, hc.Hex(k[:])+" "+hc.Hex(iv[:]), 2)
		case 2:
			pt := r.Bytes(hc.Pick(r, 0, 1, 32, 55, 56, 64, 72, r.Range(0, 300)))
			got := crypto.MessageKeyV1(pt)
			c.Count("op.MessageKeyV1")
			line := "mkv1 " + hc.Hex(pt)
			c.Eval(c04shared.Sig(line), true)
			s := sha1.Sum(pt)
			if !bytes.Equal(got[:], s[4:20]) {
				c.Fail("msgkeyv1-differs-from-spec", line, fmt.Sprintf("crypto.MessageKeyV1=%x spec=%x", got[:], s[4:20]))
			}
			add(line, hc.Hex(got[:]), 2)
		case 3:
			k, iv := crypto.KeysV1(key, mk)
			c.Count("op.KeysV1")
			rt.Keep("KeysV1", fmt.Sprintf("keysv1 %s %s", hc.Hex(key[:]), hc.Hex(mk[:])), func() []byte { return append(append([]byte{}, k[:]...), iv[:]...) })
			line := fmt.Sprintf("keysv1 %s %s", hc.Hex(key[:]), hc.Hex(mk[:]))
			c.Eval(c04shared.Sig(line), true)
			if wk, wiv := specKeysV1(key[:], mk[:], 0); !bytes.Equal(k[:], wk) || !bytes.Equal(iv[:], wiv) {
				c.Fail("keysv1-differ-from-spec", line, fmt.Sprintf("crypto.KeysV1=%x %x spec=%x %x", k[:], iv[:], wk, wiv))
			}
			add(line, hc.Hex(k[:])+" "+hc.Hex(iv[:]), 2)
		case 4:
			k, iv := crypto.OldKeys(key, mk, side)
			c.Count("op.OldKeys")
			line := fmt.Sprintf("oldkeys %s %s %s", sideName(side), hc.Hex(key[:]), hc.Hex(mk[:]))
			c.Eval(c04shared.Sig(line), true)
			if wk, wiv := specKeysV1(key[:], mk[:], x); !bytes.Equal(k[:], wk) || !bytes.Equal(iv[:], wiv) {
				c.Fail("oldkeys-differ-from-spec", line, fmt.Sprintf("crypto.OldKeys=%x %x spec=%x %x", k[:], iv[:], wk, wiv))
			}
			add(line, hc.Hex(k[:])+" "+hc.Hex(iv[:]), 2)
		}
	}
	// ---- bind message
	nb := c.N(2000, 60000)
	for i := 0; i < nb; i++ {
		key := c04shared.GenKey(r)
		perm := key.WithID()
		if r.Chance(10) { // the cached id is whatever the caller stored
			copy(perm.ID[:], r.Bytes(8))
		}
		inner := &crypto.BindAuthKeyInner{
			Nonce: int64(r.U64()), TempAuthKeyID: int64(r.U64()), PermAuthKeyID: int64(r.U64()),
			TempSessionID: int64(r.U64()), ExpiresAt: int(int32(r.U64())),
		}
		if r.Chance(20) {
			inner.ExpiresAt = hc.Pick(r, 0, 1, 1735689600, 1<<31-1, -1)
		}
		msgID := int64(r.U64())
		rnd := r.Bytes(64)
		out, err := crypto.EncryptBindMessage(bytes.NewReader(rnd), perm, msgID, inner)
		line := fmt.Sprintf("bind %s %s %s %d %d %d %d %d %d", hc.Hex(rnd), hc.Hex(key[:]), hc.Hex(perm.ID[:]),
			uint64(msgID), uint64(inner.Nonce), uint64(inner.TempAuthKeyID), uint64(inner.PermAuthKeyID),
			uint64(inner.TempSessionID), uint32(int32(inner.ExpiresAt)))
		c.Count("op.EncryptBindMessage")
		if perm.Zero() {
			c.Count("bind.zero-key")
			c.Eval(c04shared.Sig(line), false)
			if err == nil {
				c.Fail("bind-zero-key-accepted", line, "EncryptBindMessage accepted the zero permanent key")
			}
			continue
		}
		c.Eval(c04shared.Sig(line), true)
		if err != nil {
			c.Fail("bind-error", line, err.Error())
			continue
		}
		// monitor: decrypt under the permanent key with the *specification's* v1 derivation
		if detail := bindMonitor(out, key, perm.ID, msgID, inner); detail != "" {
			c.Fail("bind-does-not-decrypt", line, detail)
		}
		// the returned message must stay what it is while later bind messages are produced
		rt.Keep("EncryptBindMessage", line, func() []byte { return out })
		rt.MaybeVerify(c, 4096)
		add(line, hc.Hex(out), 1)
		fields := fmt.Sprintf("ok %d %d %d %d %d %d", uint64(msgID), uint64(inner.Nonce), uint64(inner.TempAuthKeyID),
			uint64(inner.PermAuthKeyID), uint64(inner.TempSessionID), uint32(int32(inner.ExpiresAt)))
		add(fmt.Sprintf("unbind %s %s %s", hc.Hex(key[:]), hc.Hex(perm.ID[:]), hc.Hex(out)), fields, 1)
	}
	// ---- rand == nil: EncryptBindMessage falls back to crypto.DefaultRand(); the output cannot be predicted
	// but must still decrypt under the permanent key to the bound values (monitor only)
	for i := c.N(60, 2000); i > 0; i-- {
		key := c04shared.GenKey(r)
		perm := key.WithID()
		if perm.Zero() {
			continue
		}
		inner := &crypto.BindAuthKeyInner{Nonce: int64(r.U64()), TempAuthKeyID: int64(r.U64()), PermAuthKeyID: int64(r.U64()),
			TempSessionID: int64(r.U64()), ExpiresAt: int(int32(r.U64()))}
		msgID := int64(r.U64())
		out, err := crypto.EncryptBindMessage(nil, perm, msgID, inner)
		line := fmt.Sprintf("bind(rand=nil) key %s msgID %d inner %+v", hc.Hex(key[:]), msgID, *inner)
		c.Count("op.EncryptBindMessage(rand=nil)")
		if err != nil {
			c.Fail("bind-error", line, err.Error())
			continue
		}
		if detail := bindMonitor(out, key, perm.ID, msgID, inner); detail != "" {
			c.Fail("bind-does-not-decrypt", line, detail)
		}
	}
	rt.Verify(c)
	// ---- the same APIs used from 2..4 goroutines at once (each with its own random reader; the
	// functions are pure apart from their arguments): results checked by the monitor immediately and
	// again, byte for byte, after all workers are done
	workers := r.Range(2, 4)
	c04shared.Concurrently(c, &rt, workers, c.N(400, 20000)/workers, func(r *hc.RNG, w, i int) {
		key := c04shared.GenKey(r)
		perm := key.WithID()
		if perm.Zero() {
			return
		}
		inner := &crypto.BindAuthKeyInner{Nonce: int64(r.U64()), TempAuthKeyID: int64(r.U64()), PermAuthKeyID: int64(r.U64()),
			TempSessionID: int64(r.U64()), ExpiresAt: int(int32(r.U64()))}
		msgID := int64(r.U64())
		rnd := r.Bytes(64)
		line := fmt.Sprintf("bind %s %s %s %d %d %d %d %d %d", hc.Hex(rnd), hc.Hex(key[:]), hc.Hex(perm.ID[:]),
			uint64(msgID), uint64(inner.Nonce), uint64(inner.TempAuthKeyID), uint64(inner.PermAuthKeyID),
			uint64(inner.TempSessionID), uint32(int32(inner.ExpiresAt)))
		out, err := crypto.EncryptBindMessage(bytes.NewReader(rnd), perm, msgID, inner)
		c.Count("concurrent.EncryptBindMessage")
		if err != nil {
			c.Fail("bind-error", line, err.Error())
			return
		}
		rt.Keep("EncryptBindMessage(concurrent)", line, func() []byte { return out })
		if detail := bindMonitor(append([]byte{}, out...), key, perm.ID, msgID, inner); detail != "" {
			c.Fail("bind-does-not-decrypt", line, "concurrent use, "+fmt.Sprint(workers)+" goroutines: "+detail)
		}
		var mk bin.Int128
		copy(mk[:], r.Bytes(16))
		k, iv := crypto.Keys(key, mk, crypto.Server)
		if wk, wiv := specKeys(key[:], mk[:], 8); !bytes.Equal(k[:], wk) || !bytes.Equal(iv[:], wiv) {
			c.Fail("keys-differ-from-spec", fmt.Sprintf("keys s %s %s", hc.Hex(key[:]), hc.Hex(mk[:])), "concurrent use")
		}
		c.Count("concurrent.Keys")
	})
	flush()
	if flushErr != nil {
		return flushErr
	}
	c.Res.Rule = "random 2048-bit auth keys (5% all-zero / all-FF / low-entropy), both directions, random message keys (3% zero), plaintext lengths clustered at the SHA block boundaries (55/56/63/64/119/120) and random up to 4096; bind messages with random 64-bit fields, edge expiries and a 10% foreign cached key id. Every result (bind message, keys) is retained as returned and re-read after the later calls of the run, and the bind/Keys APIs are also driven from 2..4 goroutines at once. Every case is non-trivial; distinct = distinct input line"
	c.Note("each answer of the model carries Impl (regenerated tables) and Spec (specification text) values; both must equal the Go output")
	return nil
}

// bindMonitor decrypts an EncryptBindMessage output the way the specification describes
// (api/pfs "special binding message") using crypto/sha1 + crypto/aes directly.
func bindMonitor(out []byte, key crypto.Key, id [8]byte, msgID int64, inner *crypto.BindAuthKeyInner) string {
	if len(out) < 24 || (len(out)-24)%16 != 0 {
		return fmt.Sprintf("length %d is not 24 + 16k", len(out))
	}
	if !bytes.Equal(out[:8], id[:]) {
		return "perm_auth_key_id prefix differs"
	}
	mk := out[8:24]
	k, iv := specKeysV1(key[:], mk, 0)
	blk, err := aes.NewCipher(k)
	if err != nil {
		return err.Error()
	}
	pt := make([]byte, len(out)-24)
	ige.DecryptBlocks(blk, iv, pt, out[24:])
	if len(pt) < 32 {
		return "plaintext shorter than the envelope"
	}
	if int64(binary.LittleEndian.Uint64(pt[16:24])) != msgID {
		return "msg_id differs"
	}
	if binary.LittleEndian.Uint32(pt[24:28]) != 0 {
		return "seq_no is not 0"
	}
	l := int(binary.LittleEndian.Uint32(pt[28:32]))
	if l != 40 || 32+l > len(pt) {
		return fmt.Sprintf("msg_len %d", l)
	}
	if len(pt)-(32+l) > 15 {
		return "more than 15 bytes of padding"
	}
	s := sha1.Sum(pt[:32+l])
	if !bytes.Equal(s[4:20], mk) {
		return "msg_key is not substr(sha1(message_data), 4, 16)"
	}
	var got crypto.BindAuthKeyInner
	if err := got.Decode(&bin.Buffer{Buf: pt[32 : 32+l]}); err != nil {
		return err.Error()
	}
	if got != *inner {
		return fmt.Sprintf("inner differs: %+v vs %+v", got, *inner)
	}
	return ""
}
