// Structured facts for the RLE layer of C38: the loop body of fileid.rleEncode is symbolically
// executed into Lean terms (next counter value and bytes emitted for one input byte, bytes emitted
// after the loop); rleDecode is pinned by its canonical source.
package main

import (
	"fmt"
	"go/ast"
	"go/token"
	"strings"

	"verif/harness/hc"
)

type rleState struct {
	count string // Lean Int term
	out   string // Lean `List Int` term: bytes appended to r so far in this iteration
}

type rleX struct {
	f       *hc.Facts
	res     string // name of the result slice
	counter string // name of the byte counter
	cur     string // loop variable
	err     error
}

func (x *rleX) fail(format string, a ...any) {
	if x.err == nil {
		x.err = fmt.Errorf(format, a...)
	}
}

// expr translates an integer expression over the counter, the current byte and constants.
func (x *rleX) expr(e ast.Expr, st rleState) string {
	switch e := e.(type) {
	case *ast.BasicLit:
		if e.Kind == token.INT {
			return "(" + e.Value + " : Int)"
		}
	case *ast.Ident:
		switch e.Name {
		case x.counter:
			return st.count
		case x.cur:
			return "cur"
		}
	case *ast.SelectorExpr:
		if id, ok := e.X.(*ast.Ident); ok && id.Name == "math" && e.Sel.Name == "MaxUint8" {
			return "(255 : Int)"
		}
	case *ast.ParenExpr:
		return x.expr(e.X, st)
	}
	x.fail("unsupported expression %s", x.f.Src(e))
	return "0"
}

func (x *rleX) cond(e ast.Expr, st rleState) string {
	b, ok := e.(*ast.BinaryExpr)
	if ok {
		op := map[token.Token]string{token.EQL: "=", token.NEQ: "≠", token.GTR: ">", token.LSS: "<", token.GEQ: "≥", token.LEQ: "≤"}[b.Op]
		if op != "" {
			return "decide (" + x.expr(b.X, st) + " " + op + " " + x.expr(b.Y, st) + ")"
		}
	}
	x.fail("unsupported condition %s", x.f.Src(e))
	return "false"
}

func ite(c, a, b string) string {
	if a == b {
		return a
	}
	return "(if " + c + " = true then " + a + " else " + b + ")"
}

// exec runs the statements to the end of the iteration (a `continue` ends it early).
func (x *rleX) exec(list []ast.Stmt, st rleState) rleState {
	if len(list) == 0 || x.err != nil {
		return st
	}
	rest := list[1:]
	switch s := list[0].(type) {
	case *ast.BranchStmt:
		if s.Tok == token.CONTINUE && s.Label == nil {
			return st
		}
	case *ast.IfStmt:
		if s.Init == nil && s.Else == nil {
			c := x.cond(s.Cond, st)
			th := x.exec(append(append([]ast.Stmt{}, s.Body.List...), rest...), st)
			el := x.exec(rest, st)
			return rleState{ite(c, th.count, el.count), ite(c, th.out, el.out)}
		}
	case *ast.IncDecStmt:
		if id, ok := s.X.(*ast.Ident); ok && id.Name == x.counter && s.Tok == token.INC {
			st.count = "((" + st.count + " + 1) % 256)" // the counter is a Go byte
			return x.exec(rest, st)
		}
	case *ast.AssignStmt:
		if s.Tok == token.ASSIGN && len(s.Lhs) == 1 && len(s.Rhs) == 1 {
			if id, ok := s.Lhs[0].(*ast.Ident); ok {
				switch id.Name {
				case x.counter:
					st.count = x.expr(s.Rhs[0], st)
					return x.exec(rest, st)
				case x.res: // r = append(r, a, b, …)
					if c, ok := s.Rhs[0].(*ast.CallExpr); ok && len(c.Args) >= 2 && c.Ellipsis == token.NoPos {
						fn, ok1 := c.Fun.(*ast.Ident)
						a0, ok2 := c.Args[0].(*ast.Ident)
						if ok1 && ok2 && fn.Name == "append" && a0.Name == x.res {
							var el []string
							for _, a := range c.Args[1:] {
								el = append(el, x.expr(a, st))
							}
							st.out = "(" + st.out + " ++ [" + strings.Join(el, ", ") + "])"
							return x.exec(rest, st)
						}
					}
				}
			}
		}
	}
	x.fail("unsupported statement %s", x.f.Src(list[0]))
	return st
}

func rleFacts(f *hc.Facts) {
	missing := func(why string) {
		f.Raw("def rleStepCount (count cur : Int) : Int := missing_fact_rleStepCount -- rleEncode: " + why)
		f.Raw("def rleStepOut (count cur : Int) : List Int := missing_fact_rleStepOut")
		f.Raw("def rleFlushOut (count : Int) : List Int := missing_fact_rleFlushOut")
	}
	fd := f.FuncDecl(fdir, "rleEncode")
	if fd == nil || fd.Body == nil || len(fd.Body.List) != 4 || fd.Type.Results == nil || len(fd.Type.Results.List) != 1 || len(fd.Type.Results.List[0].Names) != 1 {
		missing("not found or unexpected shape (var counter; for range; flush; return)")
		return
	}
	x := &rleX{f: f, res: fd.Type.Results.List[0].Names[0].Name}
	// 1. `var count byte`
	if ds, ok := fd.Body.List[0].(*ast.DeclStmt); ok {
		if gd, ok := ds.Decl.(*ast.GenDecl); ok && gd.Tok == token.VAR && len(gd.Specs) == 1 {
			vs := gd.Specs[0].(*ast.ValueSpec)
			if t, ok := vs.Type.(*ast.Ident); ok && (t.Name == "byte" || t.Name == "uint8") && len(vs.Names) == 1 && len(vs.Values) == 0 {
				x.counter = vs.Names[0].Name
			}
		}
	}
	rs, ok := fd.Body.List[1].(*ast.RangeStmt)
	if x.counter == "" || !ok {
		missing("no `var count byte` followed by a range loop")
		return
	}
	if v, ok := rs.Value.(*ast.Ident); ok {
		x.cur = v.Name
	}
	if k, ok := rs.Key.(*ast.Ident); !ok || k.Name != "_" || x.cur == "" {
		missing("unsupported range clause")
		return
	}
	st := x.exec(rs.Body.List, rleState{"count", "[]"})
	fl := x.exec(fd.Body.List[2:3], rleState{"count", "[]"})
	if ret, ok := fd.Body.List[3].(*ast.ReturnStmt); !ok || len(ret.Results) != 1 || f.Src(ret.Results[0]) != x.res {
		x.fail("last statement is not `return %s`", x.res)
	}
	if fl.count != "count" && x.err == nil {
		// the counter after the final flush is not observable
	}
	if x.err != nil {
		missing(x.err.Error())
		return
	}
	f.Raw("-- one iteration of `for _, cur := range s` in rleEncode (count is a Go byte), translated from: " + strings.Join(strings.Fields(f.Src(rs.Body)), " "))
	f.Raw("def rleStepCount (count cur : Int) : Int := " + st.count)
	f.Raw("def rleStepOut (count cur : Int) : List Int := " + st.out)
	f.Raw("def rleFlushOut (count : Int) : List Int := " + fl.out + " -- after the loop: " + strings.Join(strings.Fields(f.Src(fd.Body.List[2])), " "))
	dec := strings.Join(strings.Fields(f.FuncSrc(fdir, "rleDecode")), " ")
	f.Bool("rleDecodeShape", dec == "{ var last []byte for _, cur := range s { if string(last) == string(rune(0)) { r = append(r, bytes.Repeat(last, int(cur))...) last = nil } else { r = append(r, last...) last = []byte{cur} } } r = append(r, last...) return r }",
		"rleDecode is the pinned loop (a pending zero byte is expanded by the next byte, anything else is copied)")
	// --- hand-transliterated glue: pinned by canonical source (comments stripped)
	type pin struct{ name, want string }
	pins := []pin{
		{"EncodeFileID", "{ var buf bin.Buffer id.encodeLatestFileID(&buf) buf.Buf = append(buf.Buf, persistentIDVersion) buf.Buf = rleEncode(buf.Buf) return base64Encode(buf.Buf), nil }"},
		{"DecodeFileID", "{ if s == \"\" { return FileID{}, errors.New(\"input is empty\") } data, err := base64Decode(s) if err != nil { return FileID{}, errors.Wrap(err, \"base64\") } data = rleDecode(data) if len(data) < 2 { return FileID{}, errors.New(\"RLE-decoded data is too small\") } switch version := data[len(data)-1]; version { case persistentIDVersionOld, persistentIDVersionMap: return FileID{}, errors.Errorf(\"%v is unsupported now\", version) case persistentIDVersion: data = data[:len(data)-1] err := fileID.decodeLatestFileID(&bin.Buffer{Buf: data}) return fileID, err default: return FileID{}, errors.Errorf(\"unknown file_id version %x\", version) } }"},
		{"base64Encode", "{ return base64.RawURLEncoding.EncodeToString(s) }"},
		{"base64Decode", "{ return base64.RawURLEncoding.DecodeString(s) }"},
	}
	var changed []string
	for _, p := range pins {
		if noComments(f.FuncSrc(fdir, p.name)) != p.want {
			changed = append(changed, fmt.Sprintf("%q", p.name))
		}
	}
	// the flag arithmetic on the type word, inside encodeLatestFileID / decodeLatestFileID
	typeWord := func(fn string, wants []string) {
		src := noComments(f.FuncSrc(fdir, fn))
		for _, w := range wants {
			if !strings.Contains(src, w) {
				changed = append(changed, fmt.Sprintf("%q", fn+": "+w))
			}
		}
	}
	typeWord("FileID.decodeLatestFileID", []string{
		"if len(b.Buf) < 1 { return io.ErrUnexpectedEOF } var subVersion = b.Buf[len(b.Buf)-1] typeID, err := b.Uint32()",
		"hasWebLocation := typeID&webLocationFlag != 0 hasReference := typeID&fileReferenceFlag != 0 typeID &^= webLocationFlag typeID &^= fileReferenceFlag if typeID >= uint32(lastType) { return errors.Errorf(\"unknown type %d\", typeID) } f.Type = Type(typeID)",
	})
	typeWord("FileID.encodeLatestFileID", []string{
		"hasWebLocation := f.URL != \"\" hasReference := len(f.FileReference) != 0 { typeID := f.Type if hasWebLocation { typeID |= webLocationFlag } if hasReference { typeID |= fileReferenceFlag } b.PutUint32(uint32(typeID)) }",
	})
	f.Raw("def changedGlue : List String := [" + strings.Join(changed, ", ") + "] -- hand-transliterated glue (EncodeFileID, DecodeFileID, base64, flag arithmetic on the type word) whose source differs from the text the model was written from")
}

func noComments(src string) string {
	var out []string
	for _, l := range strings.Split(src, "\n") {
		if i := strings.Index(l, "//"); i >= 0 {
			l = l[:i]
		}
		out = append(out, l)
	}
	return strings.Join(strings.Fields(strings.Join(out, " ")), " ")
}
