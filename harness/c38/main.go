// C38 — Bot-API file ids: correspondence of fileid.{rleEncode,rleDecode,EncodeFileID,DecodeFileID}
// with the Lean model TdModel.C38, plus the property monitor on the implementation.
package main

import (
	"bytes"
	"encoding/base64"
	"fmt"
	"strings"

	"github.com/gotd/td/constant"
	"github.com/gotd/td/fileid"
	"github.com/gotd/td/tg"

	"verif/harness/hc"
)

func main() {
	hc.Main(hc.Spec{Prop: "C38", Facts: facts, Run: run})
}

func facts(f *hc.Facts) {
	f.Const("persistentIDVersion", "fileid", "persistentIDVersion")
	f.Const("persistentIDVersionOld", "fileid", "persistentIDVersionOld")
	f.Const("persistentIDVersionMap", "fileid", "persistentIDVersionMap")
	f.Const("latestSubVersion", "fileid", "latestSubVersion")
	f.Const("lastType", "fileid", "lastType")
	f.Const("lastPSSType", "fileid", "lastPhotoSizeSourceType")
	f.Const("webLocationFlag", "fileid", "webLocationFlag")
	f.Const("fileReferenceFlag", "fileid", "fileReferenceFlag")
	f.Const("typeThumbnail", "fileid", "Thumbnail")
	f.Const("typeProfilePhoto", "fileid", "ProfilePhoto")
	f.Const("typePhoto", "fileid", "Photo")
	for _, n := range []string{"Voice", "Video", "Document", "Sticker", "Audio", "Animation", "VideoNote", "DocumentAsFile"} {
		f.Const("type"+n, "fileid", n)
	}
	f.Const("pssThumbnail", "fileid", "PhotoSizeSourceThumbnail")
	f.Const("pssDialogPhotoSmall", "fileid", "PhotoSizeSourceDialogPhotoSmall")
	f.Const("pssDialogPhotoBig", "fileid", "PhotoSizeSourceDialogPhotoBig")
	wireFacts(f)
	rleFacts(f)
}

func genBytes(r *hc.RNG) []byte {
	var b []byte
	parts := r.Range(0, 6)
	for i := 0; i < parts; i++ {
		switch r.Intn(5) {
		case 0: // long zero run around the byte counter's range
			b = append(b, make([]byte, hc.Pick(r, 1, 2, 254, 255, 256, 257, 300, 510, 511, 512, 600, 1000, r.Range(250, 1100)))...)
		case 1:
			b = append(b, make([]byte, r.Range(1, 8))...)
		case 2:
			b = append(b, r.Bytes(r.Range(1, 20))...)
		case 3:
			b = append(b, byte(r.Range(1, 255)))
		case 4:
			b = append(b, 0, byte(r.Intn(256)))
		}
	}
	return b
}

func showID(f fileid.FileID) string {
	p := f.PhotoSizeSource
	return fmt.Sprintf("%d %d %d %d %s %s %d %d %d %d %d %d %d %d %d %d %d",
		uint32(f.Type), uint32(f.DC), uint64(f.ID), uint64(f.AccessHash), hc.Hex(f.FileReference), hc.Hex([]byte(f.URL)),
		uint32(int32(p.Type)), uint64(p.VolumeID), uint32(int32(p.LocalID)), uint64(p.Secret), uint32(p.FileType), uint32(p.ThumbnailType),
		uint64(p.DialogID), uint64(p.DialogAccessHash), uint64(p.StickerSetID), uint64(p.StickerSetAccessHash), uint32(p.StickerVersion))
}

func i64(r *hc.RNG) int64 {
	switch r.Intn(4) {
	case 0:
		return 0
	case 1:
		return int64(r.Intn(1000))
	case 2: // values with embedded zero bytes
		return int64(r.U64() & hc.Pick[uint64](r, 0xff, 0xff00, 0xff000000000000, 0x00ff00ff00ff00ff, 1<<63))
	}
	return int64(r.U64())
}

func genID(r *hc.RNG, canonical bool) fileid.FileID {
	var f fileid.FileID
	f.Type = fileid.Type(r.Intn(18))
	if r.Chance(40) {
		f.Type = hc.Pick(r, fileid.Thumbnail, fileid.Photo, fileid.ProfilePhoto)
	}
	f.DC = hc.Pick(r, 0, 1, 2, 4, 5, 203, r.Intn(1<<31))
	if r.Chance(60) {
		f.FileReference = genBytes(r)
	}
	if r.Chance(15) {
		f.URL = "https://" + strings.Repeat("a", hc.Pick(r, 0, 1, 3, 240, 245, 246, 247, 260, 300)) + ".example/" + string(rune('a'+r.Intn(26)))
		if canonical {
			return f
		}
	}
	f.ID = i64(r)
	f.AccessHash = i64(r)
	isPhoto := f.Type == fileid.Thumbnail || f.Type == fileid.Photo || f.Type == fileid.ProfilePhoto
	if isPhoto || !canonical {
		p := &f.PhotoSizeSource
		p.Type = fileid.PhotoSizeSourceType(r.Intn(10))
		all := !canonical
		switch p.Type {
		case fileid.PhotoSizeSourceLegacy:
			p.Secret = i64(r)
		case fileid.PhotoSizeSourceThumbnail:
			p.FileType = fileid.Type(r.Intn(18))
			p.ThumbnailType = rune(hc.Pick(r, 'a', 'm', 'x', 0, -1, 0x1F600))
		case fileid.PhotoSizeSourceDialogPhotoBig, fileid.PhotoSizeSourceDialogPhotoSmall:
			p.DialogID = constant.TDLibPeerID(i64(r))
			p.DialogAccessHash = i64(r)
		case fileid.PhotoSizeSourceStickerSetThumbnail:
			p.StickerSetID, p.StickerSetAccessHash = i64(r), i64(r)
		case fileid.PhotoSizeSourceFullLegacy:
			p.VolumeID, p.Secret, p.LocalID = i64(r), i64(r), int(int32(r.U64()))
		case fileid.PhotoSizeSourceDialogPhotoBigLegacy, fileid.PhotoSizeSourceDialogPhotoSmallLegacy:
			p.DialogID = constant.TDLibPeerID(i64(r))
			p.DialogAccessHash = i64(r)
			p.VolumeID, p.LocalID = i64(r), int(int32(r.U64()))
		case fileid.PhotoSizeSourceStickerSetThumbnailLegacy:
			p.StickerSetID, p.StickerSetAccessHash = i64(r), i64(r)
			p.VolumeID, p.LocalID = i64(r), int(int32(r.U64()))
		case fileid.PhotoSizeSourceStickerSetThumbnailVersion:
			p.StickerSetID, p.StickerSetAccessHash = i64(r), i64(r)
			p.StickerVersion = int32(r.U64())
		}
		if all && r.Bool() {
			p.Secret, p.VolumeID = i64(r), i64(r)
		}
	}
	return f
}

func equalID(a, b fileid.FileID) bool {
	ra, rb := a.FileReference, b.FileReference
	a.FileReference, b.FileReference = nil, nil
	return bytes.Equal(ra, rb) && showID(a) == showID(b)
}

func decodeSafe(s string) (f fileid.FileID, err error, panicked any) {
	defer func() {
		if r := recover(); r != nil {
			panicked = r
		}
	}()
	f, err = fileid.DecodeFileID(s)
	return
}

func run(c *hc.Ctx) error {
	r := c.Rng
	// ---- 1. RLE layer
	n := c.N(3000, 300000)
	var lines, inputs []string
	var impls []string
	for i := 0; i < n; i++ {
		s := genBytes(r)
		enc := fileid.VerifRLEEncode(s)
		dec := fileid.VerifRLEDecode(enc)
		maxRun, run := 0, 0
		for _, x := range s {
			if x == 0 {
				run++
				if run > maxRun {
					maxRun = run
				}
			} else {
				run = 0
			}
		}
		switch {
		case maxRun >= 256:
			c.Count("rle.zero-run>=256")
		case maxRun >= 1:
			c.Count("rle.zero-run<256")
		default:
			c.Count("rle.no-zero")
		}
		c.Eval("rle "+hc.Hex(s), maxRun >= 255)
		if !bytes.Equal(dec, s) {
			c.Fail("rle-roundtrip", "rle "+hc.Hex(s), fmt.Sprintf("rleDecode(rleEncode(s)) has length %d, s has length %d", len(dec), len(s)))
		}
		lines = append(lines, "rleenc "+hc.Hex(s))
		inputs = append(inputs, "rleenc "+hc.Hex(s))
		impls = append(impls, hc.Hex(enc))
		// decoder on arbitrary bytes (also not RLE-produced)
		a := r.Bytes(r.Range(0, 12))
		if r.Bool() {
			a = append(a, 0)
		}
		lines = append(lines, "rledec "+hc.Hex(a))
		inputs = append(inputs, "rledec "+hc.Hex(a))
		impls = append(impls, hc.Hex(fileid.VerifRLEDecode(a)))
	}
	// ---- 2. whole file ids
	m := c.N(4000, 400000)
	for i := 0; i < m; i++ {
		canonical := r.Chance(85)
		id := genID(r, canonical)
		s, err := fileid.EncodeFileID(id)
		if err != nil {
			c.Fail("encode-error", showID(id), err.Error())
			continue
		}
		raw, err := base64.RawURLEncoding.DecodeString(s)
		if err != nil {
			c.Fail("encode-not-base64", showID(id), err.Error())
			continue
		}
		back, derr, p := decodeSafe(s)
		kind := "id.canonical"
		if !canonical {
			kind = "id.noncanonical"
		}
		c.Count(kind)
		c.Count(fmt.Sprintf("id.type=%d", int(id.Type)))
		c.Eval("enc "+showID(id), canonical)
		if p != nil {
			c.Fail("decode-panic", "str "+s, fmt.Sprint(p))
		} else if canonical && (derr != nil || !equalID(back, id)) {
			c.Fail("fileid-roundtrip", "enc "+showID(id), fmt.Sprintf("decoded %s err=%v", showID(back), derr))
		}
		lines = append(lines, "enc "+showID(id))
		inputs = append(inputs, "enc "+showID(id))
		cn := "canon"
		if !canonical {
			cn = "" // the model decides; only compare bytes
		}
		impls = append(impls, hc.Hex(raw)+" "+cn)
		// ---- 3. decoding arbitrary / mutated input
		var data []byte
		switch r.Intn(4) {
		case 0:
			data = r.Bytes(r.Range(0, 40))
		case 1:
			data = append([]byte{}, raw...)
			if len(data) > 0 {
				data[r.Intn(len(data))] ^= byte(1 << r.Intn(8))
			}
		case 2:
			data = append([]byte{}, raw[:r.Intn(len(raw)+1)]...)
			data = append(data, hc.Pick[byte](r, 2, 3, 4, 4, 4, 5))
		case 3: // legacy sub-versions
			dd := fileid.VerifRLEDecode(raw)
			if len(dd) >= 2 {
				dd[len(dd)-2] = byte(hc.Pick(r, 0, 3, 4, 21, 22, 31, 32, 33, 34, 35))
			}
			data = fileid.VerifRLEEncode(dd)
		}
		str := base64.RawURLEncoding.EncodeToString(data)
		got, derr, p := decodeSafe(str)
		c.Eval("dec "+hc.Hex(data), true)
		out := ""
		switch {
		case p != nil:
			c.Fail("decode-panic", "str "+str, fmt.Sprint(p))
			out = "panic"
			c.Count("dec.panic")
		case str == "":
			out = "err"
		case derr != nil:
			out = "err"
			c.Count("dec.err")
		default:
			out = "ok " + showID(got)
			c.Count("dec.ok")
		}
		// independent oracle (TDLib layout, harness/c38/ref.go)
		if p == nil && str != "" {
			want, ok := refDecode(data)
			gotS, gotOK := "", derr == nil
			if gotOK {
				gotS = showID(got)
			}
			if ok != gotOK || (ok && want != gotS) {
				c.Fail("decode-not-tdlib-layout", "dec "+hc.Hex(data), fmt.Sprintf("DecodeFileID: ok=%v %s; reference layout: ok=%v %s", gotOK, gotS, ok, want))
			}
		}
		lines = append(lines, "dec "+hc.Hex(data))
		inputs = append(inputs, "dec "+hc.Hex(data))
		impls = append(impls, out)
	}
	// ---- 4. constructors: FromDocument / FromPhoto / FromChatPhoto build canonical ids
	for i := 0; i < c.N(1500, 100000); i++ {
		var id fileid.FileID
		var line string
		ref := genBytes(r)
		dc := hc.Pick(r, 1, 2, 4, 5, 203, r.Intn(1<<31))
		switch r.Intn(3) {
		case 0:
			doc := &tg.Document{DCID: dc, ID: i64(r), AccessHash: i64(r), FileReference: ref}
			var codes []string
			for k := r.Intn(4); k > 0; k-- {
				switch r.Intn(7) {
				case 0:
					doc.Attributes = append(doc.Attributes, &tg.DocumentAttributeAnimated{})
					codes = append(codes, "a")
				case 1:
					doc.Attributes = append(doc.Attributes, &tg.DocumentAttributeSticker{})
					codes = append(codes, "s")
				case 2:
					doc.Attributes = append(doc.Attributes, &tg.DocumentAttributeVideo{})
					codes = append(codes, "v")
				case 3:
					doc.Attributes = append(doc.Attributes, &tg.DocumentAttributeVideo{RoundMessage: true})
					codes = append(codes, "r")
				case 4:
					doc.Attributes = append(doc.Attributes, &tg.DocumentAttributeAudio{})
					codes = append(codes, "u")
				case 5:
					doc.Attributes = append(doc.Attributes, &tg.DocumentAttributeAudio{Voice: true})
					codes = append(codes, "o")
				default:
					doc.Attributes = append(doc.Attributes, &tg.DocumentAttributeFilename{FileName: "x"})
					codes = append(codes, "f")
				}
			}
			id = fileid.FromDocument(doc)
			attrs := "-"
			if len(codes) > 0 {
				attrs = strings.Join(codes, "")
			}
			line = fmt.Sprintf("fromdoc %s %d %d %d %s", attrs, uint32(dc), uint64(doc.ID), uint64(doc.AccessHash), hc.Hex(ref))
			c.Count("from.document")
		case 1:
			ph := &tg.Photo{DCID: dc, ID: i64(r), AccessHash: i64(r), FileReference: ref}
			th := rune(hc.Pick(r, 'a', 'm', 'x', 'y', 's', 0, 0x1F600))
			id = fileid.FromPhoto(ph, th)
			line = fmt.Sprintf("fromphoto %d %d %d %d %s", uint32(th), uint32(dc), uint64(ph.ID), uint64(ph.AccessHash), hc.Hex(ref))
			c.Count("from.photo")
		default:
			peer := constant.TDLibPeerID(i64(r))
			ah := i64(r)
			big := r.Bool()
			cp := &tg.ChatPhoto{DCID: dc, PhotoID: i64(r)}
			id = fileid.FromChatPhoto(peer, ah, cp, big)
			b := 0
			if big {
				b = 1
			}
			line = fmt.Sprintf("fromchat %d %d %d %d %d", b, uint64(peer), uint64(ah), uint32(dc), uint64(cp.PhotoID))
			c.Count("from.chatphoto")
		}
		c.Eval(line, true)
		s, err := fileid.EncodeFileID(id)
		if err != nil {
			c.Fail("encode-error", line, err.Error())
			continue
		}
		back, derr, p := decodeSafe(s)
		if p != nil {
			c.Fail("decode-panic", "str "+s, fmt.Sprint(p))
		} else if derr != nil || !equalID(back, id) {
			c.Fail("fileid-roundtrip", line+" = enc "+showID(id), fmt.Sprintf("decoded %s err=%v", showID(back), derr))
		}
		lines = append(lines, line)
		inputs = append(inputs, line)
		impls = append(impls, "canon "+showID(id))
	}
	outs, err := c.Drv.Batch(lines)
	if err != nil {
		return err
	}
	for i, o := range outs {
		want := impls[i]
		switch {
		case strings.HasPrefix(lines[i], "enc "):
			// model prints "<hex> canon|noncanon"; implementation side leaves the flag empty when
			// the generator made a non-canonical value on purpose
			if strings.HasSuffix(want, " ") {
				o = strings.TrimSuffix(strings.TrimSuffix(o, "noncanon"), "canon")
			}
		case strings.HasPrefix(lines[i], "dec "):
			if strings.HasPrefix(o, "err ") {
				o = "err"
			}
		}
		if c.Compare(inputs[i], want, o) {
			c.Res.TracesValidated++
		}
	}
	c.Res.Rule = "RLE inputs are built from zero runs (incl. 254..1100), short zero runs, random bytes and literal (0,x) pairs; non-trivial = contains a zero run of ≥255 bytes. File ids are random over all 18 types, both flags and all 10 photo-size sources (85% canonical = non-trivial); decode inputs are random bytes, one-bit mutations, truncations and legacy sub-versions of valid ids (all non-trivial); distinct = distinct input line"
	c.PartialNote("Go runtime panics other than those surfaced by recover() around DecodeFileID are not exhibited by the model")
	return nil
}
