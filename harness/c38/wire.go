// Structured facts for C38: the ORDER and WIDTH of every field read/written by
// fileid.(*FileID).encodeLatestFileID / decodeLatestFileID and
// fileid.(*PhotoSizeSource).encode / decode (switch tables included) are extracted from the source
// as small "wire programs" that the Lean model INTERPRETS (TdModel/Model/C38.lean), and the loop
// body of rleEncode is symbolically executed into Lean terms.
//
// A wire step is (cond, kind, field):
//
//	kind  4 = 32-bit word (PutUint32/PutInt/PutInt32, Uint32/Int/Int32), 8 = 64-bit (PutLong/Long),
//	      1 = TL bytes/string, 9 = return, 7 = photo size source (nested), 2 = one raw byte appended,
//	      6 = the switch over the photo size source type (decode only)
//	field = index in fieldsFileID / fieldsPSS below
//	cond  (FileID programs) 0 always, 1 hasReference, 2 hasWebLocation, 3 type is a photo type,
//	      4 type is NOT a photo type
//	      (PhotoSizeSource.decode) lo*1000+hi: the step runs iff lo ≤ subVersion < hi
//
// Anything the extractor does not understand makes the fact ill-typed (fails closed).
package main

import (
	"fmt"
	"go/ast"
	"go/token"
	"strconv"
	"strings"

	"verif/harness/hc"
)

const fdir = "fileid"

var fieldsFileID = []string{"typeID", "DC", "FileReference", "URL", "ID", "AccessHash", "PhotoSizeSource", "latestSubVersion"}
var fieldsPSS = []string{"Type", "VolumeID", "LocalID", "Secret", "FileType", "ThumbnailType", "DialogID", "DialogAccessHash", "StickerSetID", "StickerSetAccessHash", "StickerVersion"}

var putKinds = map[string]int{"PutUint32": 4, "PutInt": 4, "PutInt32": 4, "PutLong": 8, "PutBytes": 1, "PutString": 1}
var getKinds = map[string]int{"Uint32": 4, "Int": 4, "Int32": 4, "Long": 8, "Bytes": 1, "String": 1}

type step struct{ cond, kind, field int }

type wx struct {
	f      *hc.Facts
	recv   string   // receiver variable of the function being walked
	fields []string // field table
	err    error
}

func (w *wx) fail(format string, a ...any) {
	if w.err == nil {
		w.err = fmt.Errorf(format, a...)
	}
}

func idx(tbl []string, name string) int {
	for i, x := range tbl {
		if x == name {
			return i
		}
	}
	return -1
}

// fieldOf finds `recv.Field` (or a bare identifier in the table) inside an expression.
func (w *wx) fieldOf(x ast.Expr) int {
	found := -1
	ast.Inspect(x, func(n ast.Node) bool {
		switch n := n.(type) {
		case *ast.SelectorExpr:
			if id, ok := n.X.(*ast.Ident); ok && id.Name == w.recv {
				if i := idx(w.fields, n.Sel.Name); i >= 0 {
					found = i
				}
				return false
			}
		case *ast.Ident:
			if i := idx(w.fields, n.Name); i >= 0 && found < 0 {
				found = i
			}
		}
		return true
	})
	return found
}

func recvOf(fd *ast.FuncDecl) string {
	if fd.Recv != nil && len(fd.Recv.List) == 1 && len(fd.Recv.List[0].Names) == 1 {
		return fd.Recv.List[0].Names[0].Name
	}
	return ""
}

// callOnBuf recognises `b.Method(args)`.
func callOnBuf(x ast.Expr) (string, []ast.Expr, bool) {
	c, ok := x.(*ast.CallExpr)
	if !ok {
		return "", nil, false
	}
	sel, ok := c.Fun.(*ast.SelectorExpr)
	if !ok {
		return "", nil, false
	}
	if id, ok := sel.X.(*ast.Ident); ok && id.Name == "b" {
		return sel.Sel.Name, c.Args, true
	}
	return "", nil, false
}

// helperCall recognises `recv.helper(b)` / `recv.PhotoSizeSource.encode(b)`.
func (w *wx) helperCall(x ast.Expr) (name string, onPSS bool, ok bool) {
	c, isCall := x.(*ast.CallExpr)
	if !isCall {
		return "", false, false
	}
	sel, isSel := c.Fun.(*ast.SelectorExpr)
	if !isSel {
		return "", false, false
	}
	switch r := sel.X.(type) {
	case *ast.Ident:
		if r.Name == w.recv {
			return sel.Sel.Name, false, true
		}
	case *ast.SelectorExpr:
		if id, ok := r.X.(*ast.Ident); ok && id.Name == w.recv && r.Sel.Name == "PhotoSizeSource" {
			return sel.Sel.Name, true, true
		}
	}
	return "", false, false
}

func (w *wx) constList(exprs []ast.Expr) []int {
	var out []int
	for _, e := range exprs {
		id, ok := e.(*ast.Ident)
		if !ok {
			w.fail("non-identifier case label")
			return nil
		}
		v, ok := w.f.ConstInt(fdir, id.Name)
		if !ok {
			w.fail("case label %s is not a constant", id.Name)
			return nil
		}
		n, _ := strconv.Atoi(v)
		out = append(out, n)
	}
	return out
}

// ---- encoders -------------------------------------------------------------------------------

// encSteps walks an encoder body; cond is the enclosing condition code.
func (w *wx) encSteps(list []ast.Stmt, cond int, pss bool) []step {
	var out []step
	for _, s := range list {
		switch s := s.(type) {
		case *ast.BlockStmt:
			out = append(out, w.encSteps(s.List, cond, pss)...)
		case *ast.ExprStmt:
			if m, args, ok := callOnBuf(s.X); ok {
				k, known := putKinds[m]
				if !known || len(args) != 1 {
					w.fail("unsupported buffer call %s", m)
					continue
				}
				fi := w.fieldOf(args[0])
				if fi < 0 {
					w.fail("cannot tell which field %s writes", w.f.Src(s.X))
				}
				out = append(out, step{cond, k, fi})
			} else if name, onPSS, ok := w.helperCall(s.X); ok {
				if onPSS && name == "encode" {
					out = append(out, step{cond, 7, idx(w.fields, "PhotoSizeSource")})
				} else if fd := w.f.FuncDecl(fdir, "PhotoSizeSource."+name); fd != nil && pss {
					sub := &wx{f: w.f, recv: recvOf(fd), fields: w.fields}
					out = append(out, sub.encSteps(fd.Body.List, cond, pss)...)
					if sub.err != nil {
						w.fail("%v", sub.err)
					}
				} else {
					w.fail("unsupported helper call %s", name)
				}
			} else {
				w.fail("unsupported statement %s", w.f.Src(s))
			}
		case *ast.IfStmt:
			id, ok := s.Cond.(*ast.Ident)
			c := map[string]int{"hasReference": 1, "hasWebLocation": 2}[func() string {
				if ok {
					return id.Name
				}
				return ""
			}()]
			if c == 0 || s.Else != nil || s.Init != nil || cond != 0 {
				w.fail("unsupported if %s", w.f.Src(s.Cond))
				continue
			}
			for _, st := range w.encSteps(s.Body.List, c, pss) {
				out = append(out, st)
			}
		case *ast.ReturnStmt:
			out = append(out, step{cond, 9, 0})
		case *ast.SwitchStmt: // `switch f.Type { case Thumbnail, Photo, ProfilePhoto: … }`
			if pss || cond != 0 || len(s.Body.List) != 1 {
				w.fail("unsupported switch")
				continue
			}
			cc := s.Body.List[0].(*ast.CaseClause)
			w.f.Raw("def encPhotoTypes : List Nat := " + natList(w.constList(cc.List)) + " -- encodeLatestFileID: case labels that carry a photo size source")
			out = append(out, w.encSteps(cc.Body, 3, pss)...)
		case *ast.AssignStmt:
			// `b.Buf = append(b.Buf, latestSubVersion)`; flag arithmetic on local variables is not a wire step
			src := strings.Join(strings.Fields(w.f.Src(s)), " ")
			if strings.HasPrefix(src, "b.Buf = append(b.Buf, ") {
				name := strings.TrimSuffix(strings.TrimPrefix(src, "b.Buf = append(b.Buf, "), ")")
				if fi := idx(w.fields, name); fi >= 0 {
					out = append(out, step{cond, 2, fi})
				} else {
					w.fail("unsupported raw append %s", src)
				}
			} else if strings.Contains(src, "b.") {
				w.fail("unsupported assignment %s", src)
			}
		default:
			w.fail("unsupported statement %s", w.f.Src(s))
		}
	}
	return out
}

// ---- decoders -------------------------------------------------------------------------------

// getAssign recognises `v, err := b.Method()` and returns (v, kind).
func getAssign(s ast.Stmt) (string, int, bool) {
	as, ok := s.(*ast.AssignStmt)
	if !ok || as.Tok != token.DEFINE || len(as.Lhs) != 2 || len(as.Rhs) != 1 {
		return "", 0, false
	}
	m, args, ok := callOnBuf(as.Rhs[0])
	if !ok || len(args) != 0 {
		return "", 0, false
	}
	k, known := getKinds[m]
	id, isID := as.Lhs[0].(*ast.Ident)
	if !known || !isID {
		return "", 0, false
	}
	return id.Name, k, true
}

// targetOf finds, after position i of list (searching enclosing lists too), the assignment
// `recv.Field = …v…` that stores the value read into v.
func (w *wx) targetOf(v string, lists [][]ast.Stmt) int {
	return w.targetOfDepth(v, lists, 0)
}

func (w *wx) targetOfDepth(v string, lists [][]ast.Stmt, depth int) int {
	if i := idx(w.fields, v); i >= 0 { // the local variable itself is a (pseudo) field, e.g. typeID
		return i
	}
	for li := len(lists) - 1; li >= 0; li-- {
		for _, s := range lists[li] {
			as, ok := s.(*ast.AssignStmt)
			if !ok || as.Tok != token.ASSIGN || len(as.Lhs) != 1 || len(as.Rhs) != 1 {
				continue
			}
			uses := false
			ast.Inspect(as.Rhs[0], func(n ast.Node) bool {
				if id, ok := n.(*ast.Ident); ok && id.Name == v {
					uses = true
				}
				return true
			})
			if !uses {
				continue
			}
			if sel, ok := as.Lhs[0].(*ast.SelectorExpr); ok {
				if id, ok := sel.X.(*ast.Ident); ok && id.Name == w.recv {
					if fi := idx(w.fields, sel.Sel.Name); fi >= 0 {
						return fi
					}
				}
			}
			if id, ok := as.Lhs[0].(*ast.Ident); ok && id.Name != v && depth < 2 { // `local = T(v)`; `recv.Field = local` follows
				if fi := w.targetOfDepth(id.Name, lists, depth+1); fi >= 0 {
					return fi
				}
			}
		}
	}
	return -1
}

// isErrCheck recognises `if err != nil { return … }`.
func isErrCheck(s ast.Stmt) bool {
	is, ok := s.(*ast.IfStmt)
	if !ok || is.Init != nil {
		return false
	}
	b, ok := is.Cond.(*ast.BinaryExpr)
	if !ok || b.Op != token.NEQ {
		return false
	}
	id, ok := b.X.(*ast.Ident)
	return ok && id.Name == "err"
}

// svRange translates a condition on subVersion into lo*1000+hi.
func svRange(f *hc.Facts, x ast.Expr) (int, bool) {
	lo, hi := 0, 256
	var walk func(x ast.Expr) bool
	walk = func(x ast.Expr) bool {
		b, ok := x.(*ast.BinaryExpr)
		if !ok {
			return false
		}
		if b.Op == token.LAND {
			return walk(b.X) && walk(b.Y)
		}
		id, ok1 := b.X.(*ast.Ident)
		lit, ok2 := b.Y.(*ast.BasicLit)
		if !ok1 || !ok2 || id.Name != "subVersion" || lit.Kind != token.INT {
			return false
		}
		n, _ := strconv.Atoi(lit.Value)
		switch b.Op {
		case token.LSS:
			if n < hi {
				hi = n
			}
		case token.GEQ:
			if n > lo {
				lo = n
			}
		default:
			return false
		}
		return true
	}
	if !walk(x) {
		return 0, false
	}
	return lo*1000 + hi, true
}

// decSteps walks a decoder body. For the FileID program cond is 0..4; for PhotoSizeSource.decode it
// is a subVersion range (rng=true).
func (w *wx) decSteps(list []ast.Stmt, cond int, rng bool, outer [][]ast.Stmt, table *[][2]any) []step {
	var out []step
	lists := append(append([][]ast.Stmt{}, outer...), list)
	for i, s := range list {
		switch s := s.(type) {
		case *ast.BlockStmt:
			out = append(out, w.decSteps(s.List, cond, rng, lists, table)...)
		case *ast.AssignStmt:
			if v, k, ok := getAssign(s); ok {
				fi := w.targetOf(v, append(append([][]ast.Stmt{}, outer...), list[i+1:]))
				if fi < 0 {
					w.fail("cannot tell which field receives %s", w.f.Src(s))
				}
				out = append(out, step{cond, k, fi})
				continue
			}
			src := strings.Join(strings.Fields(w.f.Src(s)), " ")
			if strings.Contains(src, "b.") && !strings.Contains(src, "b.Buf[len(b.Buf)-1]") {
				w.fail("unsupported assignment %s", src)
			}
		case *ast.DeclStmt:
			src := strings.Join(strings.Fields(w.f.Src(s)), " ")
			if strings.Contains(src, "b.") && !strings.Contains(src, "b.Buf[len(b.Buf)-1]") {
				w.fail("unsupported declaration %s", src)
			}
		case *ast.ReturnStmt:
			out = append(out, step{cond, 9, 0})
		case *ast.IfStmt:
			switch {
			case isErrCheck(s):
				// error propagation after a read
			case s.Init != nil: // `if err := recv.helper(b…); err != nil { return … }`
				as, ok := s.Init.(*ast.AssignStmt)
				if !ok || len(as.Rhs) != 1 {
					w.fail("unsupported if-init")
					continue
				}
				name, onPSS, ok := w.helperCall(as.Rhs[0])
				switch {
				case ok && onPSS && name == "decode":
					out = append(out, step{cond, 7, idx(w.fields, "PhotoSizeSource")})
				case ok && !onPSS && w.f.FuncDecl(fdir, "PhotoSizeSource."+name) != nil:
					fd := w.f.FuncDecl(fdir, "PhotoSizeSource."+name)
					sub := &wx{f: w.f, recv: recvOf(fd), fields: w.fields}
					for _, st := range sub.decSteps(fd.Body.List, cond, rng, nil, table) {
						if st.kind != 9 { // the helper's own `return nil`
							out = append(out, st)
						}
					}
					if sub.err != nil {
						w.fail("%v", sub.err)
					}
				default:
					w.fail("unsupported helper call in %s", w.f.Src(s.Init))
				}
			case rng:
				if r, ok := svRange(w.f, s.Cond); ok && s.Else == nil {
					// nested ranges only ever narrow the upper bound here; intersect
					lo, hi := max(cond/1000, r/1000), min(cond%1000, r%1000)
					out = append(out, w.decSteps(s.Body.List, lo*1000+hi, rng, lists, table)...)
				} else if src := strings.Join(strings.Fields(w.f.Src(s.Cond)), " "); src == "photoSizeType < 0 || photoSizeType >= lastPhotoSizeSourceType" {
					// range check of the type, part of the switch step (kind 6)
				} else {
					w.fail("unsupported condition %s", src)
				}
			default:
				id, ok := s.Cond.(*ast.Ident)
				c := 0
				if ok {
					c = map[string]int{"hasReference": 1, "hasWebLocation": 2}[id.Name]
				}
				if c == 0 || s.Else != nil || cond != 0 {
					if src := strings.Join(strings.Fields(w.f.Src(s.Cond)), " "); src == "len(b.Buf) < 1" || src == "typeID >= uint32(lastType)" {
						continue // length / range checks, modelled with the regenerated constants
					}
					w.fail("unsupported if %s", w.f.Src(s.Cond))
					continue
				}
				out = append(out, w.decSteps(s.Body.List, c, rng, lists, table)...)
			}
		case *ast.SwitchStmt:
			if rng { // the switch over photoSizeType: one table row per case clause
				var rows [][2]any
				for _, cl := range s.Body.List {
					cc := cl.(*ast.CaseClause)
					labels := w.constList(cc.List)
					sub := &wx{f: w.f, recv: w.recv, fields: w.fields}
					body := sub.decSteps(cc.Body, 0, false, nil, nil)
					if sub.err != nil {
						w.fail("%v", sub.err)
					}
					rows = append(rows, [2]any{labels, body})
				}
				*table = rows
				out = append(out, step{cond, 6, 0})
			} else { // `switch Type(typeID) { case Thumbnail, Photo, ProfilePhoto: default: return nil }`
				if len(s.Body.List) != 2 {
					w.fail("unsupported switch")
					continue
				}
				c0, c1 := s.Body.List[0].(*ast.CaseClause), s.Body.List[1].(*ast.CaseClause)
				if len(c0.Body) != 0 || c1.List != nil || len(c1.Body) != 1 {
					w.fail("unsupported switch shape")
					continue
				}
				w.f.Raw("def decPhotoTypes : List Nat := " + natList(w.constList(c0.List)) + " -- decodeLatestFileID: case labels that carry a photo size source")
				out = append(out, step{4, 9, 0})
			}
		default:
			w.fail("unsupported statement %s", w.f.Src(s))
		}
	}
	return out
}

// ---- emission ---------------------------------------------------------------------------------

func natList(xs []int) string {
	p := make([]string, len(xs))
	for i, x := range xs {
		p[i] = strconv.Itoa(x)
	}
	return "[" + strings.Join(p, ", ") + "]"
}

func stepList(ss []step) string {
	p := make([]string, len(ss))
	for i, s := range ss {
		p[i] = fmt.Sprintf("(%d, %d, %d)", s.cond, s.kind, s.field)
	}
	return "[" + strings.Join(p, ", ") + "]"
}

func wireFacts(f *hc.Facts) {
	f.Raw("-- wire programs: (cond, kind, field); see harness/c38/wire.go for the encoding")
	f.Raw("-- FileID fields: " + strings.Join(fieldsFileID, " ") + " | PhotoSizeSource fields: " + strings.Join(fieldsPSS, " "))
	emit := func(lean, goName string, fields []string, dec, pss bool) {
		fd := f.FuncDecl(fdir, goName)
		if fd == nil || fd.Body == nil {
			f.Raw(fmt.Sprintf("def %s : List (Nat × Nat × Nat) := missing_fact_%s -- %s not found", lean, lean, goName))
			return
		}
		w := &wx{f: f, recv: recvOf(fd), fields: fields}
		var steps []step
		var table [][2]any
		switch {
		case !dec:
			steps = w.encSteps(fd.Body.List, 0, pss)
		case pss:
			steps = w.decSteps(fd.Body.List, 0*1000+256, true, nil, &table) // [0,256): every subVersion
		default:
			steps = w.decSteps(fd.Body.List, 0, false, nil, nil)
		}
		if w.err != nil {
			f.Raw(fmt.Sprintf("def %s : List (Nat × Nat × Nat) := missing_fact_%s -- %s: %v", lean, lean, goName, w.err))
			return
		}
		f.Raw(fmt.Sprintf("def %s : List (Nat × Nat × Nat) := %s -- fileid.%s", lean, stepList(steps), goName))
		if dec && pss {
			rows := make([]string, len(table))
			for i, r := range table {
				rows[i] = "(" + natList(r[0].([]int)) + ", " + stepList(r[1].([]step)) + ")"
			}
			f.Raw("def pssDecodeSwitch : List (List Nat × List (Nat × Nat × Nat)) := [" + strings.Join(rows, ", ") + "] -- switch photoSizeType in PhotoSizeSource.decode")
		}
	}
	emit("encLatest", "FileID.encodeLatestFileID", fieldsFileID, false, false)
	emit("decLatest", "FileID.decodeLatestFileID", fieldsFileID, true, false)
	emit("pssDecode", "PhotoSizeSource.decode", fieldsPSS, true, true)
	// PhotoSizeSource.encode: head (before the switch) and one row per case clause
	if fd := f.FuncDecl(fdir, "PhotoSizeSource.encode"); fd != nil && fd.Body != nil && len(fd.Body.List) == 2 {
		w := &wx{f: f, recv: recvOf(fd), fields: fieldsPSS}
		head := w.encSteps(fd.Body.List[:1], 0, true)
		sw, ok := fd.Body.List[1].(*ast.SwitchStmt)
		var rows []string
		if ok {
			for _, cl := range sw.Body.List {
				cc := cl.(*ast.CaseClause)
				rows = append(rows, "("+natList(w.constList(cc.List))+", "+stepList(w.encSteps(cc.Body, 0, true))+")")
			}
		} else {
			w.fail("second statement is not the switch")
		}
		if w.err == nil {
			f.Raw("def pssEncodeHead : List (Nat × Nat × Nat) := " + stepList(head) + " -- PhotoSizeSource.encode before the switch")
			f.Raw("def pssEncodeSwitch : List (List Nat × List (Nat × Nat × Nat)) := [" + strings.Join(rows, ", ") + "] -- switch p.Type in PhotoSizeSource.encode")
		} else {
			f.Raw("def pssEncodeSwitch : List (List Nat × List (Nat × Nat × Nat)) := missing_fact_pssEncodeSwitch -- " + w.err.Error())
		}
	} else {
		f.Raw("def pssEncodeSwitch : List (List Nat × List (Nat × Nat × Nat)) := missing_fact_pssEncodeSwitch -- PhotoSizeSource.encode: unexpected shape")
	}
}
