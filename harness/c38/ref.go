// An independent reference decoder for Bot-API file ids, written from TDLib's layout (not from
// gotd's code, and not through the Lean model): it gives the property monitor an oracle for inputs
// that have no encoder in gotd (legacy sub-versions, arbitrary bytes), so that a reordered or
// re-typed field in decodeLatestFileID / PhotoSizeSource.decode yields a concrete failing input
// even when the interpreted model follows the changed code.
package main

import (
	"encoding/binary"
	"fmt"
)

// field indices: 0 Type 1 VolumeID 2 LocalID 3 Secret 4 FileType 5 ThumbnailType 6 DialogID
// 7 DialogAccessHash 8 StickerSetID 9 StickerSetAccessHash 10 StickerVersion
var refPSSLayout = map[uint32][][2]int{
	0: {{8, 3}},
	1: {{4, 4}, {4, 5}},
	2: {{8, 6}, {8, 7}},
	3: {{8, 6}, {8, 7}},
	4: {{8, 8}, {8, 9}},
	5: {{8, 1}, {8, 3}, {4, 2}},
	6: {{8, 6}, {8, 7}, {8, 1}, {4, 2}},
	7: {{8, 6}, {8, 7}, {8, 1}, {4, 2}},
	8: {{8, 8}, {8, 9}, {8, 1}, {4, 2}},
	9: {{8, 8}, {8, 9}, {4, 10}},
}

func refRLEDecode(s []byte) []byte {
	var out []byte
	for i := 0; i < len(s); i++ {
		if s[i] == 0 && i+1 < len(s) {
			out = append(out, make([]byte, int(s[i+1]))...)
			i++
			continue
		}
		out = append(out, s[i])
	}
	return out
}

type refReader struct {
	b   []byte
	bad bool
}

func (r *refReader) u32() uint64 {
	if r.bad || len(r.b) < 4 {
		r.bad = true
		return 0
	}
	v := binary.LittleEndian.Uint32(r.b)
	r.b = r.b[4:]
	return uint64(v)
}

func (r *refReader) u64() uint64 {
	if r.bad || len(r.b) < 8 {
		r.bad = true
		return 0
	}
	v := binary.LittleEndian.Uint64(r.b)
	r.b = r.b[8:]
	return v
}

func (r *refReader) word(k int) uint64 {
	if k == 8 {
		return r.u64()
	}
	return r.u32()
}

// bytes reads a TL string: 1-byte length ≤ 253, or 254 followed by a 3-byte length; padded to 4.
func (r *refReader) bytes() []byte {
	if r.bad || len(r.b) < 1 {
		r.bad = true
		return nil
	}
	hdr, n := 1, int(r.b[0])
	switch {
	case r.b[0] == 254:
		if len(r.b) < 4 {
			r.bad = true
			return nil
		}
		hdr, n = 4, int(r.b[1])|int(r.b[2])<<8|int(r.b[3])<<16
	case r.b[0] == 255:
		if len(r.b) < 256 { // gotd reports EOF before it looks at the invalid length byte
			r.bad = true
			return nil
		}
		r.bad = true
		return nil
	}
	if len(r.b) < hdr+n {
		r.bad = true
		return nil
	}
	total := (hdr + n + 3) / 4 * 4
	v := append([]byte{}, r.b[hdr:hdr+n]...)
	if len(r.b) < total {
		r.bad = true
		return nil
	}
	r.b = r.b[total:]
	return v
}

// refDecode returns the decoded id in showID's format, or ok=false for any error.
func refDecode(raw []byte) (string, bool) {
	d := refRLEDecode(raw)
	if len(d) < 2 || d[len(d)-1] != 4 {
		return "", false
	}
	d = d[:len(d)-1]
	sv := d[len(d)-1]
	r := &refReader{b: d}
	var p [11]uint64
	typeID := r.u32()
	hasWeb, hasRef := typeID&(1<<24) != 0, typeID&(1<<25) != 0
	t := typeID &^ (1<<24 | 1<<25)
	if r.bad || t >= 18 {
		return "", false
	}
	dc := r.u32()
	var ref, url []byte
	var id, ah uint64
	if hasRef {
		ref = r.bytes()
	}
	if hasWeb {
		url = r.bytes()
	} else {
		id, ah = r.u64(), r.u64()
		if t <= 2 && !r.bad { // thumbnail, profile photo, photo carry a photo size source
			legacyDone := false
			if sv < 32 {
				p[1] = r.u64()
				if sv < 22 {
					p[3] = r.u64()
					p[2] = r.u32()
					legacyDone = true
				}
			}
			if !legacyDone {
				var pt uint64
				if sv >= 4 {
					pt = r.u32()
				}
				if !r.bad && pt >= 10 { // includes negative int32 values
					return "", false
				}
				p[0] = pt
				for _, st := range refPSSLayout[uint32(pt)] {
					p[st[1]] = r.word(st[0])
				}
				if sv < 32 && sv >= 22 {
					p[2] = r.u32()
				}
			}
		}
	}
	if r.bad {
		return "", false
	}
	hx := func(b []byte) string {
		if len(b) == 0 {
			return "-"
		}
		return fmt.Sprintf("%x", b)
	}
	return fmt.Sprintf("%d %d %d %d %s %s %d %d %d %d %d %d %d %d %d %d %d", t, dc, id, ah, hx(ref), hx(url),
		p[0], p[1], p[2], p[3], p[4], p[5], p[6], p[7], p[8], p[9], p[10]), true
}
