// C27 — see harness/c27shared (shared scheduler, monitor and trace construction for C27 and C28).
package main

import (
	"verif/harness/c27shared"
	"verif/harness/hc"
)

func main() {
	hc.Main(hc.Spec{Prop: "C27", Facts: c27shared.Facts, Run: func(c *hc.Ctx) error { return c27shared.Main(c, "C27") }})
}
