// C41 — server salts: correspondence of salts.Salts.{Store,Get,Reset}, Conn.updateSalt/session and
// Conn.Invoke's bad-salt retry with the Lean model TdModel.C41, plus the property monitor: the salt
// field of every frame the connection writes is read back by decrypting the frame.
package main

import (
	"context"
	"fmt"
	"go/ast"
	"go/token"
	"os"
	"runtime"
	"sort"
	"strconv"
	"strings"
	"sync"
	"time"

	"github.com/gotd/neo"

	"github.com/gotd/td/bin"
	"github.com/gotd/td/crypto"
	"github.com/gotd/td/mt"
	"github.com/gotd/td/mtproto"
	"github.com/gotd/td/mtproto/salts"
	"github.com/gotd/td/proto"

	"verif/harness/hc"
)

func main() {
	hc.Main(hc.Spec{Prop: "C41", Facts: facts, Run: run})
}

// ---------------------------------------------------------------------------------- facts

func flat(s string) string { return strings.Join(strings.Fields(s), " ") }

var timeUnits = map[string]int64{"time.Nanosecond": 1, "time.Microsecond": 1e3, "time.Millisecond": 1e6,
	"time.Second": 1e9, "time.Minute": 60e9, "time.Hour": 3600e9}

func durationOf(f *hc.Facts, e ast.Expr) (int64, bool) {
	switch x := e.(type) {
	case *ast.SelectorExpr:
		v, ok := timeUnits[f.Src(x)]
		return v, ok
	case *ast.BasicLit:
		v, err := strconv.ParseInt(x.Value, 10, 64)
		return v, err == nil
	case *ast.ParenExpr:
		return durationOf(f, x.X)
	case *ast.BinaryExpr:
		a, ok1 := durationOf(f, x.X)
		b, ok2 := durationOf(f, x.Y)
		if ok1 && ok2 && x.Op == token.MUL {
			return a * b, true
		}
	}
	return 0, false
}

func stmts(f *hc.Facts, dir, fn string) (string, bool) {
	fd := f.FuncDecl(dir, fn)
	if fd == nil || fd.Body == nil {
		return "", false
	}
	var parts []string
	for _, st := range fd.Body.List {
		parts = append(parts, flat(f.Src(st)))
	}
	return strings.Join(parts, " ; "), true
}

func facts(f *hc.Facts) {
	f.Const("codeIncorrectServerSalt", "mtproto", "codeIncorrectServerSalt")

	// lookahead of updateSalt: the argument of `.Add(...)`
	found := false
	if fd := f.FuncDecl("mtproto", "Conn.updateSalt"); fd != nil {
		ast.Inspect(fd.Body, func(n ast.Node) bool {
			ce, ok := n.(*ast.CallExpr)
			if !ok || len(ce.Args) != 1 {
				return true
			}
			if se, ok := ce.Fun.(*ast.SelectorExpr); ok && se.Sel.Name == "Add" {
				if v, ok := durationOf(f, ce.Args[0]); ok && !found {
					found = true
					f.Raw(fmt.Sprintf("def lookaheadNs : Nat := %d -- %s in Conn.updateSalt", v, f.Src(ce.Args[0])))
				}
			}
			return true
		})
	}
	if !found {
		f.Missing("lookaheadNs", "c.clock.Now().Add(<duration>) not found in Conn.updateSalt")
	}
	for _, p := range [][3]string{
		{"updateSaltBody", "mtproto", "Conn.updateSalt"},
		{"storeBody", "mtproto/salts", "Salts.Store"},
		{"getBody", "mtproto/salts", "Salts.Get"},
		{"resetBody", "mtproto/salts", "Salts.Reset"},
		{"lessBody", "mtproto/salts", "saltSlice.Less"},
	} {
		if s, ok := stmts(f, p[1], p[2]); ok {
			f.Str(p[0], s, "statements of "+p[1]+"."+p[2])
		} else {
			f.Missing(p[0], p[1]+"."+p[2]+" not found")
		}
	}
	// Conn.session starts with c.updateSalt(); every EncryptedMessageData built by
	// newEncryptedMessage takes Salt from that session value.
	first := ""
	if fd := f.FuncDecl("mtproto", "Conn.session"); fd != nil && fd.Body != nil && len(fd.Body.List) > 0 {
		first = flat(f.Src(fd.Body.List[0]))
	}
	f.Str("sessionFirstStmt", first, "first statement of Conn.session")
	lits, withSalt, sess := 0, 0, ""
	if fd := f.FuncDecl("mtproto", "Conn.newEncryptedMessage"); fd != nil && fd.Body != nil {
		if len(fd.Body.List) > 0 {
			sess = flat(f.Src(fd.Body.List[0]))
		}
		ast.Inspect(fd.Body, func(n ast.Node) bool {
			if cl, ok := n.(*ast.CompositeLit); ok && f.Src(cl.Type) == "crypto.EncryptedMessageData" {
				lits++
				for _, e := range cl.Elts {
					if flat(f.Src(e)) == "Salt: s.Salt" {
						withSalt++
					}
				}
			}
			return true
		})
	}
	f.Str("newEncryptedMessageFirstStmt", sess, "first statement of Conn.newEncryptedMessage")
	f.Nat("encryptedDataLiterals", lits, "crypto.EncryptedMessageData literals in Conn.newEncryptedMessage")
	f.Nat("encryptedDataLiteralsWithSessionSalt", withSalt, "… of which have `Salt: s.Salt`")
	// the bad-salt branch of Invoke
	branch := ""
	if fd := f.FuncDecl("mtproto", "Conn.Invoke"); fd != nil {
		ast.Inspect(fd.Body, func(n ast.Node) bool {
			is, ok := n.(*ast.IfStmt)
			if !ok || !strings.Contains(f.Src(is.Cond), "codeIncorrectServerSalt") {
				return true
			}
			var parts []string
			for _, st := range is.Body.List {
				s := flat(f.Src(st))
				if strings.HasPrefix(s, "c.log.") {
					continue
				}
				parts = append(parts, s)
			}
			branch = "if " + flat(f.Src(is.Cond)) + " { " + strings.Join(parts, " ; ") + " }"
			return false
		})
	}
	f.Str("invokeBadSaltBranch", branch, "the bad-salt branch of Conn.Invoke (log statements dropped)")
	// handleBadMsg passes the new salt of bad_server_salt to the waiting request
	notify := 0
	if fd := f.FuncDecl("mtproto", "Conn.handleBadMsg"); fd != nil {
		ast.Inspect(fd.Body, func(n ast.Node) bool {
			if ce, ok := n.(*ast.CallExpr); ok && flat(f.Src(ce)) == "c.rpc.NotifyError(bad.BadMsgID, &badMessageError{Code: bad.ErrorCode, NewSalt: bad.NewServerSalt})" {
				notify++
			}
			return true
		})
	}
	f.Nat("badServerSaltNotifies", notify, "NotifyError(bad.BadMsgID, {Code, NewSalt: bad.NewServerSalt}) calls in Conn.handleBadMsg")
}

// ---------------------------------------------------------------------------------- oracle

// known is the specification-level state: which future salts are known (first occurrence of a
// salt value wins), independent of any ordering.
type known struct{ vu map[int64]int }

func newKnown() *known { return &known{vu: map[int64]int{}} }

func (k *known) store(ss []mt.FutureSalt) {
	for _, s := range ss {
		if _, ok := k.vu[s.Salt]; !ok {
			k.vu[s.Salt] = s.ValidUntil
		}
	}
}

// get drops expired salts and returns the smallest expiry above date and how many salts share it.
func (k *known) get(date int) (minVU int, ties int, ok bool) {
	for s, vu := range k.vu {
		if vu <= date {
			delete(k.vu, s)
		}
	}
	for _, vu := range k.vu {
		if !ok || vu < minVU {
			minVU, ties, ok = vu, 1, true
		} else if vu == minVU {
			ties++
		}
	}
	return
}

func genSalts(r *hc.RNG, baseSec int, pool []int64) []mt.FutureSalt {
	n := hc.Pick(r, 0, 1, 1, 2, 3, 4, 4, 8)
	out := make([]mt.FutureSalt, 0, n)
	t := baseSec + r.Range(-4000, 1000)
	for i := 0; i < n; i++ {
		dur := hc.Pick(r, 1800, 3600, 3600, r.Range(1, 600), r.Range(200, 400))
		s := mt.FutureSalt{ValidSince: t, ValidUntil: t + dur, Salt: pool[r.Intn(len(pool))]}
		if r.Chance(10) {
			s.ValidUntil = t - r.Range(0, 100) // already expired / inverted
		}
		out = append(out, s)
		switch r.Intn(4) {
		case 0: // overlapping
			t += dur / 2
		case 1: // same window again (tie in validUntil unless the salt repeats)
		default:
			t += dur
		}
	}
	if r.Chance(20) {
		r2 := append([]mt.FutureSalt{}, out...)
		sort.Slice(r2, func(i, j int) bool { return r2[i].ValidUntil < r2[j].ValidUntil })
		out = r2
	}
	return out
}

func showSalts(ss []mt.FutureSalt) string {
	if len(ss) == 0 {
		return "-"
	}
	p := make([]string, len(ss))
	for i, s := range ss {
		p[i] = fmt.Sprintf("%d/%d/%d", s.ValidSince, s.ValidUntil, s.Salt)
	}
	return strings.Join(p, ",")
}

// ---------------------------------------------------------------------------------- part A: salts.Salts

func runSalts(c *hc.Ctx, r *hc.RNG) (line, impl string, tieMask []bool, nontrivial bool) {
	var s salts.Salts
	k := newKnown()
	base := r.Range(1_600_000_000, 1_900_000_000)
	pool := make([]int64, r.Range(2, 10))
	for i := range pool {
		pool[i] = int64(r.U64())
	}
	now := base
	var lb strings.Builder
	lb.WriteString("salts")
	var out []string
	nOps := r.Range(1, 25)
	gets, stores := 0, 0
	failed := false
	for i := 0; i < nOps; i++ {
		switch k2 := r.Intn(10); {
		case k2 < 4:
			ss := genSalts(r, now, pool)
			s.Store(ss)
			k.store(ss)
			stores++
			lb.WriteString(" S=" + showSalts(ss))
		case k2 < 9:
			now += hc.Pick(r, 0, 1, r.Range(1, 100), r.Range(100, 2000), r.Range(2000, 8000))
			deadline := time.Unix(int64(now), int64(r.Intn(1_000_000_000)))
			if r.Chance(30) { // exactly around a known expiry
				for _, vu := range k.vu {
					deadline = time.Unix(int64(vu+r.Range(-1, 1)), int64(r.Intn(1_000_000_000)))
					break
				}
			}
			date := int(deadline.Unix())
			got, ok := s.Get(deadline)
			minVU, ties, want := k.get(date)
			gets++
			fmt.Fprintf(&lb, " G=%d", date)
			tok := "none"
			tie := false
			if ok {
				vu, kn := k.vu[got]
				tok = fmt.Sprintf("%d/%d", vu, got)
				tie = ties > 1
				if !failed {
					switch {
					case !kn:
						failed = true
						c.Fail("salts-get-expired-or-unknown", lb.String(), fmt.Sprintf("Get(%d) returned salt %d which is not a known unexpired salt", date, got))
					case !want || vu != minVU:
						failed = true
						c.Fail("salts-get-not-earliest", lb.String(), fmt.Sprintf("Get(%d) returned a salt expiring at %d, the earliest valid expiry is %d", date, vu, minVU))
					}
				}
			} else if want && !failed {
				failed = true
				c.Fail("salts-get-missed-valid", lb.String(), fmt.Sprintf("Get(%d) returned nothing although a salt valid until %d is stored", date, minVU))
			}
			out = append(out, tok)
			tieMask = append(tieMask, tie)
		default:
			s.Reset()
			k = newKnown()
			lb.WriteString(" R")
		}
	}
	if len(out) == 0 {
		out = []string{"-"}
	}
	return lb.String(), strings.Join(out, " "), tieMask, gets > 0 && stores > 0
}

// ---------------------------------------------------------------------------------- part B: connection

type sentFrame struct {
	msgID int64
	seqNo int32
	salt  int64
}

// capture is the transport: every written frame is decrypted with the server-side cipher.
type capture struct {
	mu     sync.Mutex
	key    crypto.AuthKey
	cipher crypto.Cipher
	frames chan sentFrame
	errs   []string
}

func (t *capture) Send(ctx context.Context, b *bin.Buffer) error {
	cp := &bin.Buffer{Buf: append([]byte{}, b.Buf...)}
	d, err := t.cipher.DecryptFromBuffer(t.key, cp)
	if err != nil {
		t.mu.Lock()
		t.errs = append(t.errs, err.Error())
		t.mu.Unlock()
		return nil
	}
	t.frames <- sentFrame{d.MessageID, d.SeqNo, d.Salt}
	return nil
}
func (t *capture) Recv(ctx context.Context, b *bin.Buffer) error { <-ctx.Done(); return ctx.Err() }
func (t *capture) Close() error                                  { return nil }

type anyOut struct{}

func (anyOut) Decode(b *bin.Buffer) error { return nil }

type reaction struct {
	kind    string // "result", "badsalt", "badmsg"
	code    int
	newSalt int64
	ackFirst bool
}

func (x reaction) String() string {
	if x.kind == "result" {
		return "r"
	}
	return fmt.Sprintf("b%d:%d", x.code, x.newSalt)
}

const waitFrame = 60 * time.Second

// dumpStacks writes all goroutine stacks to stderr (kept by ./check in the replay file) when a
// watchdog expires, so that a hang can be told from a slow machine.
func dumpStacks() {
	buf := make([]byte, 1<<20)
	n := runtime.Stack(buf, true)
	os.Stderr.Write(buf[:n])
	if f, err := os.CreateTemp("", "c41-stacks-*.txt"); err == nil {
		f.Write(buf[:n])
		f.Close()
	}
}

type connHarness struct {
	c       *hc.Ctx
	conn    *mtproto.Conn
	tr      *capture
	clk     *neo.Time
	nowNs   int64
	line    *strings.Builder
	out     []string
	oracle  *known
	cur     int64
	failed  bool
	lastID  int64
	content int32
	tie     bool
}

func (h *connHarness) fail(key, detail string) {
	if !h.failed {
		h.failed = true
		h.c.Fail(key, h.line.String(), detail)
	}
}

func (h *connHarness) takeFrame() (sentFrame, error) {
	select {
	case f := <-h.tr.frames:
		return f, nil
	case <-time.After(waitFrame):
		return sentFrame{}, fmt.Errorf("no frame written within %s (input %s)", waitFrame, h.line.String())
	}
}

// expectSalt is the monitor for one run of updateSalt observed through `salt` (the salt of a
// written frame, or the stored salt after new_session_created): by the statement it is a known
// future salt valid beyond now+300 s — the one expiring first — or, if none is known, the salt in
// use before.
func (h *connHarness) expectSalt(what string, salt int64) {
	date := int((h.nowNs + 300*1_000_000_000) / 1_000_000_000)
	minVU, ties, ok := h.oracle.get(date)
	if ok {
		vu, kn := h.oracle.vu[salt]
		switch {
		case !kn:
			h.fail("attached-salt-not-valid-future", fmt.Sprintf("%s carries salt %d although future salts valid beyond now+300s are known (earliest expiry %d)", what, salt, minVU))
		case vu != minVU:
			h.fail("attached-salt-not-earliest", fmt.Sprintf("%s carries the salt expiring at %d, earliest valid expiry %d", what, vu, minVU))
		}
		if ties > 1 {
			h.tie = true
		}
		h.cur = salt
	} else if salt != h.cur {
		h.fail("attached-salt-not-last-told", fmt.Sprintf("%s carries salt %d; no valid future salt is known and the last salt in use is %d", what, salt, h.cur))
	}
}

// newMessage checks the C08 rule on the frames actually written.
func (h *connHarness) newMessage(f sentFrame, content bool) {
	want := 2 * h.content
	if content {
		want++
		h.content++
	}
	if f.msgID <= h.lastID || f.msgID%4 != 0 || f.seqNo != want {
		h.fail("frame-id-seq", fmt.Sprintf("frame msg_id %d seq_no %d (content=%v): previous id %d, expected seq_no %d", f.msgID, f.seqNo, content, h.lastID, want))
	}
	h.lastID = f.msgID
}

func encode(e bin.Encoder) *bin.Buffer {
	var b bin.Buffer
	if err := e.Encode(&b); err != nil {
		panic(err)
	}
	return &b
}

func (h *connHarness) deliver(e bin.Encoder) {
	_ = mtproto.VerifC41HandleMessage(h.conn, h.lastID|1, encode(e))
}

func runConn(c *hc.Ctx, r *hc.RNG) (line, impl string, tie, nontrivial bool, err error) {
	var key crypto.Key
	r.Read(key[:])
	ak := key.WithID()
	tr := &capture{key: ak, cipher: crypto.NewServerCipher(r.Fork()), frames: make(chan sentFrame, 64)}
	start := int64(r.Range(1_600_000_000, 1_900_000_000))*1_000_000_000 + int64(r.Intn(1_000_000_000))
	clk := neo.NewTime(time.Unix(0, start))
	initSalt := int64(r.U64())
	session := int64(r.U64())
	conn := mtproto.VerifC41NewConn(mtproto.Options{
		Clock: clk, Random: r.Fork(), Key: ak, Salt: initSalt, Cipher: crypto.NewClientCipher(r.Fork()),
		CompressThreshold: -1, MessageID: proto.NewMessageIDGen(clk.Now),
	}, session, tr)
	defer mtproto.VerifC41Close(conn)
	lb := &strings.Builder{}
	fmt.Fprintf(lb, "conn %d %d", initSalt, start)
	h := &connHarness{c: c, conn: conn, tr: tr, clk: clk, nowNs: start, line: lb, oracle: newKnown(), cur: initSalt}
	pool := make([]int64, r.Range(2, 8))
	for i := range pool {
		pool[i] = int64(r.U64())
	}
	nEv := r.Range(1, 20)
	writes := 0
	for i := 0; i < nEv; i++ {
		switch k := r.Intn(12); {
		case k < 3: // time passes
			h.nowNs += int64(hc.Pick(r, 1, r.Range(1, 600), r.Range(600, 4000), r.Range(4000, 20000)))*1_000_000_000 + int64(r.Intn(1_000_000_000))
			clk.Set(time.Unix(0, h.nowNs))
			fmt.Fprintf(lb, " T=%d", h.nowNs)
			c.Count("conn.event.clock")
		case k < 6: // future salts arrive
			ss := genSalts(r, int(h.nowNs/1_000_000_000), pool)
			h.deliver(&mt.FutureSalts{ReqMsgID: h.lastID, Now: int(h.nowNs / 1_000_000_000), Salts: ss})
			h.oracle.store(ss)
			lb.WriteString(" F=" + showSalts(ss))
			c.Count("conn.event.future_salts")
		case k < 7: // new_session_created tells a salt
			s := int64(r.U64())
			h.deliver(&mt.NewSessionCreated{FirstMsgID: h.lastID, UniqueID: int64(r.U64()), ServerSalt: s})
			h.cur = s
			fmt.Fprintf(lb, " N=%d", s)
			c.Count("conn.event.new_session_created")
			// handleSessionCreated hands c.session() to the handler: updateSalt runs once more
			h.expectSalt("the salt after new_session_created", mtproto.VerifC41Salt(conn))
		case k < 9: // a service message is written
			lb.WriteString(" W")
			c.Count("conn.event.service-write")
			if e := mtproto.VerifC41WriteService(context.Background(), conn, &mt.PingRequest{PingID: int64(i)}); e != nil {
				return lb.String(), "", false, false, fmt.Errorf("writeServiceMessage: %w", e)
			}
			f, e := h.takeFrame()
			if e != nil {
				return lb.String(), "", false, false, e
			}
			h.newMessage(f, false)
			h.expectSalt(fmt.Sprintf("frame %d", f.msgID), f.salt)
			h.out = append(h.out, strconv.FormatInt(f.salt, 10))
			writes++
		default: // Invoke with scripted reactions
			var rs []reaction
			for {
				x := reaction{kind: "result", ackFirst: r.Chance(30)}
				switch r.Intn(6) {
				case 0, 1, 2:
					x.kind, x.code, x.newSalt = "badsalt", 48, int64(r.U64())
				case 3:
					x.kind, x.code = "badmsg", hc.Pick(r, 16, 17, 32, 33, 48, 64)
					if r.Chance(20) {
						x.kind, x.newSalt = "badsalt", int64(r.U64()) // bad_server_salt with an unusual code
					}
				}
				rs = append(rs, x)
				if len(rs) == 3 || x.kind == "result" || x.code != 48 {
					break
				}
			}
			p := make([]string, len(rs))
			for j, x := range rs {
				p[j] = x.String()
			}
			lb.WriteString(" I=" + strings.Join(p, ","))
			c.Count("conn.event.invoke.first=" + rs[0].kind + fmt.Sprint(rs[0].code))
			if len(rs) > 1 {
				c.Count("conn.event.invoke.second=" + rs[1].kind + fmt.Sprint(rs[1].code))
			}
			done := make(chan error, 1)
			go func() { done <- conn.Invoke(context.Background(), &mt.PingRequest{PingID: int64(i)}, anyOut{}) }()
			var frames []sentFrame
			var invErr error
			returned := false
			for j := 0; j < len(rs) && !returned; j++ {
				var f sentFrame
				select {
				case f = <-tr.frames:
				case invErr = <-done:
					returned = true
					continue
				case <-time.After(waitFrame):
					dumpStacks()
					return lb.String(), "", false, false, fmt.Errorf("Invoke wrote no frame within %s (input %s)", waitFrame, lb.String())
				}
				frames = append(frames, f)
				if j == 0 {
					h.newMessage(f, true)
					h.expectSalt(fmt.Sprintf("frame %d", f.msgID), f.salt)
				}
				x := rs[j]
				if x.ackFirst {
					h.deliver(&mt.MsgsAck{MsgIDs: []int64{f.msgID}})
				}
				switch x.kind {
				case "result":
					h.deliver(&proto.Result{RequestMessageID: f.msgID, Result: encode(&mt.MsgsAck{MsgIDs: []int64{1}}).Buf})
				case "badsalt":
					h.deliver(&mt.BadServerSalt{BadMsgID: f.msgID, BadMsgSeqno: int(f.seqNo), ErrorCode: x.code, NewServerSalt: x.newSalt})
				case "badmsg":
					h.deliver(&mt.BadMsgNotification{BadMsgID: f.msgID, BadMsgSeqno: int(f.seqNo), ErrorCode: x.code})
				}
			}
			if !returned {
				select {
				case invErr = <-done:
				case f := <-tr.frames:
					frames = append(frames, f)
					h.fail("badsalt-resent-more-than-once", fmt.Sprintf("Invoke wrote %d frames for one request: %v", len(frames), frames))
					// unblock it
					h.deliver(&proto.Result{RequestMessageID: f.msgID, Result: encode(&mt.MsgsAck{MsgIDs: []int64{1}}).Buf})
					invErr = <-done
				case <-time.After(waitFrame):
					dumpStacks()
					return lb.String(), "", false, false, fmt.Errorf("Invoke did not return within %s (input %s)", waitFrame, lb.String())
				}
			}
			// drain frames written but not consumed by the script (none expected)
			for extra := true; extra; {
				select {
				case f := <-tr.frames:
					frames = append(frames, f)
				default:
					extra = false
				}
			}
			// monitor: one transmission, plus exactly one more iff the first reaction is code 48
			first := rs[0]
			wantFrames := 1
			if first.code == 48 && first.kind != "result" {
				wantFrames = 2
			}
			if len(frames) != wantFrames {
				h.fail("badsalt-resend-count", fmt.Sprintf("Invoke wrote %d frames (%v), expected %d for reactions %v; Invoke err=%v", len(frames), frames, wantFrames, rs, invErr))
			}
			for _, f := range frames[1:] {
				if f.msgID != frames[0].msgID || f.seqNo != frames[0].seqNo {
					h.fail("badsalt-resend-identity", fmt.Sprintf("retransmission %v differs in msg_id/seq_no from %v", f, frames[0]))
				}
			}
			if wantFrames == 2 && len(frames) >= 2 {
				ns := first.newSalt
				if frames[1].salt != ns {
					h.fail("badsalt-resend-salt", fmt.Sprintf("retransmission carries salt %d, the server's new salt is %d", frames[1].salt, ns))
				}
				h.cur = ns
				h.oracle = newKnown() // Invoke resets the stored future salts
			}
			for _, f := range frames {
				h.out = append(h.out, strconv.FormatInt(f.salt, 10))
			}
			// a late duplicate notification must change nothing
			if r.Chance(30) {
				h.deliver(&mt.BadServerSalt{BadMsgID: frames[0].msgID, ErrorCode: 48, NewServerSalt: int64(r.U64())})
				if got := mtproto.VerifC41Salt(conn); got != h.cur {
					h.fail("late-badsalt-changed-salt", fmt.Sprintf("a bad_server_salt for a finished request changed the stored salt to %d", got))
				}
			}
			writes++
		}
	}
	tr.mu.Lock()
	if len(tr.errs) > 0 {
		h.fail("written-frame-undecryptable", strings.Join(tr.errs, "; "))
	}
	tr.mu.Unlock()
	if len(h.out) == 0 {
		h.out = []string{"-"}
	}
	return lb.String(), strings.Join(h.out, " "), h.tie, writes >= 2, nil
}

// ---------------------------------------------------------------------------------- run

// maskTies replaces the salt of tokens `vu/salt` by `*` where several salts share the expiry.
func maskTies(s string, mask []bool) string {
	ws := strings.Fields(s)
	j := 0
	for i, w := range ws {
		if j < len(mask) {
			if mask[j] {
				if k := strings.Index(w, "/"); k >= 0 {
					ws[i] = w[:k] + "/*"
				}
			}
			j++
		}
	}
	return strings.Join(ws, " ")
}

func run(c *hc.Ctx) error {
	r := c.Rng
	var lines, impls []string
	var masks [][]bool
	var skip []bool

	nA := c.N(20000, 600000)
	for i := 0; i < nA; i++ {
		line, impl, mask, nt := runSalts(c, r)
		c.Eval(line, nt)
		c.Count("salts.sequence")
		lines, impls, masks, skip = append(lines, line), append(impls, impl), append(masks, mask), append(skip, false)
	}
	nB := c.N(3000, 80000)
	for i := 0; i < nB; i++ {
		line, impl, tie, nt, err := runConn(c, r.Fork())
		if err != nil {
			return err
		}
		c.Eval(line, nt)
		c.Count("conn.history")
		if tie {
			c.Count("conn.history.with-expiry-tie(not compared)")
		}
		lines, impls, masks, skip = append(lines, line), append(impls, impl), append(masks, nil), append(skip, tie)
	}
	outs, err := c.Drv.Batch(lines)
	if err != nil {
		return err
	}
	for i, o := range outs {
		if skip[i] {
			continue
		}
		impl := impls[i]
		if masks[i] != nil {
			impl, o = maskTies(impl, masks[i]), maskTies(o, masks[i])
		}
		if c.Compare(lines[i], impl, o) {
			c.Res.TracesValidated++
		}
	}
	c.Res.Rule = "salts.Salts: 1..25 Store/Get/Reset operations over a pool of 2..10 salt values (overlapping, repeated, already-expired windows; deadlines on and around known expiries), non-trivial = at least one Store and one Get; connection histories: 1..20 events (clock jumps, future_salts, new_session_created, service writes, Invoke with scripted ack / rpc_result / bad_server_salt / bad_msg_notification reactions incl. a second bad salt and late duplicates), the salt / msg_id / seq_no of every written frame is read back by decrypting it; non-trivial = at least 2 writes; distinct = distinct input line"
	c.PartialNote("sort.Sort is not stable: when several stored salts share one expiry the harness compares the expiry of the returned salt, not its value (connection histories where that happens are monitored but not compared)")
	c.PartialNote("future_salts arriving between the two transmissions of a bad-salt retry, and rpc.Engine's own retransmission timer (C25), are not scripted; Invoke's reactions are delivered synchronously after each captured frame")
	return nil
}
