// C41 — server salts: correspondence of salts.Salts.{Store,Get,Reset}, Conn.updateSalt/session and
// Conn.Invoke's bad-salt retry with the Lean model TdModel.C41, plus the property monitor: the salt
// field of every frame the connection writes is read back by decrypting the frame.
package main

import (
	"context"
	"fmt"
	"go/ast"
	"go/token"
	"os"
	"runtime"
	"sort"
	"strconv"
	"strings"
	"sync"
	"time"

	"github.com/gotd/neo"

	"github.com/gotd/td/bin"
	"github.com/gotd/td/crypto"
	"github.com/gotd/td/mt"
	"github.com/gotd/td/mtproto"
	"github.com/gotd/td/mtproto/salts"
	"github.com/gotd/td/proto"
	"github.com/gotd/td/transport"

	"verif/harness/hc"
)

func main() {
	hc.Main(hc.Spec{Prop: "C41", Facts: facts, Run: run})
}

// ---------------------------------------------------------------------------------- facts

func flat(s string) string { return strings.Join(strings.Fields(s), " ") }

var timeUnits = map[string]int64{"time.Nanosecond": 1, "time.Microsecond": 1e3, "time.Millisecond": 1e6,
	"time.Second": 1e9, "time.Minute": 60e9, "time.Hour": 3600e9}

// durationOf evaluates a time.Duration expression in nanoseconds: units, literals, products,
// package constants, time.Duration(x) conversions.
func durationOf(f *hc.Facts, dir string, e ast.Expr) (int64, bool) {
	switch x := e.(type) {
	case *ast.SelectorExpr:
		v, ok := timeUnits[f.Src(x)]
		return v, ok
	case *ast.BasicLit:
		v, err := strconv.ParseInt(x.Value, 10, 64)
		return v, err == nil
	case *ast.Ident:
		if s, ok := f.ConstInt(dir, x.Name); ok {
			v, err := strconv.ParseInt(s, 10, 64)
			return v, err == nil
		}
	case *ast.ParenExpr:
		return durationOf(f, dir, x.X)
	case *ast.CallExpr:
		if f.Src(x.Fun) == "time.Duration" && len(x.Args) == 1 {
			return durationOf(f, dir, x.Args[0])
		}
	case *ast.BinaryExpr:
		a, ok1 := durationOf(f, dir, x.X)
		b, ok2 := durationOf(f, dir, x.Y)
		if ok1 && ok2 && x.Op == token.MUL {
			return a * b, true
		}
	}
	return 0, false
}

// cmp describes `a OP b` normalised so that the left operand is `left` (ok=false if the expression
// is not a comparison between exactly these two operands).
func cmp(f *hc.Facts, e ast.Expr, left, right string) (op string, ok bool) {
	for {
		p, isP := e.(*ast.ParenExpr)
		if !isP {
			break
		}
		e = p.X
	}
	be, isB := e.(*ast.BinaryExpr)
	if !isB {
		return "", false
	}
	x, y := flat(f.Src(be.X)), flat(f.Src(be.Y))
	flip := map[token.Token]string{token.LSS: ">", token.LEQ: ">=", token.GTR: "<", token.GEQ: "<=", token.EQL: "==", token.NEQ: "!="}
	same := map[token.Token]string{token.LSS: "<", token.LEQ: "<=", token.GTR: ">", token.GEQ: ">=", token.EQL: "==", token.NEQ: "!="}
	switch {
	case x == left && y == right:
		op, ok = same[be.Op]
	case x == right && y == left:
		op, ok = flip[be.Op]
	}
	return op, ok && op != ""
}

func isLog(s string) bool { return strings.HasPrefix(s, "c.log.") || strings.HasPrefix(s, "logger.") }

func facts(f *hc.Facts) {
	f.Const("codeIncorrectServerSalt", "mtproto", "codeIncorrectServerSalt")
	f.Const("defaultSaltsNum", "mtproto", "defaultSaltsNum")

	// ---- Conn.updateSalt: Get(now + lookahead); store only when found
	found, guarded, stores := false, false, false
	if fd := f.FuncDecl("mtproto", "Conn.updateSalt"); fd != nil {
		ast.Inspect(fd.Body, func(n ast.Node) bool {
			ce, ok := n.(*ast.CallExpr)
			if !ok || len(ce.Args) != 1 {
				return true
			}
			if se, ok := ce.Fun.(*ast.SelectorExpr); ok && se.Sel.Name == "Add" && flat(f.Src(se.X)) == "c.clock.Now()" {
				if v, ok := durationOf(f, "mtproto", ce.Args[0]); ok && !found {
					found = true
					f.Raw(fmt.Sprintf("def lookaheadNs : Nat := %d -- c.clock.Now().Add(%s) in Conn.updateSalt", v, f.Src(ce.Args[0])))
				}
			}
			return true
		})
		var body []string
		for _, st := range fd.Body.List {
			body = append(body, flat(f.Src(st)))
		}
		if len(body) == 3 && strings.HasPrefix(body[0], "salt, ok := c.salts.Get(") && body[1] == "if !ok { return }" && body[2] == "c.storeSalt(salt)" {
			guarded, stores = true, true
		}
	}
	if !found {
		f.Missing("lookaheadNs", "c.clock.Now().Add(<duration>) not found in Conn.updateSalt")
	}
	f.Bool("updateSaltStoresWhenFound", guarded && stores, "updateSalt: salt, ok := c.salts.Get(…); if !ok { return }; c.storeSalt(salt)")

	// ---- salts.Salts.Get: which end of the sorted slice is examined, the validity comparison,
	// the in-place filter, the deadline in seconds
	getOK := false
	if fd := f.FuncDecl("mtproto/salts", "Salts.Get"); fd != nil {
		atLast, atFirst, valid, filter, date, retry, empty := false, false, "", "", false, false, false
		ast.Inspect(fd.Body, func(n ast.Node) bool {
			switch x := n.(type) {
			case *ast.IfStmt:
				if x.Init != nil {
					in := flat(f.Src(x.Init))
					if in == "salt := s.salts[len(s.salts)-1]" {
						atLast = true
					}
					if in == "salt := s.salts[0]" {
						atFirst = true
					}
					if op, ok := cmp(f, x.Cond, "salt.ValidUntil", "date"); ok && len(x.Body.List) == 1 && flat(f.Src(x.Body.List[0])) == "return salt.Salt, true" {
						valid = op
					}
				} else if op, ok := cmp(f, x.Cond, "salt.ValidUntil", "date"); ok {
					var b []string
					for _, st := range x.Body.List {
						b = append(b, flat(f.Src(st)))
					}
					if strings.Join(b, " ; ") == "s.salts[n] = salt ; n++" {
						filter = op
					}
				} else if c := flat(f.Src(x.Cond)); (c == "len(s.salts) < 1" || c == "len(s.salts) == 0") && len(x.Body.List) == 1 && flat(f.Src(x.Body.List[0])) == "return 0, false" {
					empty = true
				}
			case *ast.AssignStmt:
				if flat(f.Src(x)) == "date := int(deadline.Unix())" {
					date = true
				}
			case *ast.BranchStmt:
				if x.Tok == token.GOTO {
					retry = true
				}
			}
			return true
		})
		if (atLast != atFirst) && valid != "" && filter != "" && date && retry && empty {
			getOK = true
			f.Bool("getLooksAtLast", atLast, "Get examines s.salts[len-1] (false: s.salts[0])")
			f.Bool("getValidStrict", valid == ">", "returned if salt.ValidUntil > date (false: another operator: "+valid+")")
			f.Bool("getFilterStrict", filter == ">", "the filter keeps salt.ValidUntil > date (false: "+filter+")")
			f.Bool("getStructure", valid == ">" || valid == ">=", "empty → (0,false); date = deadline.Unix(); examine one end; else filter in place and retry")
		}
	}
	if !getOK {
		for _, n := range []string{"getLooksAtLast", "getValidStrict", "getFilterStrict", "getStructure"} {
			f.Missing(n, "salts.Salts.Get: structure not recognised")
		}
	}
	// ---- saltSlice.Less: sorted by descending ValidUntil?
	lessOK := false
	if fd := f.FuncDecl("mtproto/salts", "saltSlice.Less"); fd != nil && len(fd.Body.List) == 1 {
		if rs, ok := fd.Body.List[0].(*ast.ReturnStmt); ok && len(rs.Results) == 1 {
			if op, ok := cmp(f, rs.Results[0], "s[i].ValidUntil", "s[j].ValidUntil"); ok {
				lessOK = true
				f.Bool("lessDescending", op == ">" || op == ">=", "Less(i, j) = s[i].ValidUntil "+op+" s[j].ValidUntil")
			}
		}
	}
	if !lessOK {
		f.Missing("lessDescending", "saltSlice.Less not recognised")
	}
	// ---- Salts.Store: append, first-wins duplicate filter on the salt value, sort
	app, dedup, sorts := false, false, false
	if fd := f.FuncDecl("mtproto/salts", "Salts.Store"); fd != nil {
		order := 0
		for _, st := range fd.Body.List {
			src := flat(f.Src(st))
			switch {
			case src == "s.salts = append(s.salts, salts...)":
				app = order == 0
				order = 1
			case strings.HasPrefix(src, "for _, salt := range s.salts {") && strings.Contains(src, "if _, ok := dedup[salt.Salt]; !ok { dedup[salt.Salt] = struct{}{} s.salts[n] = salt n++ }"):
				dedup = order == 1
				order = 2
			case src == "sort.Sort(saltSlice(s.salts))" || src == "sort.Stable(saltSlice(s.salts))":
				sorts = order == 2
			}
		}
	}
	f.Bool("storeAppendDedupSort", app && dedup && sorts, "Store: append; keep the first occurrence of every salt value; sort")
	resets := false
	if fd := f.FuncDecl("mtproto/salts", "Salts.Reset"); fd != nil {
		for _, st := range fd.Body.List {
			if s := flat(f.Src(st)); s == "s.salts = s.salts[:0]" || s == "s.salts = nil" {
				resets = true
			}
		}
	}
	f.Bool("resetEmpties", resets, "Reset empties the slice")

	// ---- every outgoing message takes its salt from c.session(), which runs updateSalt first
	first := ""
	if fd := f.FuncDecl("mtproto", "Conn.session"); fd != nil && fd.Body != nil && len(fd.Body.List) > 0 {
		first = flat(f.Src(fd.Body.List[0]))
	}
	f.Bool("sessionUpdatesSaltFirst", first == "c.updateSalt()", "Conn.session starts with c.updateSalt()")
	lits, withSalt, sess := 0, 0, ""
	if fd := f.FuncDecl("mtproto", "Conn.newEncryptedMessage"); fd != nil && fd.Body != nil {
		if len(fd.Body.List) > 0 {
			sess = flat(f.Src(fd.Body.List[0]))
		}
		ast.Inspect(fd.Body, func(n ast.Node) bool {
			if cl, ok := n.(*ast.CompositeLit); ok && f.Src(cl.Type) == "crypto.EncryptedMessageData" {
				lits++
				for _, e := range cl.Elts {
					if flat(f.Src(e)) == "Salt: s.Salt" {
						withSalt++
					}
				}
			}
			return true
		})
	}
	f.Bool("newEncryptedMessageReadsSession", sess == "s := c.session()", "Conn.newEncryptedMessage starts with s := c.session()")
	f.Nat("encryptedDataLiterals", lits, "crypto.EncryptedMessageData literals in Conn.newEncryptedMessage")
	f.Nat("encryptedDataLiteralsWithSessionSalt", withSalt, "… of which have `Salt: s.Salt`")

	// ---- the bad-salt branch of Invoke: operations in order (1 storeSalt(NewSalt), 2 salts.Reset(),
	// 3 return c.rpc.Do(ctx, req), 9 other), and its condition
	var ops []string
	cond := false
	if fd := f.FuncDecl("mtproto", "Conn.Invoke"); fd != nil {
		ast.Inspect(fd.Body, func(n ast.Node) bool {
			is, ok := n.(*ast.IfStmt)
			if !ok || !strings.Contains(f.Src(is.Cond), "codeIncorrectServerSalt") {
				return true
			}
			if be, ok := is.Cond.(*ast.BinaryExpr); ok && be.Op == token.LAND && flat(f.Src(be.X)) == "errors.As(err, &badMsgErr)" {
				if op, ok := cmp(f, be.Y, "badMsgErr.Code", "codeIncorrectServerSalt"); ok && op == "==" {
					cond = true
				}
			}
			for _, st := range is.Body.List {
				s := flat(f.Src(st))
				switch {
				case isLog(s):
				case s == "c.storeSalt(badMsgErr.NewSalt)":
					ops = append(ops, "1")
				case s == "c.salts.Reset()":
					ops = append(ops, "2")
				case s == "return c.rpc.Do(ctx, req)":
					ops = append(ops, "3")
				default:
					ops = append(ops, "9")
				}
			}
			return false
		})
	}
	f.Raw("def invokeBadSaltOps : List Nat := [" + strings.Join(ops, ", ") + "] -- bad-salt branch of Conn.Invoke: 1 storeSalt(NewSalt), 2 salts.Reset(), 3 return rpc.Do again, 9 other")
	f.Bool("invokeBadSaltCond", cond, "the branch is taken iff errors.As(err, &badMsgErr) && badMsgErr.Code == codeIncorrectServerSalt")
	notify := 0
	if fd := f.FuncDecl("mtproto", "Conn.handleBadMsg"); fd != nil {
		ast.Inspect(fd.Body, func(n ast.Node) bool {
			if ce, ok := n.(*ast.CallExpr); ok && flat(f.Src(ce)) == "c.rpc.NotifyError(bad.BadMsgID, &badMessageError{Code: bad.ErrorCode, NewSalt: bad.NewServerSalt})" {
				notify++
			}
			return true
		})
	}
	f.Nat("badServerSaltNotifies", notify, "NotifyError(bad.BadMsgID, {Code, NewSalt: bad.NewServerSalt}) calls in Conn.handleBadMsg")

	// ---- the refresh loop: wait for the session, fetch at once, then on every tick of saltFetchInterval
	waits, firstFetch, ticks, numOK := false, false, false, false
	if fd := f.FuncDecl("mtproto", "Conn.saltLoop"); fd != nil {
		stage := 0
		for _, st := range fd.Body.List {
			s := flat(f.Src(st))
			switch {
			case stage == 0 && strings.HasPrefix(s, "select { case <-c.gotSession.Ready():"):
				waits, stage = true, 1
			case stage == 1 && strings.HasPrefix(s, "if err := c.getSalts(ctx); err != nil {"):
				firstFetch, stage = true, 2
			case stage == 2 && s == "ticker := c.clock.Ticker(c.saltFetchInterval)":
				stage = 3
			case stage == 3 && strings.HasPrefix(s, "for { select { case <-ticker.C(): if err := c.getSalts(ctx); err != nil {"):
				ticks = true
			}
		}
	}
	if fd := f.FuncDecl("mtproto", "Conn.getSalts"); fd != nil {
		numOK = strings.Contains(flat(f.Src(fd.Body)), "&mt.GetFutureSaltsRequest{ Num: defaultSaltsNum, }")
	}
	f.Bool("saltLoopStructure", waits && firstFetch && ticks, "saltLoop: wait for the session, getSalts, then getSalts on every tick of c.saltFetchInterval")
	f.Bool("getSaltsAsksDefaultNum", numOK, "getSalts requests defaultSaltsNum salts")
	fetch := int64(0)
	if fd := f.FuncDecl("mtproto", "Options.setDefaults"); fd != nil {
		ast.Inspect(fd.Body, func(n ast.Node) bool {
			if as, ok := n.(*ast.AssignStmt); ok && len(as.Lhs) == 1 && flat(f.Src(as.Lhs[0])) == "opt.SaltFetchInterval" {
				if v, ok := durationOf(f, "mtproto", as.Rhs[0]); ok {
					fetch = v
				}
			}
			return true
		})
	}
	if fetch > 0 {
		f.Raw(fmt.Sprintf("def defaultSaltFetchIntervalNs : Nat := %d -- default of Options.SaltFetchInterval", fetch))
	} else {
		f.Missing("defaultSaltFetchIntervalNs", "default of Options.SaltFetchInterval not found")
	}
}

// ---------------------------------------------------------------------------------- oracle

// known is the specification-level state: which future salts are known (first occurrence of a
// salt value wins), independent of any ordering.
type known struct{ vu map[int64]int }

func newKnown() *known { return &known{vu: map[int64]int{}} }

func (k *known) store(ss []mt.FutureSalt) {
	for _, s := range ss {
		if _, ok := k.vu[s.Salt]; !ok {
			k.vu[s.Salt] = s.ValidUntil
		}
	}
}

// get drops expired salts and returns the smallest expiry above date and how many salts share it.
func (k *known) get(date int) (minVU int, ties int, ok bool) {
	for s, vu := range k.vu {
		if vu <= date {
			delete(k.vu, s)
		}
	}
	for _, vu := range k.vu {
		if !ok || vu < minVU {
			minVU, ties, ok = vu, 1, true
		} else if vu == minVU {
			ties++
		}
	}
	return
}

func genSalts(r *hc.RNG, baseSec int, pool []int64) []mt.FutureSalt {
	n := hc.Pick(r, 0, 1, 1, 2, 3, 4, 4, 8)
	out := make([]mt.FutureSalt, 0, n)
	t := baseSec + r.Range(-4000, 1000)
	for i := 0; i < n; i++ {
		dur := hc.Pick(r, 1800, 3600, 3600, r.Range(1, 600), r.Range(200, 400))
		s := mt.FutureSalt{ValidSince: t, ValidUntil: t + dur, Salt: pool[r.Intn(len(pool))]}
		if r.Chance(10) {
			s.ValidUntil = t - r.Range(0, 100) // already expired / inverted
		}
		out = append(out, s)
		switch r.Intn(4) {
		case 0: // overlapping
			t += dur / 2
		case 1: // same window again (tie in validUntil unless the salt repeats)
		default:
			t += dur
		}
	}
	if r.Chance(20) {
		r2 := append([]mt.FutureSalt{}, out...)
		sort.Slice(r2, func(i, j int) bool { return r2[i].ValidUntil < r2[j].ValidUntil })
		out = r2
	}
	return out
}

func showSalts(ss []mt.FutureSalt) string {
	if len(ss) == 0 {
		return "-"
	}
	p := make([]string, len(ss))
	for i, s := range ss {
		p[i] = fmt.Sprintf("%d/%d/%d", s.ValidSince, s.ValidUntil, s.Salt)
	}
	return strings.Join(p, ",")
}

// ---------------------------------------------------------------------------------- part A: salts.Salts

func runSalts(c *hc.Ctx, r *hc.RNG) (line, impl string, tieMask []bool, nontrivial bool) {
	var s salts.Salts
	k := newKnown()
	base := r.Range(1_600_000_000, 1_900_000_000)
	pool := make([]int64, r.Range(2, 10))
	for i := range pool {
		pool[i] = int64(r.U64())
	}
	now := base
	var lb strings.Builder
	lb.WriteString("salts")
	var out []string
	nOps := r.Range(1, 25)
	gets, stores := 0, 0
	failed := false
	for i := 0; i < nOps; i++ {
		switch k2 := r.Intn(10); {
		case k2 < 4:
			ss := genSalts(r, now, pool)
			s.Store(ss)
			k.store(ss)
			stores++
			lb.WriteString(" S=" + showSalts(ss))
		case k2 < 9:
			now += hc.Pick(r, 0, 1, r.Range(1, 100), r.Range(100, 2000), r.Range(2000, 8000))
			deadline := time.Unix(int64(now), int64(r.Intn(1_000_000_000)))
			if r.Chance(30) { // exactly around a known expiry
				for _, vu := range k.vu {
					deadline = time.Unix(int64(vu+r.Range(-1, 1)), int64(r.Intn(1_000_000_000)))
					break
				}
			}
			date := int(deadline.Unix())
			got, ok := s.Get(deadline)
			minVU, ties, want := k.get(date)
			gets++
			fmt.Fprintf(&lb, " G=%d", date)
			tok := "none"
			tie := false
			if ok {
				vu, kn := k.vu[got]
				tok = fmt.Sprintf("%d/%d", vu, got)
				tie = ties > 1
				if !failed {
					switch {
					case !kn:
						failed = true
						c.Fail("salts-get-expired-or-unknown", lb.String(), fmt.Sprintf("Get(%d) returned salt %d which is not a known unexpired salt", date, got))
					case !want || vu != minVU:
						failed = true
						c.Fail("salts-get-not-earliest", lb.String(), fmt.Sprintf("Get(%d) returned a salt expiring at %d, the earliest valid expiry is %d", date, vu, minVU))
					}
				}
			} else if want && !failed {
				failed = true
				c.Fail("salts-get-missed-valid", lb.String(), fmt.Sprintf("Get(%d) returned nothing although a salt valid until %d is stored", date, minVU))
			}
			out = append(out, tok)
			tieMask = append(tieMask, tie)
		default:
			s.Reset()
			k = newKnown()
			lb.WriteString(" R")
		}
	}
	if len(out) == 0 {
		out = []string{"-"}
	}
	return lb.String(), strings.Join(out, " "), tieMask, gets > 0 && stores > 0
}

// ---------------------------------------------------------------------------------- part B: connection

type sentFrame struct {
	msgID int64
	seqNo int32
	salt  int64
}

// capture is the transport: every written frame is decrypted with the server-side cipher.
type capture struct {
	mu     sync.Mutex
	key    crypto.AuthKey
	cipher crypto.Cipher
	frames chan sentFrame
	errs   []string
}

func (t *capture) Send(ctx context.Context, b *bin.Buffer) error {
	cp := &bin.Buffer{Buf: append([]byte{}, b.Buf...)}
	d, err := t.cipher.DecryptFromBuffer(t.key, cp)
	if err != nil {
		t.mu.Lock()
		t.errs = append(t.errs, err.Error())
		t.mu.Unlock()
		return nil
	}
	t.frames <- sentFrame{d.MessageID, d.SeqNo, d.Salt}
	return nil
}
func (t *capture) Recv(ctx context.Context, b *bin.Buffer) error { <-ctx.Done(); return ctx.Err() }
func (t *capture) Close() error                                  { return nil }

type anyOut struct{}

func (anyOut) Decode(b *bin.Buffer) error { return nil }

type reaction struct {
	kind    string // "result", "badsalt", "badmsg"
	code    int
	newSalt int64
	ackFirst bool
}

func (x reaction) String() string {
	if x.kind == "result" {
		return "r"
	}
	return fmt.Sprintf("b%d:%d", x.code, x.newSalt)
}

// watchdog is generous and grows with the machine's load (nothing in this harness asserts that
// something happens *within* a time; the watchdog only turns a genuine hang into a report).
func watchdog() time.Duration {
	d := 120 * time.Second
	if b, err := os.ReadFile("/proc/loadavg"); err == nil {
		if f := strings.Fields(string(b)); len(f) > 0 {
			if l, err := strconv.ParseFloat(f[0], 64); err == nil && l > 16 {
				d += time.Duration(l/16) * 60 * time.Second
			}
		}
	}
	return d
}

// dumpStacks writes all goroutine stacks to stderr (kept by ./check in the replay file) when a
// watchdog expires, so that a hang can be told from a slow machine.
func dumpStacks() {
	buf := make([]byte, 1<<20)
	n := runtime.Stack(buf, true)
	os.Stderr.Write(buf[:n])
	if f, err := os.CreateTemp("", "c41-stacks-*.txt"); err == nil {
		f.Write(buf[:n])
		f.Close()
	}
}

type connHarness struct {
	c       *hc.Ctx
	conn    *mtproto.Conn
	tr      *capture
	clk     *neo.Time
	nowNs   int64
	line    *strings.Builder
	out     []string
	oracle  *known
	cur     int64
	failed  bool
	lastID  int64
	content int32
	tie     bool
	lastNew int64
	skip    bool // the history contains a step the sequential model line cannot express
}

func (h *connHarness) fail(key, detail string) {
	if !h.failed {
		h.failed = true
		h.c.Fail(key, h.line.String(), detail)
	}
}

func (h *connHarness) takeFrame() (sentFrame, error) {
	select {
	case f := <-h.tr.frames:
		return f, nil
	case <-time.After(watchdog()):
		return sentFrame{}, fmt.Errorf("no frame written within the watchdog (input %s)", h.line.String())
	}
}

// expectSalt is the monitor for one run of updateSalt observed through `salt` (the salt of a
// written frame, or the stored salt after new_session_created): by the statement it is a known
// future salt valid beyond now+300 s — the one expiring first — or, if none is known, the salt in
// use before.
func (h *connHarness) expectSalt(what string, salt int64) {
	date := int((h.nowNs + 300*1_000_000_000) / 1_000_000_000)
	minVU, ties, ok := h.oracle.get(date)
	if ok {
		vu, kn := h.oracle.vu[salt]
		switch {
		case !kn:
			h.fail("attached-salt-not-valid-future", fmt.Sprintf("%s carries salt %d although future salts valid beyond now+300s are known (earliest expiry %d)", what, salt, minVU))
		case vu != minVU:
			h.fail("attached-salt-not-earliest", fmt.Sprintf("%s carries the salt expiring at %d, earliest valid expiry %d", what, vu, minVU))
		}
		if ties > 1 {
			h.tie = true
		}
		h.cur = salt
	} else if salt != h.cur {
		h.fail("attached-salt-not-last-told", fmt.Sprintf("%s carries salt %d; no valid future salt is known and the last salt in use is %d", what, salt, h.cur))
	}
}

// newMessage checks the C08 rule on the frames actually written.
func (h *connHarness) newMessage(f sentFrame, content bool) {
	want := 2 * h.content
	if content {
		want++
		h.content++
	}
	if f.msgID <= h.lastID || f.msgID%4 != 0 || f.seqNo != want {
		h.fail("frame-id-seq", fmt.Sprintf("frame msg_id %d seq_no %d (content=%v): previous id %d, expected seq_no %d", f.msgID, f.seqNo, content, h.lastID, want))
	}
	h.lastID = f.msgID
}

func encode(e bin.Encoder) *bin.Buffer {
	var b bin.Buffer
	if err := e.Encode(&b); err != nil {
		panic(err)
	}
	return &b
}

func (h *connHarness) deliver(e bin.Encoder) {
	_ = mtproto.VerifC41HandleMessage(h.conn, h.lastID|1, encode(e))
}

func runConn(c *hc.Ctx, r *hc.RNG) (line, impl string, tie, nontrivial bool, err error) {
	var key crypto.Key
	r.Read(key[:])
	ak := key.WithID()
	tr := &capture{key: ak, cipher: crypto.NewServerCipher(r.Fork()), frames: make(chan sentFrame, 64)}
	start := int64(r.Range(1_600_000_000, 1_900_000_000))*1_000_000_000 + int64(r.Intn(1_000_000_000))
	clk := neo.NewTime(time.Unix(0, start))
	initSalt := int64(r.U64())
	session := int64(r.U64())
	conn := mtproto.VerifC41NewConn(mtproto.Options{
		Clock: clk, Random: r.Fork(), Key: ak, Salt: initSalt, Cipher: crypto.NewClientCipher(r.Fork()),
		CompressThreshold: -1, MessageID: proto.NewMessageIDGen(clk.Now),
	}, session, tr)
	defer mtproto.VerifC41Close(conn)
	lb := &strings.Builder{}
	fmt.Fprintf(lb, "conn %d %d", initSalt, start)
	h := &connHarness{c: c, conn: conn, tr: tr, clk: clk, nowNs: start, line: lb, oracle: newKnown(), cur: initSalt}
	pool := make([]int64, r.Range(2, 8))
	for i := range pool {
		pool[i] = int64(r.U64())
	}
	nEv := r.Range(1, 20)
	writes := 0
	for i := 0; i < nEv; i++ {
		switch k := r.Intn(12); {
		case k < 3: // time passes
			h.nowNs += int64(hc.Pick(r, 1, r.Range(1, 600), r.Range(600, 4000), r.Range(4000, 20000)))*1_000_000_000 + int64(r.Intn(1_000_000_000))
			clk.Set(time.Unix(0, h.nowNs))
			fmt.Fprintf(lb, " T=%d", h.nowNs)
			c.Count("conn.event.clock")
		case k < 6: // future salts arrive
			ss := genSalts(r, int(h.nowNs/1_000_000_000), pool)
			h.deliver(&mt.FutureSalts{ReqMsgID: h.lastID, Now: int(h.nowNs / 1_000_000_000), Salts: ss})
			h.oracle.store(ss)
			lb.WriteString(" F=" + showSalts(ss))
			c.Count("conn.event.future_salts")
		case k < 7: // new_session_created tells a salt
			s := int64(r.U64())
			h.deliver(&mt.NewSessionCreated{FirstMsgID: h.lastID, UniqueID: int64(r.U64()), ServerSalt: s})
			h.cur = s
			fmt.Fprintf(lb, " N=%d", s)
			c.Count("conn.event.new_session_created")
			// handleSessionCreated hands c.session() to the handler: updateSalt runs once more
			h.expectSalt("the salt after new_session_created", mtproto.VerifC41Salt(conn))
		case k < 9: // a service message is written
			lb.WriteString(" W")
			c.Count("conn.event.service-write")
			if e := mtproto.VerifC41WriteService(context.Background(), conn, &mt.PingRequest{PingID: int64(i)}); e != nil {
				return lb.String(), "", false, false, fmt.Errorf("writeServiceMessage: %w", e)
			}
			f, e := h.takeFrame()
			if e != nil {
				return lb.String(), "", false, false, e
			}
			h.newMessage(f, false)
			h.expectSalt(fmt.Sprintf("frame %d", f.msgID), f.salt)
			h.out = append(h.out, strconv.FormatInt(f.salt, 10))
			writes++
		case k == 9 && r.Chance(15): // two requests in flight, both rejected with the same new salt
			ns := int64(r.U64())
			fmt.Fprintf(lb, " II=%d", ns)
			c.Count("conn.event.two-concurrent-invokes-same-bad-salt")
			h.skip = true
			type inv struct{ done chan error }
			var invs [2]inv
			for j := range invs {
				invs[j].done = make(chan error, 1)
				go func(j int) { invs[j].done <- conn.Invoke(context.Background(), &mt.PingRequest{PingID: int64(1000 + j)}, anyOut{}) }(j)
			}
			var first []sentFrame
			for len(first) < 2 {
				select {
				case f := <-tr.frames:
					first = append(first, f)
				case <-time.After(watchdog()):
					dumpStacks()
					return lb.String(), "", false, false, fmt.Errorf("concurrent Invokes wrote %d frames within the watchdog (input %s)", len(first), lb.String())
				}
			}
			sort.Slice(first, func(a, b int) bool { return first[a].msgID < first[b].msgID })
			for _, f := range first {
				h.newMessage(f, true)
			}
			h.expectSalt(fmt.Sprintf("frame %d", first[0].msgID), first[0].salt)
			for _, f := range first {
				h.deliver(&mt.BadServerSalt{BadMsgID: f.msgID, BadMsgSeqno: int(f.seqNo), ErrorCode: 48, NewServerSalt: ns})
			}
			// each request must be sent exactly once more, with the server's salt
			resent := map[int64]int{}
			var errs []error
			d0, d1 := invs[0].done, invs[1].done
			returned, answered := 0, 0
			for returned < 2 {
				select {
				case f := <-tr.frames:
					resent[f.msgID]++
					answered++
					if f.salt != ns {
						h.fail("badsalt-resend-salt", fmt.Sprintf("retransmission of %d carries salt %d, the server's new salt is %d", f.msgID, f.salt, ns))
					}
					if answered > 2 {
						h.fail("badsalt-resent-more-than-once", fmt.Sprintf("request %d written again", f.msgID))
					}
					h.deliver(&proto.Result{RequestMessageID: f.msgID, Result: encode(&mt.MsgsAck{MsgIDs: []int64{1}}).Buf})
				case e := <-d0:
					errs, d0, returned = append(errs, e), nil, returned+1
				case e := <-d1:
					errs, d1, returned = append(errs, e), nil, returned+1
				case <-time.After(watchdog()):
					dumpStacks()
					return lb.String(), "", false, false, fmt.Errorf("concurrent Invokes did not complete within the watchdog (input %s)", lb.String())
				}
			}
			for _, f := range first {
				if resent[f.msgID] != 1 {
					h.fail("badsalt-resend-count", fmt.Sprintf("two requests were rejected with the same new salt %d; request %d was re-sent %d times (Invoke results %v)", ns, f.msgID, resent[f.msgID], errs))
				}
			}
			h.cur = ns
			h.oracle = newKnown()
			for drained := false; !drained; {
				select {
				case <-tr.frames:
					h.fail("badsalt-resent-more-than-once", "extra frame after both concurrent requests completed")
				default:
					drained = true
				}
			}
			writes += 2
		default: // Invoke with scripted reactions
			var rs []reaction
			for {
				x := reaction{kind: "result", ackFirst: r.Chance(30)}
				switch r.Intn(6) {
				case 0, 1, 2:
					// the server's new salt: fresh, or the salt the connection already uses, or the
					// one a previous request was told (requests rejected concurrently get the same)
					x.kind, x.code, x.newSalt = "badsalt", 48, hc.Pick(r, int64(r.U64()), int64(r.U64()), h.cur, h.lastNew)
					h.lastNew = x.newSalt
				case 3:
					x.kind, x.code = "badmsg", hc.Pick(r, 16, 17, 32, 33, 48, 64)
					if r.Chance(20) {
						x.kind, x.newSalt = "badsalt", int64(r.U64()) // bad_server_salt with an unusual code
					}
				}
				rs = append(rs, x)
				if len(rs) == 3 || x.kind == "result" || x.code != 48 {
					break
				}
			}
			p := make([]string, len(rs))
			for j, x := range rs {
				p[j] = x.String()
			}
			lb.WriteString(" I=" + strings.Join(p, ","))
			c.Count("conn.event.invoke.first=" + rs[0].kind + fmt.Sprint(rs[0].code))
			if len(rs) > 1 {
				c.Count("conn.event.invoke.second=" + rs[1].kind + fmt.Sprint(rs[1].code))
			}
			done := make(chan error, 1)
			go func() { done <- conn.Invoke(context.Background(), &mt.PingRequest{PingID: int64(i)}, anyOut{}) }()
			var frames []sentFrame
			var invErr error
			returned := false
			for j := 0; j < len(rs) && !returned; j++ {
				var f sentFrame
				select {
				case f = <-tr.frames:
				case invErr = <-done:
					returned = true
					continue
				case <-time.After(watchdog()):
					dumpStacks()
					return lb.String(), "", false, false, fmt.Errorf("Invoke wrote no frame within the watchdog (input %s)", lb.String())
				}
				frames = append(frames, f)
				if j == 0 {
					h.newMessage(f, true)
					h.expectSalt(fmt.Sprintf("frame %d", f.msgID), f.salt)
				}
				x := rs[j]
				if x.ackFirst {
					h.deliver(&mt.MsgsAck{MsgIDs: []int64{f.msgID}})
				}
				switch x.kind {
				case "result":
					h.deliver(&proto.Result{RequestMessageID: f.msgID, Result: encode(&mt.MsgsAck{MsgIDs: []int64{1}}).Buf})
				case "badsalt":
					h.deliver(&mt.BadServerSalt{BadMsgID: f.msgID, BadMsgSeqno: int(f.seqNo), ErrorCode: x.code, NewServerSalt: x.newSalt})
				case "badmsg":
					h.deliver(&mt.BadMsgNotification{BadMsgID: f.msgID, BadMsgSeqno: int(f.seqNo), ErrorCode: x.code})
				}
			}
			if !returned {
				select {
				case invErr = <-done:
				case f := <-tr.frames:
					frames = append(frames, f)
					h.fail("badsalt-resent-more-than-once", fmt.Sprintf("Invoke wrote %d frames for one request: %v", len(frames), frames))
					// unblock it
					h.deliver(&proto.Result{RequestMessageID: f.msgID, Result: encode(&mt.MsgsAck{MsgIDs: []int64{1}}).Buf})
					invErr = <-done
				case <-time.After(watchdog()):
					dumpStacks()
					return lb.String(), "", false, false, fmt.Errorf("Invoke did not return within the watchdog (input %s); goroutine stacks are on stderr", lb.String())
				}
			}
			// drain frames written but not consumed by the script (none expected)
			for extra := true; extra; {
				select {
				case f := <-tr.frames:
					frames = append(frames, f)
				default:
					extra = false
				}
			}
			// monitor: one transmission, plus exactly one more iff the first reaction is code 48
			first := rs[0]
			wantFrames := 1
			if first.code == 48 && first.kind != "result" {
				wantFrames = 2
			}
			if len(frames) != wantFrames {
				h.fail("badsalt-resend-count", fmt.Sprintf("Invoke wrote %d frames (%v), expected %d for reactions %v; Invoke err=%v", len(frames), frames, wantFrames, rs, invErr))
			}
			for _, f := range frames[1:] {
				if f.msgID != frames[0].msgID || f.seqNo != frames[0].seqNo {
					h.fail("badsalt-resend-identity", fmt.Sprintf("retransmission %v differs in msg_id/seq_no from %v", f, frames[0]))
				}
			}
			if wantFrames == 2 && len(frames) >= 2 {
				ns := first.newSalt
				if frames[1].salt != ns {
					h.fail("badsalt-resend-salt", fmt.Sprintf("retransmission carries salt %d, the server's new salt is %d", frames[1].salt, ns))
				}
				h.cur = ns
				h.oracle = newKnown() // Invoke resets the stored future salts
			}
			for _, f := range frames {
				h.out = append(h.out, strconv.FormatInt(f.salt, 10))
			}
			// a late duplicate notification must change nothing
			if r.Chance(30) {
				h.deliver(&mt.BadServerSalt{BadMsgID: frames[0].msgID, ErrorCode: 48, NewServerSalt: int64(r.U64())})
				if got := mtproto.VerifC41Salt(conn); got != h.cur {
					h.fail("late-badsalt-changed-salt", fmt.Sprintf("a bad_server_salt for a finished request changed the stored salt to %d", got))
				}
			}
			writes++
		}
	}
	tr.mu.Lock()
	if len(tr.errs) > 0 {
		h.fail("written-frame-undecryptable", strings.Join(tr.errs, "; "))
	}
	tr.mu.Unlock()
	if len(h.out) == 0 {
		h.out = []string{"-"}
	}
	return lb.String(), strings.Join(h.out, " "), h.tie || h.skip, writes >= 2, nil
}

// ---------------------------------------------------------------------------------- part C: the refresh loop, through Run

type refreshFrame struct {
	typeID uint32
	msgID  int64
	salt   int64
	num    int
	pingID int64
	at     time.Time
}

type refreshTransport struct {
	key     crypto.AuthKey
	dec     crypto.Cipher
	out     chan refreshFrame
	in      chan []byte
	session chan int64
	once    sync.Once
}

func (t *refreshTransport) Send(ctx context.Context, b *bin.Buffer) error {
	cp := &bin.Buffer{Buf: append([]byte{}, b.Buf...)}
	d, err := t.dec.DecryptFromBuffer(t.key, cp)
	if err != nil {
		return nil
	}
	t.once.Do(func() { t.session <- d.SessionID })
	p := &bin.Buffer{Buf: d.Data()}
	id, _ := p.PeekID()
	w := refreshFrame{typeID: id, msgID: d.MessageID, salt: d.Salt, at: time.Now()}
	switch id {
	case mt.GetFutureSaltsRequestTypeID:
		var r mt.GetFutureSaltsRequest
		if r.Decode(p) == nil {
			w.num = r.Num
		}
	case mt.PingDelayDisconnectRequestTypeID:
		var r mt.PingDelayDisconnectRequest
		if r.Decode(p) == nil {
			w.pingID = r.PingID
		}
	}
	select {
	case t.out <- w:
	case <-ctx.Done():
	}
	return nil
}

func (t *refreshTransport) Recv(ctx context.Context, b *bin.Buffer) error {
	select {
	case f := <-t.in:
		b.ResetTo(f)
		return nil
	case <-ctx.Done():
		return ctx.Err()
	}
}
func (t *refreshTransport) Close() error { return nil }

var _ transport.Conn = (*refreshTransport)(nil)

type rawPayload []byte

func (p rawPayload) Encode(b *bin.Buffer) error { b.Put(p); return nil }

type refreshResult struct {
	input         string
	beforeSession int     // get_future_salts written before new_session_created was delivered
	requests      int     // … written afterwards until the observation ended
	elapsed       time.Duration
	wrongNum      int
	interval      time.Duration
	futureSalt    int64
	carried       int // frames written after the future salts were delivered …
	carriedOK     int // … that carry the delivered future salt
}

// runRefresh observes saltLoop on a whole connection (public New/Run, real clock, short fetch
// interval): no get_future_salts before the session exists, one at once afterwards, then one per
// interval; the answer's salt (valid for hours) is then attached to everything that is written.
func runRefresh(seed uint64) (res refreshResult, herr error) {
	r := hc.NewRNG(seed)
	var key crypto.Key
	r.Read(key[:])
	ak := key.WithID()
	tr := &refreshTransport{key: ak, dec: crypto.NewServerCipher(r.Fork()), out: make(chan refreshFrame, 4096), in: make(chan []byte, 256), session: make(chan int64, 1)}
	srv := crypto.NewServerCipher(r.Fork())
	srvIDs := proto.NewMessageIDGen(time.Now)
	res.interval = time.Duration(r.Range(20, 40)) * time.Millisecond
	conn := mtproto.New(func(ctx context.Context) (transport.Conn, error) { return tr, nil }, mtproto.Options{
		Random: r.Fork(), Key: ak, Cipher: crypto.NewClientCipher(r.Fork()), CompressThreshold: -1,
		PingInterval: 15 * time.Millisecond, PingTimeout: 10 * time.Minute, SaltFetchInterval: res.interval,
	})
	ctx, cancel := context.WithCancel(context.Background())
	defer cancel()
	runDone := make(chan error, 1)
	go func() {
		runDone <- conn.Run(ctx, func(ctx context.Context) error { <-ctx.Done(); return ctx.Err() })
	}()
	var session int64
	send := func(typ proto.MessageType, seq int32, payload bin.Encoder) {
		var b bin.Buffer
		if err := srv.Encrypt(ak, crypto.EncryptedMessageData{SessionID: session, Salt: 1, MessageID: srvIDs.New(typ), SeqNo: seq, Message: payload}, &b); err == nil {
			tr.in <- b.Buf
		}
	}
	select {
	case session = <-tr.session:
	case err := <-runDone:
		return res, fmt.Errorf("Run ended early: %v", err)
	case <-time.After(watchdog()):
		return res, fmt.Errorf("no frame written within the watchdog")
	}
	res.input = fmt.Sprintf("refresh seed=%d interval=%s", seed, res.interval)
	// phase 1: the session has not been created yet
	phase1 := time.After(3 * res.interval)
	for done := false; !done; {
		select {
		case w := <-tr.out:
			if w.typeID == mt.GetFutureSaltsRequestTypeID {
				res.beforeSession++
			}
		case <-phase1:
			done = true
		}
	}
	// phase 2
	res.futureSalt = int64(r.U64())
	t0 := time.Now()
	send(proto.MessageFromServer, 1, &mt.NewSessionCreated{FirstMsgID: 4, UniqueID: 9, ServerSalt: 1})
	delivered := false
	deadline := time.After(watchdog())
	for res.requests < 5 {
		select {
		case w := <-tr.out:
			switch w.typeID {
			case mt.GetFutureSaltsRequestTypeID:
				res.requests++
				res.elapsed = w.at.Sub(t0)
				if w.num != 4 {
					res.wrongNum++
				}
				if !delivered {
					delivered = true
					nowS := int(time.Now().Unix())
					send(proto.MessageServerResponse, 3, &mt.FutureSalts{ReqMsgID: w.msgID, Now: nowS, Salts: []mt.FutureSalt{
						{ValidSince: nowS - 60, ValidUntil: nowS + 7200, Salt: res.futureSalt},
						{ValidSince: nowS + 7200, ValidUntil: nowS + 14400, Salt: res.futureSalt + 1},
					}})
				}
			case mt.PingDelayDisconnectRequestTypeID:
				send(proto.MessageServerResponse, 0, &mt.Pong{MsgID: w.msgID, PingID: w.pingID})
			}
			if delivered && res.requests >= 3 { // the answer has certainly been processed by now? not necessarily: only count, decide below
				res.carried++
				if w.salt == res.futureSalt {
					res.carriedOK++
				}
			}
		case err := <-runDone:
			return res, fmt.Errorf("Run ended early: %v", err)
		case <-deadline:
			return res, fmt.Errorf("only %d get_future_salts requests within the watchdog (interval %s)", res.requests, res.interval)
		}
	}
	cancel()
	select {
	case <-runDone:
	case <-time.After(watchdog()):
		return res, fmt.Errorf("Run did not return after cancellation")
	}
	return res, nil
}

// ---------------------------------------------------------------------------------- run

// maskTies replaces the salt of tokens `vu/salt` by `*` where several salts share the expiry.
func maskTies(s string, mask []bool) string {
	ws := strings.Fields(s)
	j := 0
	for i, w := range ws {
		if j < len(mask) {
			if mask[j] {
				if k := strings.Index(w, "/"); k >= 0 {
					ws[i] = w[:k] + "/*"
				}
			}
			j++
		}
	}
	return strings.Join(ws, " ")
}

func run(c *hc.Ctx) error {
	r := c.Rng
	var lines, impls []string
	var masks [][]bool
	var skip []bool

	nA := c.N(20000, 600000)
	for i := 0; i < nA; i++ {
		line, impl, mask, nt := runSalts(c, r)
		c.Eval(line, nt)
		c.Count("salts.sequence")
		lines, impls, masks, skip = append(lines, line), append(impls, impl), append(masks, mask), append(skip, false)
	}
	nB := c.N(3000, 80000)
	for i := 0; i < nB; i++ {
		line, impl, tie, nt, err := runConn(c, r.Fork())
		if err != nil {
			return err
		}
		c.Eval(line, nt)
		c.Count("conn.history")
		if tie {
			c.Count("conn.history.with-expiry-tie(not compared)")
		}
		lines, impls, masks, skip = append(lines, line), append(impls, impl), append(masks, nil), append(skip, tie)
	}
	// ---- part C: the refresh loop on whole connections
	nC := c.N(6, 40)
	rres := make([]refreshResult, nC)
	rerr := make([]error, nC)
	var rwg sync.WaitGroup
	rsem := make(chan struct{}, 6)
	for i := 0; i < nC; i++ {
		seed := r.U64()
		rwg.Add(1)
		go func(i int) {
			defer rwg.Done()
			rsem <- struct{}{}
			defer func() { <-rsem }()
			rres[i], rerr[i] = runRefresh(seed)
		}(i)
	}
	rwg.Wait()
	for i, x := range rres {
		if rerr[i] != nil {
			return rerr[i]
		}
		c.Eval(x.input, true)
		c.Count("refresh.connection")
		if x.beforeSession != 0 {
			c.Fail("refresh-before-session", x.input, fmt.Sprintf("%d get_future_salts requests were written before new_session_created arrived", x.beforeSession))
		}
		if x.wrongNum != 0 {
			c.Fail("refresh-wrong-num", x.input, "get_future_salts does not ask for 4 salts")
		}
		// not faster than the interval: the k-th request (k ≥ 1, first one at once) cannot come before
		// (k-1) ticks; tickers never fire early (they may fire late and then catch up by at most one)
		if max := int(x.elapsed/x.interval) + 3; x.requests > max {
			c.Fail("refresh-too-often", x.input, fmt.Sprintf("%d requests within %s at interval %s", x.requests, x.elapsed, x.interval))
		}
		// once future salts valid for hours are known, written frames carry the first of them
		// (the answer is processed concurrently, so the first frames after it may still carry the old one)
		if x.carried >= 6 && x.carriedOK == 0 {
			c.Fail("refresh-future-salt-not-used", x.input, fmt.Sprintf("none of %d frames written after future_salts was answered carries the future salt %d", x.carried, x.futureSalt))
		}
		c.Count(fmt.Sprintf("refresh.requests=%d", x.requests))
	}

	outs, err := c.Drv.Batch(lines)
	if err != nil {
		return err
	}
	for i, o := range outs {
		if skip[i] {
			continue
		}
		impl := impls[i]
		if masks[i] != nil {
			impl, o = maskTies(impl, masks[i]), maskTies(o, masks[i])
		}
		if c.Compare(lines[i], impl, o) {
			c.Res.TracesValidated++
		}
	}
	c.Res.Rule = "salts.Salts: 1..25 Store/Get/Reset operations over a pool of 2..10 salt values (overlapping, repeated, already-expired windows; deadlines on and around known expiries), non-trivial = at least one Store and one Get; connection histories: 1..20 events (clock jumps, future_salts, new_session_created, service writes, Invoke with scripted ack / rpc_result / bad_server_salt / bad_msg_notification reactions incl. a second bad salt and late duplicates), the salt / msg_id / seq_no of every written frame is read back by decrypting it; non-trivial = at least 2 writes; refresh loop: whole connections (public New/Run, real clock, 20..40 ms fetch interval) — no get_future_salts before the session exists, one at once after new_session_created, then one per interval asking for 4 salts, and the answered future salt is attached to later frames; distinct = distinct input line"
	c.PartialNote("sort.Sort is not stable: when several stored salts share one expiry the harness compares the expiry of the returned salt, not its value (connection histories where that happens are monitored but not compared)")
	c.PartialNote("future_salts arriving between the two transmissions of a bad-salt retry, and rpc.Engine's own retransmission timer (C25), are not scripted; Invoke's reactions are delivered synchronously after each captured frame")
	return nil
}
