// C22 — containers, RPC results, unencrypted messages, gzip framing: correspondence of
// proto.{MessageContainer,Message,Result,UnencryptedMessage,GZIP} Encode/Decode with the Lean
// model TdModel.C22, plus the property monitor on the implementation (round trips, the 1 MiB and
// 10 MiB limits, no panic on malformed input) and a cross-check against the generated mt types.
package main

import (
	"bytes"
	"errors"
	"fmt"
	"go/ast"
	"go/token"
	"hash/fnv"
	"io"
	"strconv"
	"strings"
	"sync"

	"github.com/klauspost/compress/gzip"

	"github.com/gotd/td/bin"
	"github.com/gotd/td/mt"
	"github.com/gotd/td/proto"

	"verif/harness/hc"
)

func main() {
	hc.Main(hc.Spec{Prop: "C22", Facts: facts, Run: run})
}

// ---- facts ----------------------------------------------------------------------------------

// nonErrConds returns the `if` conditions of a method that do not mention `err` (the value checks).
func nonErrConds(f *hc.Facts, dir, fn string) []ast.Expr {
	fd := f.FuncDecl(dir, fn)
	if fd == nil {
		return nil
	}
	var out []ast.Expr
	for _, c := range hc.C20IfConds(fd.Body) {
		if !strings.Contains(f.Src(c), "err") {
			out = append(out, c)
		}
	}
	return out
}

func at(xs []ast.Expr, i int) ast.Expr {
	if i < len(xs) {
		return xs[i]
	}
	return nil
}

// bufferOps lists, in source order, the calls `<buf>.<Method>(args…)` a method makes on its
// *bin.Buffer parameter, as Lean tuples (method, kind, name, const) that the model interprets:
//   ("PutLong","field","ID",0)       argument is the receiver's field ID
//   ("PutInt","len","Messages",0)    argument is len(<recv>.Messages), possibly converted
//   ("PutID","const","",1945237724)  argument is an integer constant
//   ("PutBytes","expr","",0)         argument is some other expression
//   ("Long","store","ID",0)          a read whose result is stored into the receiver's field ID
//   ("Int","read","",0)              a read into a local
//   ("ConsumeN","fields","Body,Bytes",0)  several arguments: their names joined by ','
// Local variable names and formatting do not matter.
func bufferOps(f *hc.Facts, lean, dir, fn string) {
	fd := f.FuncDecl(dir, fn)
	if fd == nil || fd.Body == nil || fd.Type.Params == nil || len(fd.Type.Params.List) == 0 || len(fd.Type.Params.List[0].Names) == 0 {
		f.Missing(lean, dir+"."+fn+" not found")
		return
	}
	buf := fd.Type.Params.List[0].Names[0].Name
	recv := ""
	if fd.Recv != nil && len(fd.Recv.List) > 0 && len(fd.Recv.List[0].Names) > 0 {
		recv = fd.Recv.List[0].Names[0].Name
	}
	classify := func(x ast.Expr) (kind, name string, c string) {
		for {
			if p, ok := x.(*ast.ParenExpr); ok {
				x = p.X
				continue
			}
			if ce, ok := x.(*ast.CallExpr); ok && len(ce.Args) == 1 {
				if id, ok := ce.Fun.(*ast.Ident); ok && (id.Name == "int32" || id.Name == "int" || id.Name == "int64" || id.Name == "uint32") {
					x = ce.Args[0]
					continue
				}
			}
			break
		}
		if se, ok := x.(*ast.SelectorExpr); ok {
			if id, ok := se.X.(*ast.Ident); ok && id.Name == recv {
				return "field", se.Sel.Name, "0"
			}
		}
		if ce, ok := x.(*ast.CallExpr); ok && len(ce.Args) == 1 {
			if id, ok := ce.Fun.(*ast.Ident); ok && id.Name == "len" {
				if se, ok := ce.Args[0].(*ast.SelectorExpr); ok {
					if id, ok := se.X.(*ast.Ident); ok && id.Name == recv {
						return "len", se.Sel.Name, "0"
					}
				}
			}
		}
		if id, ok := x.(*ast.Ident); ok {
			if v, ok := f.ConstInt(dir, id.Name); ok {
				return "const", "", v
			}
		}
		if bl, ok := x.(*ast.BasicLit); ok && bl.Kind == token.INT {
			return "const", "", bl.Value
		}
		return "expr", "", "0"
	}
	// reads: `v, err := b.X()` … `recv.F = v` in the same block ⇒ stored into F
	targets := map[token.Pos]string{}
	ast.Inspect(fd.Body, func(n ast.Node) bool {
		bs, ok := n.(*ast.BlockStmt)
		if !ok {
			return true
		}
		var lastVar string
		var lastPos token.Pos
		for _, st := range bs.List {
			as, ok := st.(*ast.AssignStmt)
			if !ok || len(as.Rhs) != 1 || len(as.Lhs) == 0 {
				continue
			}
			if ce, ok := as.Rhs[0].(*ast.CallExpr); ok {
				if se, ok := ce.Fun.(*ast.SelectorExpr); ok {
					if id, ok := se.X.(*ast.Ident); ok && id.Name == buf {
						if v, ok := as.Lhs[0].(*ast.Ident); ok {
							lastVar, lastPos = v.Name, ce.Pos()
						}
					}
				}
			}
			if se, ok := as.Lhs[0].(*ast.SelectorExpr); ok && len(as.Lhs) == 1 {
				if id, ok := se.X.(*ast.Ident); ok && id.Name == recv {
					if v, ok := as.Rhs[0].(*ast.Ident); ok && v.Name == lastVar && lastVar != "" {
						targets[lastPos] = se.Sel.Name
					}
				}
			}
		}
		return true
	})
	var ops []string
	ast.Inspect(fd.Body, func(n ast.Node) bool {
		ce, ok := n.(*ast.CallExpr)
		if !ok {
			return true
		}
		se, ok := ce.Fun.(*ast.SelectorExpr)
		if !ok {
			return true
		}
		id, ok := se.X.(*ast.Ident)
		if !ok || id.Name != buf {
			return true
		}
		kind, name, c := "read", "", "0"
		switch len(ce.Args) {
		case 0:
			if t, ok := targets[ce.Pos()]; ok {
				kind, name = "store", t
			}
		case 1:
			kind, name, c = classify(ce.Args[0])
		default:
			var names []string
			for _, a := range ce.Args {
				k, nm, _ := classify(a)
				if k == "field" || k == "len" {
					names = append(names, nm)
				} else {
					names = append(names, k)
				}
			}
			kind, name = "fields", strings.Join(names, ",")
		}
		ops = append(ops, fmt.Sprintf("(%q, %q, %q, %s)", se.Sel.Name, kind, name, c))
		return true
	})
	f.Raw(fmt.Sprintf("def %s : List (String × String × String × Int) := [%s] -- calls on the bin.Buffer in %s.%s, in source order", lean, strings.Join(ops, ", "), dir, fn))
}

func facts(f *hc.Facts) {
	f.Const("messageContainerTypeID", "proto", "MessageContainerTypeID")
	f.Const("gzipTypeID", "proto", "GZIPTypeID")
	f.Const("resultTypeID", "proto", "ResultTypeID")
	f.Const("mtMsgContainerTypeID", "mt", "MsgContainerTypeID")
	f.Const("mtGzipPackedTypeID", "mt", "GzipPackedTypeID")
	f.Const("mtRPCResultTypeID", "mt", "RPCResultTypeID")
	f.Const("mtMessageTypeID", "mt", "MessageTypeID")
	f.Const("preallocateLimit", "bin", "PreallocateLimit")

	// value checks, translated: the model calls these definitions
	f.C20TranslateExpr("msgLenInvalidEnc", "proto", at(nonErrConds(f, "proto", "Message.Encode"), 0), hc.C20ExprOpt{})
	f.C20TranslateExpr("msgLenInvalidDec", "proto", at(nonErrConds(f, "proto", "Message.Decode"), 0), hc.C20ExprOpt{})
	uc := nonErrConds(f, "proto", "UnencryptedMessage.Decode")
	f.C20TranslateExpr("unencAuthKeyBad", "proto", at(uc, 0), hc.C20ExprOpt{})
	f.C20TranslateExpr("unencLenNegative", "proto", at(uc, 1), hc.C20ExprOpt{})
	f.C20TranslateExpr("unencLenBeyond", "proto", at(uc, 2), hc.C20ExprOpt{})
	// the container loop `for i := 0; i < n; i++`
	var loopCond ast.Expr
	if fd := f.FuncDecl("proto", "MessageContainer.Decode"); fd != nil {
		ast.Inspect(fd.Body, func(n ast.Node) bool {
			if fs, ok := n.(*ast.ForStmt); ok && loopCond == nil {
				loopCond = fs.Cond
			}
			return true
		})
	}
	f.C20TranslateExpr("containerLoopCond", "proto", loopCond, hc.C20ExprOpt{})
	// GZIP.Decode: io.LimitReader(r, L) and the bomb check on reader.Total()
	var limitArg, bombCond ast.Expr
	var locals map[string]ast.Expr
	if fd := f.FuncDecl("proto", "GZIP.Decode"); fd != nil {
		locals = hc.C20LocalConsts(fd.Body)
		ast.Inspect(fd.Body, func(n ast.Node) bool {
			if ce, ok := n.(*ast.CallExpr); ok && f.Src(ce.Fun) == "io.LimitReader" && len(ce.Args) == 2 {
				limitArg = ce.Args[1]
			}
			return true
		})
		for _, c := range hc.C20IfConds(fd.Body) {
			if strings.Contains(f.Src(c), "Total()") {
				bombCond = c
			}
		}
	}
	f.C20TranslateExpr("gzipLimitArg", "proto", limitArg, hc.C20ExprOpt{Locals: locals})
	f.C20TranslateExpr("gzipBomb", "proto", bombCond, hc.C20ExprOpt{Locals: locals})

	// write / read orders, interpreted by the model
	bufferOps(f, "opsMessageEncode", "proto", "Message.Encode")
	bufferOps(f, "opsMessageDecode", "proto", "Message.Decode")
	bufferOps(f, "opsContainerEncode", "proto", "MessageContainer.Encode")
	bufferOps(f, "opsContainerDecode", "proto", "MessageContainer.Decode")
	bufferOps(f, "opsResultEncode", "proto", "Result.Encode")
	bufferOps(f, "opsResultDecode", "proto", "Result.Decode")
	bufferOps(f, "opsUnencryptedEncode", "proto", "UnencryptedMessage.Encode")
	bufferOps(f, "opsUnencryptedDecode", "proto", "UnencryptedMessage.Decode")
	bufferOps(f, "opsGzipEncode", "proto", "GZIP.Encode")
	bufferOps(f, "opsGzipDecode", "proto", "GZIP.Decode")
}

// ---- implementation adapters ------------------------------------------------------------

func errTag(err error) string {
	var il *bin.InvalidLengthError
	var ui *bin.UnexpectedIDErr
	var bomb *proto.DecompressionBombErr
	switch {
	case errors.As(err, &bomb):
		return "other:bomb"
	case errors.Is(err, io.ErrUnexpectedEOF) && !strings.Contains(err.Error(), "decompress") && !strings.Contains(err.Error(), "gzip error"):
		return "eof"
	case errors.As(err, &il):
		return "invalid-length"
	case errors.As(err, &ui):
		return "unexpected-id"
	case strings.Contains(err.Error(), "message length"):
		return "other:length"
	case strings.Contains(err.Error(), "unexpected auth_key_id"):
		return "other:auth-key-id"
	case strings.HasPrefix(err.Error(), "gzip error"):
		return "other:gzip-header"
	case strings.Contains(err.Error(), "decompress") || strings.Contains(err.Error(), "checksum"):
		return "other:gzip"
	}
	return "other:" + err.Error()
}

func showMsgs(ms []proto.Message) string {
	if len(ms) == 0 {
		return "-"
	}
	xs := make([]string, len(ms))
	for i, m := range ms {
		xs[i] = fmt.Sprintf("%d:%d:%d:%s", m.ID, m.SeqNo, m.Bytes, hc.Hex(m.Body))
	}
	return strings.Join(xs, ";")
}

func guard(fn func() string) (out string, pan any) {
	defer func() {
		if r := recover(); r != nil {
			out, pan = "panic", r
		}
	}()
	return fn(), nil
}

func encContainer(ms []proto.Message) string {
	var b bin.Buffer
	c := proto.MessageContainer{Messages: ms}
	if err := c.Encode(&b); err != nil {
		return "err " + errTag(err)
	}
	return hc.Hex(b.Buf)
}

func decContainer(data []byte) (string, []proto.Message, []byte, any) {
	var c proto.MessageContainer
	b := &bin.Buffer{Buf: data}
	out, pan := guard(func() string {
		if err := c.Decode(b); err != nil {
			return "err " + errTag(err)
		}
		return "ok " + showMsgs(c.Messages) + " " + hc.Hex(b.Buf)
	})
	return out, c.Messages, b.Buf, pan
}

func decResult(data []byte) (string, proto.Result, []byte, any) {
	var x proto.Result
	b := &bin.Buffer{Buf: data}
	out, pan := guard(func() string {
		if err := x.Decode(b); err != nil {
			return "err " + errTag(err)
		}
		return fmt.Sprintf("ok %d %s %s", x.RequestMessageID, hc.Hex(x.Result), hc.Hex(b.Buf))
	})
	return out, x, b.Buf, pan
}

func decUnenc(data []byte) (string, proto.UnencryptedMessage, []byte, any) {
	var x proto.UnencryptedMessage
	b := &bin.Buffer{Buf: data}
	out, pan := guard(func() string {
		if err := x.Decode(b); err != nil {
			return "err " + errTag(err)
		}
		return fmt.Sprintf("ok %d %s %s", x.MessageID, hc.Hex(x.MessageData), hc.Hex(b.Buf))
	})
	return out, x, b.Buf, pan
}

const limit = 10 << 20

// gunzRef runs the decompressor on its own: bytes delivered before the stream ends (counted up to
// cap) and whether it ended cleanly.  This is the `gunz` primitive handed to the model.
func gunzRef(compressed []byte, max int) (data []byte, n int, clean, hdrOK bool) {
	r, err := gzip.NewReader(bytes.NewReader(compressed))
	if err != nil {
		return nil, 0, false, false
	}
	var out bytes.Buffer
	buf := make([]byte, 64<<10)
	for {
		k, err := r.Read(buf)
		n += k
		if out.Len() < limit+1 {
			out.Write(buf[:k])
		}
		if err == io.EOF {
			return out.Bytes(), n, true, true
		}
		if err != nil {
			return out.Bytes(), n, false, true
		}
		if n > max {
			return out.Bytes(), n, false, true // cut: longer than anything the limit can tell apart
		}
	}
}

func decGzip(data []byte) (out string, g proto.GZIP, rest []byte, pan any) {
	b := &bin.Buffer{Buf: data}
	out, pan = guard(func() string {
		if err := g.Decode(b); err != nil {
			return "err " + errTag(err)
		}
		return fmt.Sprintf("ok %d %s", len(g.Data), hc.Hex(b.Buf))
	})
	return out, g, b.Buf, pan
}

// ---- generators ---------------------------------------------------------------------------

func i64(r *hc.RNG) int64 {
	switch r.Intn(4) {
	case 0:
		return int64(hc.Pick[uint64](r, 0, 1, 1<<63-1, 1<<63, 1<<64-1, 1<<32, 0x5f5e0ff00000001))
	case 1:
		return int64(r.Intn(1 << 20))
	}
	return int64(r.U64())
}

func genBody(r *hc.RNG, big int) []byte {
	var n int
	switch r.Intn(12) {
	case 0:
		n = 0
	case 1, 2:
		n = 4 * r.Range(1, 6)
	case 3:
		n = r.Range(1, 40) // not word aligned: the wrappers do not care
	case 4:
		n = r.Range(100, 3000)
	case 5:
		if big > 0 {
			n = hc.Pick(r, 1<<20, 1<<20-4, 1<<20-1, 1<<19, big)
		} else {
			n = r.Range(0, 64)
		}
	default:
		n = 4 * r.Range(0, 30)
	}
	return r.Bytes(n)
}

func genMsgs(r *hc.RNG, big int) (ms []proto.Message, valid bool) {
	cnt := hc.Pick(r, 0, 1, 1, 2, 2, 3, 4, 5, r.Range(0, 12))
	if r.Chance(2) {
		cnt = r.Range(30, 80)
	}
	valid = true
	for i := 0; i < cnt; i++ {
		b := big
		if i > 0 {
			b = 0
		}
		body := genBody(r, b)
		m := proto.Message{ID: i64(r), SeqNo: int(int32(r.U64())), Bytes: len(body), Body: body}
		if r.Chance(50) {
			m.SeqNo = r.Intn(1000)
		}
		ms = append(ms, m)
	}
	return ms, valid
}


func run(c *hc.Ctx) error {
	r := c.Rng
	bt := c.NewC20Batcher()
	add := bt.Add

	// ---- 1. containers
	n := c.N(12000, 120000)
	bigEvery := c.N(4000, 3000)
	for i := 0; i < n; i++ {
		big := 0
		if i%bigEvery == 1 {
			big = 1 << 20
		}
		ms, _ := genMsgs(r, big)
		kind := "valid"
		switch r.Intn(12) {
		case 0: // a body over the limit: Encode must refuse
			if len(ms) > 0 {
				j := r.Intn(len(ms))
				over := hc.Pick(r, 1<<20+1, 1<<20+4, 1<<20+r.Range(1, 4096))
				if i%c.N(200, 100) != 0 {
					// same branch without the megabyte: Bytes says "too big"
					ms[j].Bytes = over
				} else {
					ms[j].Body = r.Bytes(over)
					ms[j].Bytes = over
				}
				kind = "too-big"
			}
		case 1: // negative length field
			if len(ms) > 0 {
				ms[r.Intn(len(ms))].Bytes = -r.Range(1, 100)
				kind = "negative"
			}
		case 2: // Bytes disagrees with the body (the encoder does not check): no round trip expected
			if len(ms) > 0 {
				j := r.Intn(len(ms))
				ms[j].Bytes = len(ms[j].Body) + 4*r.Range(-2, 2)
				if ms[j].Bytes < 0 {
					ms[j].Bytes = 0
				}
				if ms[j].Bytes != len(ms[j].Body) {
					kind = "mismatch"
				}
			}
		}
		c.Count("container." + kind)
		c.Count(fmt.Sprintf("container.count=%d", min(len(ms), 6)))
		enc := encContainer(ms)
		line := "cenc " + showMsgs(ms)
		c.Eval(sig(line), len(ms) > 0)
		add(line, enc)
		if strings.HasPrefix(enc, "err") {
			if kind == "valid" || kind == "mismatch" {
				c.Fail("container-encode", line, "Encode refused a valid container: "+enc)
			}
			continue
		}
		if kind == "too-big" || kind == "negative" {
			c.Fail("container-limit", line, "Encode accepted a message whose length is outside 0..1 MiB")
		}
		raw, _ := hc.UnHex(enc)
		rest := r.Bytes(hc.Pick(r, 0, 0, 4, r.Range(1, 9)))
		out, got, left, pan := decContainer(append(append([]byte{}, raw...), rest...))
		if pan != nil {
			c.Fail("panic:container", "cdec "+enc, fmt.Sprint(pan))
		} else if kind == "valid" {
			if !strings.HasPrefix(out, "ok") || showMsgs(got) != showMsgs(ms) {
				c.Fail("container-roundtrip", line, "decoded "+clip(out))
			} else if !bytes.Equal(left, rest) {
				c.Fail("container-consumed", line, fmt.Sprintf("decoder left %d bytes, %d followed the encoding", len(left), len(rest)))
			}
		}
		add("cdec "+hc.Hex(append(append([]byte{}, raw...), rest...)), out)
		// truncations of a valid encoding must be errors
		if kind == "valid" && len(raw) > 0 && len(raw) < 1<<16 {
			k := r.Intn(len(raw))
			out, _, _, pan := decContainer(raw[:k])
			if pan != nil {
				c.Fail("panic:container", "cdec "+hc.Hex(raw[:k]), fmt.Sprint(pan))
			} else if strings.HasPrefix(out, "ok") {
				c.Fail("container-truncated-accepted", "cdec "+hc.Hex(raw[:k]), "a proper prefix decoded as "+clip(out))
			}
			c.Eval(sig("cdec "+hc.Hex(raw[:k])), true)
			add("cdec "+hc.Hex(raw[:k]), out)
		}
	}

	// ---- 2. malformed containers
	m := c.N(12000, 120000)
	for i := 0; i < m; i++ {
		var b bin.Buffer
		id := hc.Pick[uint32](r, proto.MessageContainerTypeID, proto.MessageContainerTypeID, proto.MessageContainerTypeID, proto.GZIPTypeID, uint32(r.U64()))
		b.PutID(id)
		cnt := hc.Pick(r, -1, 0, 1, 2, 3, 1<<31-1, -(1 << 31), r.Range(-3, 6))
		b.PutInt(cnt)
		k := r.Range(0, 3)
		for j := 0; j < k; j++ {
			b.PutLong(i64(r))
			b.PutInt(r.Intn(100))
			l := hc.Pick(r, 0, 4, 8, 1<<20, 1<<20+1, 1<<20+4, -1, -4, 1<<31-1, r.Range(0, 40))
			b.PutInt(l)
			b.Put(r.Bytes(hc.Pick(r, 0, 4, 8, r.Range(0, 40), max(0, min(l, 64)))))
		}
		data := b.Buf
		if r.Chance(30) {
			data = data[:r.Intn(len(data)+1)]
		}
		if r.Chance(10) {
			data = r.Bytes(r.Range(0, 40))
		}
		out, _, _, pan := decContainer(data)
		line := "cdec " + hc.Hex(data)
		c.Eval(line, len(data) > 0)
		c.Count("malformed." + outClass(out))
		if pan != nil {
			c.Fail("panic:container", line, fmt.Sprint(pan))
		}
		add(line, out)
	}

	// ---- 2b. the decode-side 1 MiB limit: a length field above 2^20 must be refused even when
	// that many bytes really follow (no allocation on the sender's say-so)
	for _, l := range []int{1<<20 + 1, 1<<20 + 4, 1<<20 + 4096, 2 << 20, 16 << 20} {
		if l > 4<<20 && !c.Thorough() {
			continue
		}
		var b bin.Buffer
		b.PutID(proto.MessageContainerTypeID)
		b.PutInt(1)
		b.PutLong(i64(r))
		b.PutInt(1)
		b.PutInt(l)
		b.Put(make([]byte, l))
		out, _, _, pan := decContainer(b.Buf)
		line := fmt.Sprintf("container with one message of Bytes=%d and %d bytes following", l, l)
		c.Eval(line, true)
		c.Count("container.over-limit-with-body")
		if pan != nil {
			c.Fail("panic:container", line, fmt.Sprint(pan))
		} else if out != "err other:length" {
			c.Fail("container-limit-decode", line, "Decode did not refuse a message longer than 1 MiB: "+clip(out))
		}
		if l <= 1<<20+4096 {
			add("cdec "+hc.Hex(b.Buf), out)
		}
	}
	// exactly at the limit it must be accepted
	{
		var b bin.Buffer
		b.PutID(proto.MessageContainerTypeID)
		b.PutInt(1)
		b.PutLong(7)
		b.PutInt(3)
		b.PutInt(1 << 20)
		b.Put(make([]byte, 1<<20))
		out, got, _, pan := decContainer(b.Buf)
		c.Eval("container with one message of exactly 2^20 bytes", true)
		if pan != nil || !strings.HasPrefix(out, "ok") || len(got) != 1 || len(got[0].Body) != 1<<20 {
			c.Fail("container-limit-decode", "container with one message of exactly 2^20 bytes", "not accepted: "+clip(out))
		}
	}

	// ---- 3. results
	nr := c.N(10000, 100000)
	for i := 0; i < nr; i++ {
		x := proto.Result{RequestMessageID: i64(r), Result: genBody(r, 0)}
		if i%4000 == 1 {
			x.Result = r.Bytes(1 << 20)
		}
		var b bin.Buffer
		_ = x.Encode(&b)
		line := fmt.Sprintf("renc %d %s", x.RequestMessageID, hc.Hex(x.Result))
		c.Eval(sig(line), true)
		c.Count("result.valid")
		add(line, hc.Hex(b.Buf))
		out, got, left, pan := decResult(append([]byte{}, b.Buf...))
		if pan != nil {
			c.Fail("panic:result", "rdec "+hc.Hex(b.Buf), fmt.Sprint(pan))
		} else if !strings.HasPrefix(out, "ok") || got.RequestMessageID != x.RequestMessageID || !bytes.Equal(got.Result, x.Result) || len(left) != 0 {
			c.Fail("result-roundtrip", line, "decoded "+clip(out))
		}
		add("rdec "+hc.Hex(b.Buf), out)
		// malformed
		data := append([]byte{}, b.Buf...)
		switch r.Intn(4) {
		case 0:
			data = data[:r.Intn(min(len(data), 16)+1)]
		case 1:
			data[r.Intn(4)] ^= byte(1 << r.Intn(8))
		case 2:
			data = r.Bytes(r.Range(0, 20))
		}
		out, _, _, pan = decResult(data)
		if pan != nil {
			c.Fail("panic:result", "rdec "+hc.Hex(data), fmt.Sprint(pan))
		}
		c.Count("result.any." + outClass(out))
		c.Eval("rdec "+hc.Hex(data), len(data) > 0)
		add("rdec "+hc.Hex(data), out)
	}

	// ---- 4. unencrypted messages
	nu := c.N(10000, 100000)
	for i := 0; i < nu; i++ {
		x := proto.UnencryptedMessage{MessageID: i64(r), MessageData: genBody(r, 0)}
		var b bin.Buffer
		_ = x.Encode(&b)
		line := fmt.Sprintf("uenc %d %s", x.MessageID, hc.Hex(x.MessageData))
		c.Eval(line, true)
		c.Count("unencrypted.valid")
		add(line, hc.Hex(b.Buf))
		rest := r.Bytes(hc.Pick(r, 0, 0, 4, r.Range(1, 9)))
		buf := append(append([]byte{}, b.Buf...), rest...)
		out, got, left, pan := decUnenc(buf)
		if pan != nil {
			c.Fail("panic:unencrypted", "udec "+hc.Hex(buf), fmt.Sprint(pan))
		} else if !strings.HasPrefix(out, "ok") || got.MessageID != x.MessageID || !bytes.Equal(got.MessageData, x.MessageData) {
			c.Fail("unencrypted-roundtrip", line, "decoded "+clip(out))
		} else if !bytes.Equal(left, rest) {
			c.Fail("unencrypted-consumed", line, fmt.Sprintf("decoder left %d bytes, want %d", len(left), len(rest)))
		}
		add("udec "+hc.Hex(buf), out)
		// malformed: auth key id, negative / oversized length, truncation, arbitrary
		var mb bin.Buffer
		mb.PutLong(hc.Pick[int64](r, 0, 0, 0, 1, -1, i64(r)))
		mb.PutLong(i64(r))
		l := hc.Pick(r, 0, 4, -1, -4, 1024, 1<<31-1, -(1 << 31), r.Range(0, 40))
		mb.PutInt32(int32(l))
		mb.Put(r.Bytes(hc.Pick(r, 0, 4, r.Range(0, 40), max(0, min(l, 64)))))
		data := mb.Buf
		if r.Chance(30) {
			data = data[:r.Intn(len(data)+1)]
		}
		out, _, _, pan = decUnenc(data)
		if pan != nil {
			c.Fail("panic:unencrypted", "udec "+hc.Hex(data), fmt.Sprint(pan))
		}
		c.Count("unencrypted.any." + outClass(out))
		c.Eval("udec "+hc.Hex(data), len(data) > 0)
		add("udec "+hc.Hex(data), out)
	}

	// ---- 5. gzip
	type gcase struct {
		name string
		data []byte
	}
	var gcs []gcase
	ng := c.N(1500, 15000)
	for i := 0; i < ng; i++ {
		var d []byte
		switch r.Intn(5) {
		case 0:
			d = r.Bytes(r.Range(0, 64))
		case 1:
			d = bytes.Repeat(r.Bytes(r.Range(1, 8)), r.Range(0, 400))
		case 2:
			d = r.Bytes(r.Range(64, 5000))
		case 3:
			d = make([]byte, r.Range(0, 100000))
		default:
			d = []byte(strings.Repeat("updateShortMessage ", r.Range(0, 60)))
		}
		gcs = append(gcs, gcase{"small", d})
	}
	pat := func(n int, b byte) []byte { return bytes.Repeat([]byte{b}, n) }
	gcs = append(gcs, gcase{"limit-1", pat(limit-1, 0)}, gcase{"limit", pat(limit, 0)}, gcase{"limit+1", pat(limit+1, 7)},
		gcase{"limit-4096", pat(limit-4096, 3)}, gcase{"15MiB", pat(15<<20, 0)}, gcase{"random-1MiB", r.Bytes(1 << 20)})
	if c.Thorough() {
		gcs = append(gcs, gcase{"random-limit-1", r.Bytes(limit - 1)}, gcase{"random-limit", r.Bytes(limit)})
		for i := 0; i < 12; i++ {
			gcs = append(gcs, gcase{"near-limit", pat(limit+r.Range(-3, 3), byte(i))})
		}
	}
	for _, gc := range gcs {
		d := gc.data
		var b bin.Buffer
		err := proto.GZIP{Data: d}.Encode(&b)
		line := fmt.Sprintf("gzip %s len=%d", gc.name, len(d))
		c.Count("gzip." + gc.name)
		if err != nil {
			c.Fail("gzip-encode", line, err.Error())
			continue
		}
		// the compressed bytes as seen by the generated mt type (same frame, other decoder)
		var packed mt.GzipPacked
		if err := packed.Decode(&bin.Buffer{Buf: append([]byte{}, b.Buf...)}); err != nil {
			c.Fail("gzip-frame-mt", line, "mt.GzipPacked cannot decode proto.GZIP's encoding: "+err.Error())
			continue
		}
		comp := packed.PackedData
		if len(comp) >= 1<<24 {
			c.Fail("gzip-compressed-too-long", line, fmt.Sprintf("compressed length %d does not fit TL bytes", len(comp)))
		}
		small := len(comp) <= 1<<16 || gc.name == "random-1MiB" || c.Thorough()
		if small {
			add("gzenc "+hc.Hex(comp), hc.Hex(b.Buf))
		}
		rest := r.Bytes(hc.Pick(r, 0, 4, 8))
		buf := append(append([]byte{}, b.Buf...), rest...)
		out, g, left, pan := decGzip(buf)
		ref, refN, clean, hdrOK := gunzRef(comp, limit+(1<<20))
		c.Eval(line+" "+hc.Hex(comp[:min(len(comp), 24)]), true)
		switch {
		case pan != nil:
			c.Fail("panic:gzip", line, fmt.Sprint(pan))
		case len(g.Data) > limit:
			c.Fail("gzip-unbounded", line, fmt.Sprintf("Decode produced %d bytes (> 10 MiB)", len(g.Data)))
		case len(d) < limit:
			if !strings.HasPrefix(out, "ok") || !bytes.Equal(g.Data, d) {
				c.Fail("gzip-roundtrip", line, "Decode(Encode(d)) = "+clip(out))
			} else if !bytes.Equal(left, rest) {
				c.Fail("gzip-consumed", line, fmt.Sprintf("decoder left %d bytes, want %d", len(left), len(rest)))
			}
			if !clean || !bytes.Equal(ref, d) {
				return fmt.Errorf("reference gunzip disagrees with the data that was compressed (%s)", line)
			}
		default:
			if out != "err other:bomb" {
				c.Fail("gzip-limit", line, "decompressing "+strconv.Itoa(len(d))+" bytes (≥ 10 MiB) gave "+clip(out))
			}
		}
		if small {
			add(fmt.Sprintf("gzdec %s %d %v %v", hc.Hex(buf), refN, clean, hdrOK), out)
		} else {
			// only the frame header goes through the model: replace the payload by its length
			add(fmt.Sprintf("gzlim %d %v %v", refN, clean, hdrOK), map[bool]string{true: "ok", false: out}[strings.HasPrefix(out, "ok")])
		}
	}
	// bombs: highly compressible streams far beyond the limit, built by streaming
	bombSizes := []int{64 << 20}
	if c.Thorough() {
		bombSizes = append(bombSizes, 1<<30)
	}
	for _, sz := range bombSizes {
		var cb bytes.Buffer
		w := gzip.NewWriter(&cb)
		chunk := make([]byte, 1<<20)
		for k := 0; k < sz; k += len(chunk) {
			_, _ = w.Write(chunk)
		}
		_ = w.Close()
		var b bin.Buffer
		b.PutID(proto.GZIPTypeID)
		b.PutBytes(cb.Bytes())
		line := fmt.Sprintf("gzip bomb len=%d compressed=%d", sz, cb.Len())
		c.Eval(line, true)
		c.Count("gzip.bomb")
		out, g, _, pan := decGzip(b.Buf)
		switch {
		case pan != nil:
			c.Fail("panic:gzip", line, fmt.Sprint(pan))
		case len(g.Data) > limit:
			c.Fail("gzip-unbounded", line, fmt.Sprintf("Decode produced %d bytes (> 10 MiB)", len(g.Data)))
		case out != "err other:bomb":
			c.Fail("gzip-limit", line, "a "+strconv.Itoa(sz)+"-byte bomb gave "+clip(out))
		}
		_, refN, clean, hdrOK := gunzRef(cb.Bytes(), limit+(1<<20))
		add(fmt.Sprintf("gzdec %s %d %v %v", hc.Hex(b.Buf), refN, clean, hdrOK), out)
	}
	// corrupted / foreign streams and frames
	nc := c.N(3000, 30000)
	for i := 0; i < nc; i++ {
		d := bytes.Repeat(r.Bytes(r.Range(1, 16)), r.Range(1, 200))
		var cb bytes.Buffer
		w := gzip.NewWriter(&cb)
		_, _ = w.Write(d)
		_ = w.Close()
		comp := cb.Bytes()
		kind := ""
		switch r.Intn(8) {
		case 0:
			comp[r.Intn(len(comp))] ^= byte(1 << r.Intn(8))
			kind = "bitflip"
		case 1:
			comp = comp[:r.Intn(len(comp))]
			kind = "truncated-stream"
		case 2:
			comp = append(comp, r.Bytes(r.Range(1, 8))...)
			kind = "trailing-garbage"
		case 3:
			comp = r.Bytes(r.Range(0, 40))
			kind = "random"
		case 4:
			comp = append(comp, comp...)
			kind = "two-members"
		case 5:
			comp = nil
			kind = "empty"
		case 6:
			comp[len(comp)-5] ^= 0x10 // CRC32 / ISIZE trailer
			kind = "bad-trailer"
		default:
			kind = "intact"
		}
		var b bin.Buffer
		id := uint32(proto.GZIPTypeID)
		if r.Chance(5) {
			id = hc.Pick[uint32](r, proto.ResultTypeID, id+1)
		}
		b.PutID(id)
		b.PutBytes(comp)
		data := b.Buf
		if r.Chance(10) {
			data = data[:r.Intn(len(data)+1)]
			kind += "+cut-frame"
		}
		out, g, _, pan := decGzip(append([]byte{}, data...))
		line := "gzdec " + hc.Hex(data)
		c.Eval(line, true)
		c.Count("gzip.corrupt." + kind + "." + outClass(out))
		if pan != nil {
			c.Fail("panic:gzip", line, fmt.Sprint(pan))
		} else if len(g.Data) > limit {
			c.Fail("gzip-unbounded", line, fmt.Sprintf("Decode produced %d bytes", len(g.Data)))
		}
		// what the decompressor does with the bytes the frame carries (if the frame parses)
		fb := &bin.Buffer{Buf: append([]byte{}, data...)}
		refN, clean, hdrOK := 0, false, false
		if fb.ConsumeID(proto.GZIPTypeID) == nil {
			if cbuf, err := fb.Bytes(); err == nil {
				var ref []byte
				ref, refN, clean, hdrOK = gunzRef(cbuf, limit+(1<<20))
				if strings.HasPrefix(out, "ok") && !bytes.Equal(ref, g.Data) {
					c.Fail("gzip-data", line, "Decode returned data that differs from the stream's content")
				}
			}
		}
		add(fmt.Sprintf("%s %d %v %v", line, refN, clean, hdrOK), out)
	}

	// ---- 5b. decoded values must not alias the input buffer (buffers are pooled and reused by the callers)
	for i := 0; i < c.N(1500, 15000); i++ {
		body := r.Bytes(4 * r.Range(1, 40))
		id := i64(r)
		scramble := func(x []byte) {
			for j := range x {
				x[j] ^= 0xa5
			}
		}
		c.Eval(fmt.Sprintf("alias #%d len=%d", i, len(body)), true)
		c.Count("alias")
		{
			var b bin.Buffer
			_ = (&proto.MessageContainer{Messages: []proto.Message{{ID: id, SeqNo: 1, Bytes: len(body), Body: body}}}).Encode(&b)
			src := append([]byte{}, b.Buf...)
			var mc proto.MessageContainer
			if err := mc.Decode(&bin.Buffer{Buf: src}); err == nil && len(mc.Messages) == 1 {
				scramble(src)
				if !bytes.Equal(mc.Messages[0].Body, body) {
					c.Fail("container-aliases-buffer", "cdec "+hc.Hex(b.Buf), "decoded body changed when the input buffer was overwritten")
				}
			}
		}
		{
			var b bin.Buffer
			_ = (&proto.Result{RequestMessageID: id, Result: body}).Encode(&b)
			src := append([]byte{}, b.Buf...)
			var x proto.Result
			if err := x.Decode(&bin.Buffer{Buf: src}); err == nil {
				scramble(src)
				if !bytes.Equal(x.Result, body) {
					c.Fail("result-aliases-buffer", "rdec "+hc.Hex(b.Buf), "decoded result changed when the input buffer was overwritten")
				}
			}
		}
		{
			var b bin.Buffer
			_ = proto.UnencryptedMessage{MessageID: id, MessageData: body}.Encode(&b)
			src := append([]byte{}, b.Buf...)
			var x proto.UnencryptedMessage
			if err := x.Decode(&bin.Buffer{Buf: src}); err == nil {
				scramble(src)
				if !bytes.Equal(x.MessageData, body) {
					c.Fail("unencrypted-aliases-buffer", "udec "+hc.Hex(b.Buf), "decoded data changed when the input buffer was overwritten")
				}
			}
		}
		{
			var b bin.Buffer
			_ = proto.GZIP{Data: body}.Encode(&b)
			src := append([]byte{}, b.Buf...)
			var x proto.GZIP
			if err := x.Decode(&bin.Buffer{Buf: src}); err == nil {
				scramble(src)
				if !bytes.Equal(x.Data, body) {
					c.Fail("gzip-aliases-buffer", "gzip alias", "decoded data changed when the input buffer was overwritten")
				}
			}
		}
	}

	// ---- 5c. the gzip writer/reader pools under concurrent use: every goroutine gets its own data back
	{
		workers, per := 8, c.N(150, 1500)
		seeds := make([]*hc.RNG, workers)
		for w := range seeds {
			seeds[w] = r.Fork()
		}
		bad := make([]string, workers)
		var wg sync.WaitGroup
		for w := 0; w < workers; w++ {
			wg.Add(1)
			go func(w int) {
				defer wg.Done()
				defer func() {
					if p := recover(); p != nil {
						bad[w] = fmt.Sprintf("panic: %v", p)
					}
				}()
				rr := seeds[w]
				for k := 0; k < per; k++ {
					d := bytes.Repeat(rr.Bytes(rr.Range(1, 32)), rr.Range(1, 300))
					var b bin.Buffer
					if err := (proto.GZIP{Data: d}).Encode(&b); err != nil {
						bad[w] = "encode: " + err.Error()
						return
					}
					var g proto.GZIP
					if err := g.Decode(&b); err != nil || !bytes.Equal(g.Data, d) {
						bad[w] = fmt.Sprintf("worker %d item %d: decoded %d bytes (err %v), encoded %d", w, k, len(g.Data), err, len(d))
						return
					}
				}
			}(w)
		}
		wg.Wait()
		c.Eval("gzip concurrent pools", true)
		c.Count("gzip.concurrent")
		for _, x := range bad {
			if x != "" {
				c.Fail("gzip-concurrent", fmt.Sprintf("%d goroutines × %d round trips through the shared pools", workers, per), x)
			}
		}
	}

	// ---- 6. the generated mt types read the same frames (implementation cross-check)
	nm := c.N(2000, 20000)
	for i := 0; i < nm; i++ {
		cnt := r.Range(0, 4)
		var ms []proto.Message
		var packs [][]byte
		for j := 0; j < cnt; j++ {
			p := r.Bytes(hc.Pick(r, 0, 1, 3, 4, 253, 254, 255, r.Range(0, 600)))
			var pb bin.Buffer
			pb.PutID(proto.GZIPTypeID)
			pb.PutBytes(p)
			packs = append(packs, p)
			ms = append(ms, proto.Message{ID: i64(r), SeqNo: r.Intn(1 << 20), Bytes: pb.Len(), Body: append([]byte{}, pb.Buf...)})
		}
		var b bin.Buffer
		if err := (&proto.MessageContainer{Messages: ms}).Encode(&b); err != nil {
			c.Fail("container-encode", "mt "+showMsgs(ms), err.Error())
			continue
		}
		c.Eval("mt "+hc.Hex(b.Buf), cnt > 0)
		c.Count("mt.container")
		// the mt twin's own encoder must produce the same bytes, and the model both
		twin := mt.MsgContainer{}
		var twinTxt []string
		for j := range ms {
			twin.Messages = append(twin.Messages, mt.Message{MsgID: ms[j].ID, Seqno: ms[j].SeqNo, Bytes: ms[j].Bytes, Body: mt.GzipPacked{PackedData: packs[j]}})
			twinTxt = append(twinTxt, fmt.Sprintf("%d:%d:%d:%s", ms[j].ID, ms[j].SeqNo, ms[j].Bytes, hc.Hex(packs[j])))
		}
		var tb bin.Buffer
		if err := twin.Encode(&tb); err != nil || !bytes.Equal(tb.Buf, b.Buf) {
			c.Fail("mt-container", "mt "+hc.Hex(b.Buf), fmt.Sprintf("mt.MsgContainer.Encode of the twin differs from proto's bytes (err %v)", err))
		}
		tt := "-"
		if len(twinTxt) > 0 {
			tt = strings.Join(twinTxt, ";")
		}
		add("mtcenc "+tt, hc.Hex(tb.Buf))
		tail := r.Bytes(hc.Pick(r, 0, 0, 4))
		add("mtcdec "+hc.Hex(append(append([]byte{}, tb.Buf...), tail...)), "ok "+tt+" "+hc.Hex(tail))
		var mc mt.MsgContainer
		if err := mc.Decode(&bin.Buffer{Buf: append([]byte{}, b.Buf...)}); err != nil {
			c.Fail("mt-container", "mt "+hc.Hex(b.Buf), "mt.MsgContainer cannot decode proto's container: "+err.Error())
			continue
		}
		ok := len(mc.Messages) == cnt
		for j := 0; ok && j < cnt; j++ {
			ok = mc.Messages[j].MsgID == ms[j].ID && mc.Messages[j].Seqno == ms[j].SeqNo && mc.Messages[j].Bytes == ms[j].Bytes &&
				bytes.Equal(mc.Messages[j].Body.PackedData, packs[j])
		}
		if !ok {
			c.Fail("mt-container", "mt "+hc.Hex(b.Buf), "mt.MsgContainer decoded different messages")
		}
		if cnt > 0 {
			var rb bin.Buffer
			_ = (&proto.Result{RequestMessageID: ms[0].ID, Result: ms[0].Body}).Encode(&rb)
			var mr mt.RPCResult
			if err := mr.Decode(&bin.Buffer{Buf: rb.Buf}); err != nil || mr.ReqMsgID != ms[0].ID || !bytes.Equal(mr.Result.PackedData, packs[0]) {
				c.Fail("mt-result", "mt "+hc.Hex(rb.Buf), fmt.Sprintf("mt.RPCResult decoded %d (err %v)", mr.ReqMsgID, err))
			}
			var mb bin.Buffer
			_ = (&mt.RPCResult{ReqMsgID: ms[0].ID, Result: mt.GzipPacked{PackedData: packs[0]}}).Encode(&mb)
			add(fmt.Sprintf("mtrenc %d %s", ms[0].ID, hc.Hex(packs[0])), hc.Hex(mb.Buf))
			add("mtrdec "+hc.Hex(rb.Buf), fmt.Sprintf("ok %d %s -", ms[0].ID, hc.Hex(packs[0])))
		}
	}

	// ---- 6b. mt decoders on malformed / truncated input and announced counts
	for i := 0; i < c.N(3000, 30000); i++ {
		var b bin.Buffer
		b.PutID(hc.Pick[uint32](r, mt.MsgContainerTypeID, mt.MsgContainerTypeID, mt.RPCResultTypeID, uint32(r.U64())))
		cnt := hc.Pick(r, -1, 0, 1, 2, 1023, 1024, 1025, 1<<31-1, -(1 << 31), r.Range(0, 5000))
		b.PutInt(cnt)
		for j := r.Range(0, 2); j > 0; j-- {
			b.PutLong(i64(r))
			b.PutInt(r.Intn(100))
			b.PutInt(r.Intn(100))
			b.PutID(hc.Pick[uint32](r, mt.GzipPackedTypeID, mt.GzipPackedTypeID, mt.MessageTypeID))
			b.PutBytes(r.Bytes(r.Range(0, 12)))
		}
		data := b.Buf
		if r.Chance(40) {
			data = data[:r.Intn(len(data)+1)]
		}
		var mc mt.MsgContainer
		bb := &bin.Buffer{Buf: append([]byte{}, data...)}
		out, pan := guard(func() string {
			if err := mc.Decode(bb); err != nil {
				return "err " + errTag(err)
			}
			var xs []string
			for _, m := range mc.Messages {
				xs = append(xs, fmt.Sprintf("%d:%d:%d:%s", m.MsgID, m.Seqno, m.Bytes, hc.Hex(m.Body.PackedData)))
			}
			t := "-"
			if len(xs) > 0 {
				t = strings.Join(xs, ";")
			}
			return "ok " + t + " " + hc.Hex(bb.Buf)
		})
		line := "mtcdec " + hc.Hex(data)
		c.Eval(line, len(data) > 0)
		c.Count("mt.malformed." + outClass(out))
		if pan != nil {
			c.Fail("panic:mt-container", line, fmt.Sprint(pan))
		} else if cap(mc.Messages) > 1024+len(mc.Messages) {
			c.Fail("mt-prealloc", line, fmt.Sprintf("capacity %d for %d decoded messages", cap(mc.Messages), len(mc.Messages)))
		}
		add(line, out)
		add(fmt.Sprintf("mtprealloc %d", cnt), strconv.Itoa(func() int {
			if cnt > 0 {
				return cnt % bin.PreallocateLimit
			}
			return 0
		}()))
	}

	c.Res.Rule = "containers: 0..12 (sometimes 30..80) messages with random ids/seqnos and bodies of 0..3000 bytes (aligned or not), periodically 2^19..2^20 bytes, 1/12 each: a body over 1 MiB, a negative length, a length field disagreeing with the body; every valid encoding is decoded with trailing bytes and at a random truncation (non-trivial = at least one message); malformed containers: wrong id, counts −2^31, −1, 0, 2^31−1 with short input, length fields 2^20, 2^20+1, negative, 2^31−1, random bytes; results and unencrypted messages the same way (bad auth_key_id, negative/oversized data length); gzip: random/compressible payloads up to 100 KB, payloads of 10 MiB−1, 10 MiB, 10 MiB+1, 15 MiB, a streamed 64 MiB (1 GiB in thorough) bomb, incompressible 1 MiB (10 MiB−1 and 10 MiB in thorough), bit-flipped / truncated / extended / foreign / double-member streams and cut frames; the generated mt.MsgContainer / mt.RPCResult / mt.GzipPacked must read proto's frames identically. distinct = distinct request line"

	c.PartialNote("gzip (klauspost/compress) is a primitive: the model takes the decompressor's output length and clean/unclean end as inputs; memory use of the decompressor is not modelled")
	c.PartialNote("Go runtime panics other than the make/slice bounds checks made explicit in the model are exercised under recover(), not exhibited by the model")
	return bt.Done()
}

// outClass is "ok", "panic" or the error tag of an outcome line.
func outClass(out string) string {
	if strings.HasPrefix(out, "err ") {
		t := out[4:]
		if strings.HasPrefix(t, "other:") && len(t) > 40 {
			t = t[:40]
		}
		return t
	}
	return strings.SplitN(out, " ", 2)[0]
}

// sig shortens a long request line to a prefix plus a hash (distinctness is counted on it).
func sig(line string) string {
	if len(line) <= 300 {
		return line
	}
	h := fnv.New64a()
	h.Write([]byte(line))
	return fmt.Sprintf("%s…#%d:%x", line[:200], len(line), h.Sum64())
}

func clip(s string) string {
	if len(s) > 200 {
		return s[:200] + "…"
	}
	return s
}
