package main

import (
	"fmt"
	"go/ast"
	"sort"
	"strings"

	"verif/harness/hc"
)

func facts(f *hc.Facts) {
	for _, c := range [][3]string{
		{"newSessionCreatedTypeID", "mt", "NewSessionCreatedTypeID"},
		{"badMsgNotificationTypeID", "mt", "BadMsgNotificationTypeID"},
		{"badServerSaltTypeID", "mt", "BadServerSaltTypeID"},
		{"futureSaltsTypeID", "mt", "FutureSaltsTypeID"},
		{"pongTypeID", "mt", "PongTypeID"},
		{"msgsAckTypeID", "mt", "MsgsAckTypeID"},
		{"rpcErrorTypeID", "mt", "RPCErrorTypeID"},
		{"msgDetailedInfoTypeID", "mt", "MsgDetailedInfoTypeID"},
		{"msgNewDetailedInfoTypeID", "mt", "MsgNewDetailedInfoTypeID"},
		{"containerTypeID", "proto", "MessageContainerTypeID"},
		{"resultTypeID", "proto", "ResultTypeID"},
		{"gzipTypeID", "proto", "GZIPTypeID"},
	} {
		f.Const(c[0], c[1], c[2])
	}
	// the type switch of Conn.handleMessage: case ids -> handler
	fd := f.FuncDecl("mtproto", "Conn.handleMessage")
	var rows []string
	defaultOK := false
	if fd != nil {
		ast.Inspect(fd.Body, func(n ast.Node) bool {
			sw, ok := n.(*ast.SwitchStmt)
			if !ok {
				return true
			}
			for _, s := range sw.Body.List {
				cc := s.(*ast.CaseClause)
				target := "?"
				if len(cc.Body) == 1 {
					if rs, ok := cc.Body[0].(*ast.ReturnStmt); ok && len(rs.Results) == 1 {
						src := f.Src(rs.Results[0])
						switch {
						case src == "nil":
							target = "nil"
						case strings.HasPrefix(src, "c.handler.OnMessage("):
							target = "OnMessage"
						case strings.HasPrefix(src, "c.handle"):
							target = src[2:strings.Index(src, "(")]
						}
					}
				}
				if cc.List == nil {
					defaultOK = target == "OnMessage"
					continue
				}
				for _, e := range cc.List {
					se, ok := e.(*ast.SelectorExpr)
					if !ok {
						rows = append(rows, "(missing_case_expr, \"?\")")
						continue
					}
					pkg := f.Src(se.X)
					v, ok := f.ConstInt(pkg, se.Sel.Name)
					if !ok {
						rows = append(rows, fmt.Sprintf("(missing_const_%s, \"?\")", se.Sel.Name))
						continue
					}
					rows = append(rows, fmt.Sprintf("(%s, %q)", v, target))
				}
			}
			return false
		})
	}
	// Effect signature of every handler body: the ordered list of decodes / notifications / state
	// changes / recursive calls it contains (AST walk in source order).  A case of the switch keeps its
	// handler name in `dispatch` only if the handler's body has the signature the model implements;
	// otherwise it becomes "unknown:<handler>" (the model then returns an error, the pinned table breaks).
	want := map[string]string{
		"handleSessionCreated":    "decode:mt.NewSessionCreated,gotSession.Signal,storeSalt:s.ServerSalt,OnSession",
		"handleBadMsg":            "decode:mt.BadMsgNotification,NotifyError:bad.BadMsgID,decode:mt.BadServerSalt,NotifyError:bad.BadMsgID",
		"handleFutureSalts":       "decode:mt.FutureSalts,salts.Store:res.Salts",
		"handleContainer":         "decode:proto.MessageContainer,processContainerMessage",
		"processContainerMessage": "handleMessage",
		"handleResult":            "decode:proto.Result,gzip,decode:mt.RPCError,NotifyError:res.RequestMessageID,handlePong,NotifyResult:res.RequestMessageID",
		"handlePong":              "decode:mt.Pong,close,delete:c.ping",
		"handleAck":               "decode:mt.MsgsAck,NotifyAcks:ack.MsgIDs",
		"handleGZIP":              "gzip,handleMessage",
		"gzip":                    "decode:proto.GZIP",
	}
	var effRows []string
	sigOK := map[string]bool{}
	names := make([]string, 0, len(want))
	for n := range want {
		names = append(names, n)
	}
	sort.Strings(names)
	for _, n := range names {
		name := "Conn." + n
		if n == "gzip" {
			name = n
		}
		sig := effectSignature(f, f.FuncDecl("mtproto", name))
		sigOK[n] = sig == want[n]
		effRows = append(effRows, fmt.Sprintf("(%q, %q)", n, sig))
	}
	f.Raw("/-- effect signature of each handler body (decodes, notifications, state changes, recursive calls, in source order) -/")
	f.Raw("def effects : List (String × String) := [" + strings.Join(effRows, ", ") + "]")
	depends := map[string][]string{"handleContainer": {"processContainerMessage"}, "handleGZIP": {"gzip"}, "handleResult": {"gzip", "handlePong"}}
	for i, row := range rows {
		for n := range want {
			if strings.HasSuffix(row, fmt.Sprintf(", %q)", n)) {
				ok := sigOK[n]
				for _, d := range depends[n] {
					ok = ok && sigOK[d]
				}
				if !ok {
					rows[i] = strings.Replace(row, fmt.Sprintf("%q)", n), fmt.Sprintf("%q)", "unknown:"+n), 1)
				}
			}
		}
	}
	if len(rows) == 0 {
		f.Missing("dispatch", "type switch of mtproto.Conn.handleMessage not found")
	} else {
		f.Raw("/-- type switch of mtproto.Conn.handleMessage: type id ↦ handler (\"nil\" = return nil) -/")
		f.Raw("def dispatch : List (Nat × String) := [" + strings.Join(rows, ", ") + "]")
	}
	f.Bool("defaultIsOnMessage", defaultOK, "the default branch is `return c.handler.OnMessage(b)`")
	// proto.Message.Decode: `m.Bytes < 0 || m.Bytes > 1024*1024`
	found := false
	if md := f.FuncDecl("proto", "Message.Decode"); md != nil {
		ast.Inspect(md.Body, func(n ast.Node) bool {
			be, ok := n.(*ast.BinaryExpr)
			if ok && be.Op.String() == ">" && f.Src(be.X) == "m.Bytes" && !found {
				src := f.Src(be.Y)
				prod := 1
				okAll := true
				for _, p := range strings.Split(src, "*") {
					var v int
					if _, err := fmt.Sscanf(strings.TrimSpace(p), "%d", &v); err != nil {
						okAll = false
					}
					prod *= v
				}
				if okAll {
					found = true
					f.Raw(fmt.Sprintf("def maxContainerMessage : Int := %d -- proto.Message.Decode: m.Bytes > %s", prod, src))
				}
			}
			return true
		})
	}
	if !found {
		f.Missing("maxContainerMessage", "bound on m.Bytes in proto.Message.Decode not found")
	}
	// handleContainer decodes the whole container before handling any message, and stops at the first error
	src := f.FuncSrc("mtproto", "Conn.handleContainer")
	f.Bool("containerDecodedFirst", strings.Index(src, "container.Decode(b)") >= 0 && strings.Index(src, "container.Decode(b)") < strings.Index(src, "processContainerMessage"), "container.Decode precedes the processing loop")
	// handleResult routes by res.RequestMessageID only
	rs := f.FuncSrc("mtproto", "Conn.handleResult")
	f.Nat("resultNotifyCalls", strings.Count(rs, "c.rpc.NotifyResult(res.RequestMessageID,")+strings.Count(rs, "c.rpc.NotifyError(res.RequestMessageID,"), "Notify* calls in handleResult that pass res.RequestMessageID")
	f.Nat("resultNotifyCallsAll", strings.Count(rs, "c.rpc.Notify"), "all Notify* calls in handleResult")
	bs := f.FuncSrc("mtproto", "Conn.handleBadMsg")
	f.Nat("badMsgNotifyCalls", strings.Count(bs, "c.rpc.NotifyError(bad.BadMsgID,"), "NotifyError calls in handleBadMsg that pass bad.BadMsgID")
	f.Nat("badMsgNotifyCallsAll", strings.Count(bs, "c.rpc.Notify"), "all Notify* calls in handleBadMsg")
}

// effectSignature lists, in source order, the calls of a handler body that decode a message,
// notify the rpc engine / the handler, change connection state, or recurse.
func effectSignature(f *hc.Facts, fd *ast.FuncDecl) string {
	if fd == nil || fd.Body == nil {
		return "missing"
	}
	vars := map[string]string{} // local variable -> declared type
	var out []string
	ast.Inspect(fd.Body, func(n ast.Node) bool {
		switch n := n.(type) {
		case *ast.DeclStmt:
			if gd, ok := n.Decl.(*ast.GenDecl); ok {
				for _, sp := range gd.Specs {
					if vs, ok := sp.(*ast.ValueSpec); ok && vs.Type != nil {
						for _, id := range vs.Names {
							vars[id.Name] = f.Src(vs.Type)
						}
					}
				}
			}
		case *ast.CallExpr:
			src := f.Src(n.Fun)
			arg0 := ""
			if len(n.Args) > 0 {
				arg0 = f.Src(n.Args[0])
			}
			switch {
			case strings.HasSuffix(src, ".Decode") && len(n.Args) == 1:
				v := strings.TrimSuffix(src, ".Decode")
				if t, ok := vars[v]; ok {
					out = append(out, "decode:"+t)
				} else {
					out = append(out, "decode:?"+v)
				}
			case src == "c.rpc.NotifyError", src == "c.rpc.NotifyResult", src == "c.rpc.NotifyAcks":
				out = append(out, strings.TrimPrefix(src, "c.rpc.")+":"+arg0)
			case src == "c.salts.Store":
				out = append(out, "salts.Store:"+arg0)
			case src == "c.storeSalt":
				out = append(out, "storeSalt:"+arg0)
			case src == "c.gotSession.Signal":
				out = append(out, "gotSession.Signal")
			case src == "c.handler.OnSession":
				out = append(out, "OnSession")
			case src == "c.handler.OnMessage":
				out = append(out, "OnMessage")
			case src == "c.handleMessage", src == "c.handlePong", src == "c.processContainerMessage", src == "gzip":
				out = append(out, strings.TrimPrefix(src, "c."))
			case src == "close":
				out = append(out, "close")
			case src == "delete":
				out = append(out, "delete:"+arg0)
			case strings.HasPrefix(src, "c.rpc.") || strings.HasPrefix(src, "c.handler."):
				out = append(out, "other:"+src)
			}
		}
		return true
	})
	return strings.Join(out, ",")
}
