package main

import (
	"fmt"
	"go/ast"
	"strings"

	"verif/harness/hc"
)

func facts(f *hc.Facts) {
	for _, c := range [][3]string{
		{"newSessionCreatedTypeID", "mt", "NewSessionCreatedTypeID"},
		{"badMsgNotificationTypeID", "mt", "BadMsgNotificationTypeID"},
		{"badServerSaltTypeID", "mt", "BadServerSaltTypeID"},
		{"futureSaltsTypeID", "mt", "FutureSaltsTypeID"},
		{"pongTypeID", "mt", "PongTypeID"},
		{"msgsAckTypeID", "mt", "MsgsAckTypeID"},
		{"rpcErrorTypeID", "mt", "RPCErrorTypeID"},
		{"msgDetailedInfoTypeID", "mt", "MsgDetailedInfoTypeID"},
		{"msgNewDetailedInfoTypeID", "mt", "MsgNewDetailedInfoTypeID"},
		{"containerTypeID", "proto", "MessageContainerTypeID"},
		{"resultTypeID", "proto", "ResultTypeID"},
		{"gzipTypeID", "proto", "GZIPTypeID"},
	} {
		f.Const(c[0], c[1], c[2])
	}
	// the type switch of Conn.handleMessage: case ids -> handler
	fd := f.FuncDecl("mtproto", "Conn.handleMessage")
	var rows []string
	defaultOK := false
	if fd != nil {
		ast.Inspect(fd.Body, func(n ast.Node) bool {
			sw, ok := n.(*ast.SwitchStmt)
			if !ok {
				return true
			}
			for _, s := range sw.Body.List {
				cc := s.(*ast.CaseClause)
				target := "?"
				if len(cc.Body) == 1 {
					if rs, ok := cc.Body[0].(*ast.ReturnStmt); ok && len(rs.Results) == 1 {
						src := f.Src(rs.Results[0])
						switch {
						case src == "nil":
							target = "nil"
						case strings.HasPrefix(src, "c.handler.OnMessage("):
							target = "OnMessage"
						case strings.HasPrefix(src, "c.handle"):
							target = src[2:strings.Index(src, "(")]
						}
					}
				}
				if cc.List == nil {
					defaultOK = target == "OnMessage"
					continue
				}
				for _, e := range cc.List {
					se, ok := e.(*ast.SelectorExpr)
					if !ok {
						rows = append(rows, "(missing_case_expr, \"?\")")
						continue
					}
					pkg := f.Src(se.X)
					v, ok := f.ConstInt(pkg, se.Sel.Name)
					if !ok {
						rows = append(rows, fmt.Sprintf("(missing_const_%s, \"?\")", se.Sel.Name))
						continue
					}
					rows = append(rows, fmt.Sprintf("(%s, %q)", v, target))
				}
			}
			return false
		})
	}
	if len(rows) == 0 {
		f.Missing("dispatch", "type switch of mtproto.Conn.handleMessage not found")
	} else {
		f.Raw("/-- type switch of mtproto.Conn.handleMessage: type id ↦ handler (\"nil\" = return nil) -/")
		f.Raw("def dispatch : List (Nat × String) := [" + strings.Join(rows, ", ") + "]")
	}
	f.Bool("defaultIsOnMessage", defaultOK, "the default branch is `return c.handler.OnMessage(b)`")
	// proto.Message.Decode: `m.Bytes < 0 || m.Bytes > 1024*1024`
	found := false
	if md := f.FuncDecl("proto", "Message.Decode"); md != nil {
		ast.Inspect(md.Body, func(n ast.Node) bool {
			be, ok := n.(*ast.BinaryExpr)
			if ok && be.Op.String() == ">" && f.Src(be.X) == "m.Bytes" && !found {
				src := f.Src(be.Y)
				prod := 1
				okAll := true
				for _, p := range strings.Split(src, "*") {
					var v int
					if _, err := fmt.Sscanf(strings.TrimSpace(p), "%d", &v); err != nil {
						okAll = false
					}
					prod *= v
				}
				if okAll {
					found = true
					f.Raw(fmt.Sprintf("def maxContainerMessage : Int := %d -- proto.Message.Decode: m.Bytes > %s", prod, src))
				}
			}
			return true
		})
	}
	if !found {
		f.Missing("maxContainerMessage", "bound on m.Bytes in proto.Message.Decode not found")
	}
	// handleContainer decodes the whole container before handling any message, and stops at the first error
	src := f.FuncSrc("mtproto", "Conn.handleContainer")
	f.Bool("containerDecodedFirst", strings.Index(src, "container.Decode(b)") >= 0 && strings.Index(src, "container.Decode(b)") < strings.Index(src, "processContainerMessage"), "container.Decode precedes the processing loop")
	// handleResult routes by res.RequestMessageID only
	rs := f.FuncSrc("mtproto", "Conn.handleResult")
	f.Nat("resultNotifyCalls", strings.Count(rs, "c.rpc.NotifyResult(res.RequestMessageID,")+strings.Count(rs, "c.rpc.NotifyError(res.RequestMessageID,"), "Notify* calls in handleResult that pass res.RequestMessageID")
	f.Nat("resultNotifyCallsAll", strings.Count(rs, "c.rpc.Notify"), "all Notify* calls in handleResult")
	bs := f.FuncSrc("mtproto", "Conn.handleBadMsg")
	f.Nat("badMsgNotifyCalls", strings.Count(bs, "c.rpc.NotifyError(bad.BadMsgID,"), "NotifyError calls in handleBadMsg that pass bad.BadMsgID")
	f.Nat("badMsgNotifyCallsAll", strings.Count(bs, "c.rpc.Notify"), "all Notify* calls in handleBadMsg")
}
