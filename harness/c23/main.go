// C23 — handling any decrypted server payload never crashes the connection; results are routed by id.
//
// Correspondence: Conn.handleMessage (through the VerifC23 hooks) against TdModel.C23.handle on
// the same payload, the same pending requests / ack waiters / ping waiters and the gzip table
// computed with the implementation's own proto.GZIP.Decode.  Compared: the ordered list of
// notifications (result / rpc error / bad msg to a callback, OnMessage, OnSession), the waiters
// left open, the server salt, the stored future salts, ok/error.
// Monitor: no panic; every notification goes to an id that the payload names.
package main

import (
	"encoding/binary"
	"errors"
	"fmt"
	"os"
	"path/filepath"
	"sort"
	"strconv"
	"strings"
	"time"

	"github.com/gotd/td/bin"
	"github.com/gotd/td/clock"
	"github.com/gotd/td/mt"
	"github.com/gotd/td/mtproto"
	"github.com/gotd/td/proto"
	"github.com/gotd/td/rpc"
	"github.com/gotd/td/tgerr"

	"verif/harness/hc"
)

func main() {
	hc.Main(hc.Spec{Prop: "C23", Facts: facts, Run: run})
}

// clockAdapter: a fixed far-future time, so that every int32 valid_until lies in the past
// (see Model/C23.lean handleSessionCreated); timers come from the system clock (unused here).
type clockAdapter struct{}

func (clockAdapter) Now() time.Time                      { return time.Unix(4_000_000_000, 0) }
func (clockAdapter) Timer(d time.Duration) clock.Timer   { return clock.System.Timer(d) }
func (clockAdapter) Ticker(d time.Duration) clock.Ticker { return clock.System.Ticker(d) }

type handler struct {
	evs     *[]string
	failMsg map[uint32]bool
}

func (h handler) OnMessage(b *bin.Buffer) error {
	*h.evs = append(*h.evs, "M"+hc.Hex(b.Buf))
	id, _ := b.PeekID()
	if h.failMsg[id] {
		return errors.New("handler failed")
	}
	return nil
}

func (h handler) OnSession(s mtproto.Session) error {
	*h.evs = append(*h.evs, "S"+strconv.FormatUint(uint64(s.Salt), 10))
	return nil
}

// scan replicates the traversal only to find what the payload *names*: request ids after
// rpc_result / bad_msg / bad_server_salt, acknowledged ids, pong ids, and every gzip stream
// (decompressed with the implementation's own decoder).
type scan struct {
	named  map[uint64]bool
	acks   []uint64
	pongs  []uint64
	gz     map[string]string // hex stream -> hex data or "!"
	gzKeys []string
	typeID []uint32
	depth  int
}

func le32(b []byte) uint32 { return binary.LittleEndian.Uint32(b) }
func le64(b []byte) uint64 { return binary.LittleEndian.Uint64(b) }

func (s *scan) gunzip(b []byte) ([]byte, bool) {
	buf := &bin.Buffer{Buf: b}
	if buf.ConsumeID(proto.GZIPTypeID) != nil {
		return nil, false
	}
	z, err := buf.Bytes()
	if err != nil {
		return nil, false
	}
	key := hc.Hex(z)
	var g proto.GZIP
	derr := g.Decode(&bin.Buffer{Buf: b})
	if _, ok := s.gz[key]; !ok {
		s.gzKeys = append(s.gzKeys, key)
		if derr != nil {
			s.gz[key] = "!"
		} else {
			s.gz[key] = hc.Hex(g.Data)
		}
	}
	return g.Data, derr == nil
}

func (s *scan) walk(b []byte) {
	if len(b) < 4 || s.depth > 1<<20 {
		return
	}
	s.depth++
	defer func() { s.depth-- }()
	id := le32(b)
	s.typeID = append(s.typeID, id)
	switch id {
	case proto.MessageContainerTypeID:
		var c proto.MessageContainer
		if c.Decode(&bin.Buffer{Buf: b}) == nil {
			for _, m := range c.Messages {
				s.walk(m.Body)
			}
		}
	case proto.GZIPTypeID:
		if d, ok := s.gunzip(b); ok {
			s.walk(d)
		}
	case proto.ResultTypeID:
		if len(b) >= 12 {
			s.named[le64(b[4:])] = true
			body := b[12:]
			if len(body) >= 4 && le32(body) == proto.GZIPTypeID {
				if d, ok := s.gunzip(body); ok {
					body = d
				} else {
					return
				}
			}
			if len(body) >= 20 && le32(body) == mt.PongTypeID {
				s.pongs = append(s.pongs, le64(body[12:]))
			}
		}
	case mt.BadMsgNotificationTypeID, mt.BadServerSaltTypeID:
		if len(b) >= 12 {
			s.named[le64(b[4:])] = true
		}
	case mt.MsgsAckTypeID:
		var a mt.MsgsAck
		if a.Decode(&bin.Buffer{Buf: b}) == nil {
			for _, x := range a.MsgIDs {
				s.acks = append(s.acks, uint64(x))
			}
		}
	case mt.PongTypeID:
		if len(b) >= 20 {
			s.pongs = append(s.pongs, le64(b[12:]))
		}
	}
}

// ---- payload builders

type builder struct {
	r   *hc.RNG
	ids []int64 // small pool so that ids repeat / match
}

func (g *builder) id() int64 {
	if g.r.Chance(85) {
		return g.ids[g.r.Intn(len(g.ids))]
	}
	return int64(g.r.U64())
}

func enc(e bin.Encoder) []byte {
	var b bin.Buffer
	if err := e.Encode(&b); err != nil {
		return nil
	}
	return b.Buf
}

func (g *builder) other() []byte {
	r := g.r
	switch r.Intn(4) {
	case 0:
		return enc(&mt.RPCAnswerDropped{MsgID: g.id(), SeqNo: r.Intn(100), Bytes: r.Intn(100)})
	case 1:
		var b bin.Buffer
		b.PutID(uint32(r.U64()))
		b.Put(r.Bytes(4 * r.Intn(6)))
		return b.Buf
	case 2:
		var b bin.Buffer
		b.PutID(hc.Pick[uint32](r, 0x74ae4240, 0x78d4dec1, 0x2b2fbd4e)) // updates, updateShort, ...
		b.Put(r.Bytes(r.Intn(30)))
		return b.Buf
	}
	return enc(&mt.MsgsStateInfo{ReqMsgID: g.id(), Info: r.Bytes(r.Intn(5))})
}

func (g *builder) gzipOf(data []byte) []byte {
	return enc(proto.GZIP{Data: data})
}

func (g *builder) result() []byte {
	r := g.r
	var body []byte
	switch r.Intn(7) {
	case 0, 1:
		body = g.other()
	case 2:
		body = enc(&mt.RPCError{ErrorCode: hc.Pick(r, 400, 420, 500, -1, 0, 303), ErrorMessage: hc.Pick(r, "FLOOD_WAIT_3", "", "X", "A_B_12_C", "PHONE_MIGRATE_2", string(r.Bytes(r.Intn(12))), strings.Repeat("E", hc.Pick(r, 253, 254, 255, 256, 257, 300)))})
	case 3:
		body = enc(&mt.Pong{MsgID: g.id(), PingID: g.id()})
	case 4:
		body = g.gzipOf(g.other())
	case 5:
		body = g.gzipOf(enc(&mt.RPCError{ErrorCode: 420, ErrorMessage: "FLOOD_WAIT_7"}))
	case 6:
		body = hc.Pick(r, []byte{}, []byte{1, 2}, g.gzipOf(nil), g.gzipOf([]byte{1}), enc(&mt.MsgsAck{MsgIDs: []int64{g.id()}}))
	}
	return enc(&proto.Result{RequestMessageID: g.id(), Result: body})
}

func (g *builder) message(depth int) []byte {
	r := g.r
	k := r.Intn(14)
	if depth >= 3 && (k == 8 || k == 9) {
		k = 0
	}
	switch k {
	case 0, 1, 2:
		return g.result()
	case 3:
		return enc(&mt.BadMsgNotification{BadMsgID: g.id(), BadMsgSeqno: r.Intn(50), ErrorCode: hc.Pick(r, 16, 17, 18, 19, 20, 32, 33, 34, 35, 48, 64, 0, -5)})
	case 4:
		return enc(&mt.BadServerSalt{BadMsgID: g.id(), BadMsgSeqno: r.Intn(50), ErrorCode: 48, NewServerSalt: int64(r.U64())})
	case 5:
		n := r.Intn(4)
		ids := make([]int64, n)
		for i := range ids {
			ids[i] = g.id()
			if i > 0 && r.Chance(30) {
				ids[i] = ids[i-1] // the same id acknowledged twice in one msgs_ack
			}
		}
		return enc(&mt.MsgsAck{MsgIDs: ids})
	case 6:
		return enc(&mt.Pong{MsgID: g.id(), PingID: g.id()})
	case 7:
		n := r.Intn(4)
		fs := &mt.FutureSalts{ReqMsgID: g.id(), Now: r.Intn(1 << 31)}
		for i := 0; i < n; i++ {
			fs.Salts = append(fs.Salts, mt.FutureSalt{ValidSince: r.Intn(1 << 31), ValidUntil: int(int32(r.U64())), Salt: hc.Pick(r, 1, 2, 3, int64(r.U64()))})
		}
		return enc(fs)
	case 8: // container
		n := r.Intn(5)
		var c proto.MessageContainer
		for i := 0; i < n; i++ {
			body := g.message(depth + 1)
			c.Messages = append(c.Messages, proto.Message{ID: g.id(), SeqNo: r.Intn(100), Bytes: len(body), Body: body})
			// the same service message again (duplicate pong / ack / result / bad_msg for one id)
			for r.Chance(30) {
				c.Messages = append(c.Messages, proto.Message{ID: g.id(), SeqNo: r.Intn(100), Bytes: len(body), Body: body})
			}
		}
		return enc(&c)
	case 9:
		return g.gzipOf(g.message(depth + 1))
	case 10:
		return enc(&mt.NewSessionCreated{FirstMsgID: int64(r.U64()), UniqueID: int64(r.U64()), ServerSalt: int64(r.U64())})
	case 11:
		if r.Bool() {
			return enc(&mt.MsgDetailedInfo{MsgID: g.id(), AnswerMsgID: g.id(), Bytes: 1, Status: 2})
		}
		return enc(&mt.MsgNewDetailedInfo{AnswerMsgID: g.id(), Bytes: 1, Status: 2})
	}
	return g.other()
}

var typeIDs = []uint32{mt.NewSessionCreatedTypeID, mt.BadMsgNotificationTypeID, mt.BadServerSaltTypeID, mt.FutureSaltsTypeID,
	proto.MessageContainerTypeID, proto.ResultTypeID, mt.PongTypeID, mt.MsgsAckTypeID, proto.GZIPTypeID,
	mt.MsgDetailedInfoTypeID, mt.MsgNewDetailedInfoTypeID, mt.RPCErrorTypeID, bin.TypeVector}

func mutate(r *hc.RNG, in []byte) []byte {
	out := append([]byte{}, in...)
	if len(out) == 0 {
		return out
	}
	switch r.Intn(7) {
	case 6: // lose the last 1..8 bytes
		k := r.Range(1, 8)
		if k > len(out) {
			k = len(out)
		}
		out = out[:len(out)-k]
	case 0:
		out = out[:r.Intn(len(out)+1)]
	case 1:
		out[r.Intn(len(out))] ^= 1 << uint(r.Intn(8))
	case 2:
		if len(out) >= 4 {
			w := 4 * r.Intn(len(out)/4)
			binary.LittleEndian.PutUint32(out[w:], typeIDs[r.Intn(len(typeIDs))])
		}
	case 3:
		if len(out) >= 4 {
			w := 4 * r.Intn(len(out)/4)
			binary.LittleEndian.PutUint32(out[w:], hc.Pick[uint32](r, 0, 1, 0xffffffff, 0x7fffffff, 0x80000000, 1<<20, 1<<20+1, 1<<20+4))
		}
	case 4:
		out = append(out, r.Bytes(r.Range(1, 12))...)
	case 5:
		out = out[:4*r.Intn(len(out)/4+1)]
	}
	return out
}

// exact copies the payload into a buffer whose capacity equals its length (a freshly read message):
// slice expressions are checked against cap, so an over-read into spare capacity would go unnoticed.
func exact(p []byte) []byte {
	b := make([]byte, len(p))
	copy(b, p)
	return b[:len(p):len(p)]
}

func u64s(xs []uint64) string {
	if len(xs) == 0 {
		return "-"
	}
	ss := make([]string, len(xs))
	for i, x := range xs {
		ss[i] = strconv.FormatUint(x, 10)
	}
	return strings.Join(ss, ",")
}

type caseIn struct {
	payload                       []byte
	pending, acks, pings, failRes []uint64
	failMsg                       []uint64
	salt                          uint64
	gz                            string
	named                         map[uint64]bool
}

func (ci *caseIn) line() string {
	return fmt.Sprintf("h %s %s %s %s %s %s %d %s", hc.Hex(ci.payload), u64s(ci.pending), u64s(ci.acks), u64s(ci.pings),
		u64s(ci.failRes), u64s(ci.failMsg), ci.salt, ci.gz)
}

func uniq(xs []uint64) []uint64 {
	seen := map[uint64]bool{}
	var out []uint64
	for _, x := range xs {
		if !seen[x] {
			seen[x] = true
			out = append(out, x)
		}
	}
	return out
}

// prepare chooses the connection state for a payload: pending requests whose ids may or may not
// be named by the payload, ack / ping waiters likewise.
func prepare(r *hc.RNG, payload []byte, pool []int64) *caseIn {
	s := &scan{named: map[uint64]bool{}, gz: map[string]string{}}
	s.walk(payload)
	ci := &caseIn{payload: payload, named: s.named, salt: r.U64()}
	var named []uint64
	for id := range s.named {
		named = append(named, id)
	}
	sort.Slice(named, func(i, j int) bool { return named[i] < named[j] })
	pick := func(cands []uint64, pct int) []uint64 {
		var out []uint64
		for _, x := range cands {
			if r.Chance(pct) {
				out = append(out, x)
			}
		}
		for _, x := range cands { // near misses of named ids
			if r.Chance(15) {
				out = append(out, x+hc.Pick[uint64](r, 1, 4, 1<<32, ^uint64(0), ^uint64(3)))
			}
		}
		for i := r.Intn(3); i > 0; i-- { // ids the payload does not name
			if r.Bool() {
				out = append(out, uint64(pool[r.Intn(len(pool))]))
			} else {
				out = append(out, r.U64())
			}
		}
		return uniq(out)
	}
	ci.pending = pick(named, 60)
	ci.acks = pick(s.acks, 60)
	ci.pings = pick(s.pongs, 60)
	for _, id := range ci.pending {
		if r.Chance(12) {
			ci.failRes = append(ci.failRes, id)
		}
	}
	seenT := map[uint32]bool{}
	for _, t := range s.typeID {
		if !seenT[t] && r.Chance(6) {
			ci.failMsg = append(ci.failMsg, uint64(t))
		}
		seenT[t] = true
	}
	if len(s.gzKeys) == 0 {
		ci.gz = "-"
	} else {
		var parts []string
		for _, k := range s.gzKeys {
			parts = append(parts, k+"="+s.gz[k])
		}
		ci.gz = strings.Join(parts, ";")
	}
	return ci
}

func has(xs []uint64, x uint64) bool {
	for _, y := range xs {
		if x == y {
			return true
		}
	}
	return false
}

// runImpl runs the real handleMessage and renders the observation exactly like drv_c23.
func runImpl(ci *caseIn, misrouted *[]string) (obs string, routed []uint64, panicked any) {
	var evs []string
	fm := map[uint32]bool{}
	for _, t := range ci.failMsg {
		fm[uint32(t)] = true
	}
	conn := mtproto.VerifC23NewConn(mtproto.Options{
		Handler: handler{evs: &evs, failMsg: fm},
		Clock:   clockAdapter{},
		Salt:    int64(ci.salt),
	})
	defer mtproto.VerifC23Close(conn)
	e := mtproto.VerifC23Engine(conn)
	for _, id := range ci.pending {
		id := id
		fail := has(ci.failRes, id)
		rpc.VerifC23Register(e, int64(id), func(b *bin.Buffer, err error) error {
			routed = append(routed, id)
			if err != nil {
				var te *tgerr.Error
				if code, ns, ok := mtproto.VerifC23BadMsg(err); ok {
					evs = append(evs, fmt.Sprintf("B%d:%d:%d", id, uint32(int32(code)), uint64(ns)))
				} else if errors.As(err, &te) {
					evs = append(evs, fmt.Sprintf("E%d:%d:%s", id, uint32(int32(te.Code)), hc.Hex([]byte(te.Message))))
				} else {
					evs = append(evs, fmt.Sprintf("?%d:%v", id, err))
				}
				return nil
			}
			evs = append(evs, fmt.Sprintf("R%d:%s", id, hc.Hex(b.Buf)))
			// property monitor: an rpc_error must reach the caller as an error, never as a result body
			var re mt.RPCError
			if pid, perr := b.PeekID(); perr == nil && pid == mt.RPCErrorTypeID && re.Decode(&bin.Buffer{Buf: exact(b.Buf)}) == nil {
				*misrouted = append(*misrouted, fmt.Sprintf("request %d received rpc_error %d %q as an ordinary result", id, re.ErrorCode, re.ErrorMessage))
			}
			if fail {
				return errors.New("output decode failed")
			}
			return nil
		})
	}
	ackCh := make([]<-chan struct{}, len(ci.acks))
	for i, id := range ci.acks {
		ackCh[i] = rpc.VerifC23WaitAck(e, int64(id))
	}
	pingCh := make([]<-chan struct{}, len(ci.pings))
	for i, id := range ci.pings {
		pingCh[i] = mtproto.VerifC23Pong(conn, int64(id))
	}
	var err error
	func() {
		defer func() {
			if r := recover(); r != nil {
				panicked = r
			}
		}()
		err = mtproto.VerifC23HandleMessage(conn, 0x5f5e100000000001, &bin.Buffer{Buf: exact(ci.payload)})
	}()
	if panicked != nil {
		return "panic", routed, panicked
	}
	open := func(ids []uint64, chs []<-chan struct{}) string {
		var left []uint64
		for i, ch := range chs {
			select {
			case <-ch:
			default:
				left = append(left, ids[i])
			}
		}
		return u64s(left)
	}
	stored := mtproto.VerifC23StoredSalts(conn)
	sort.Slice(stored, func(i, j int) bool {
		a, b := stored[i], stored[j]
		au, bu := uint32(int32(a.ValidUntil)), uint32(int32(b.ValidUntil))
		if au != bu {
			return au > bu
		}
		if a.Salt != b.Salt {
			return uint64(a.Salt) < uint64(b.Salt)
		}
		return uint32(int32(a.ValidSince)) <= uint32(int32(b.ValidSince))
	})
	ss := "-"
	if len(stored) > 0 {
		var parts []string
		for _, x := range stored {
			parts = append(parts, fmt.Sprintf("%d:%d:%d", uint32(int32(x.ValidSince)), uint32(int32(x.ValidUntil)), uint64(x.Salt)))
		}
		ss = strings.Join(parts, ",")
	}
	ret := "ok"
	if err != nil {
		ret = "err"
	}
	ev := "-"
	if len(evs) > 0 {
		ev = strings.Join(evs, ";")
	}
	return fmt.Sprintf("%s ev=%s acks=%s pings=%s salt=%d salts=%s", ret, ev, open(ci.acks, ackCh), open(ci.pings, pingCh),
		uint64(mtproto.VerifC23Salt(conn)), ss), routed, nil
}

func run(c *hc.Ctx) error {
	r := c.Rng
	// ---- inputs
	var payloads [][]byte
	var kinds []string
	dir := filepath.Join(c.Repo, "_fuzz", "handle_message", "corpus")
	ents, err := os.ReadDir(dir)
	if err != nil {
		c.Note("corpus %s not readable: %v", dir, err)
	}
	names := make([]string, 0, len(ents))
	for _, e := range ents {
		if !e.IsDir() {
			names = append(names, e.Name())
		}
	}
	sort.Strings(names)
	c.Note("handle_message corpus entries: %d", len(names))
	nCorpus := c.N(2000, len(names))
	if nCorpus > len(names) {
		nCorpus = len(names)
	}
	if !c.Thorough() { // seeded sample
		for i := len(names) - 1; i > 0; i-- {
			j := r.Intn(i + 1)
			names[i], names[j] = names[j], names[i]
		}
	}
	for _, n := range names[:nCorpus] {
		data, err := os.ReadFile(filepath.Join(dir, n))
		if err != nil {
			continue
		}
		payloads = append(payloads, data)
		kinds = append(kinds, "corpus")
		if r.Chance(30) {
			payloads = append(payloads, mutate(r, data))
			kinds = append(kinds, "corpus-mutated")
		}
	}
	pool := make([]int64, 6)
	for i := range pool {
		pool[i] = int64(r.U64())
	}
	g := &builder{r: r, ids: pool}
	nGen := c.N(6000, 300000)
	for i := 0; i < nGen; i++ {
		p := g.message(0)
		payloads = append(payloads, p)
		kinds = append(kinds, "generated")
		if r.Chance(35) {
			payloads = append(payloads, mutate(r, p))
			kinds = append(kinds, "generated-mutated")
		}
	}
	// limits: container message of exactly / just over 1 MiB, empty payloads, gzip bomb
	for _, n := range []int{0, 4, 1 << 20, 1<<20 + 4} {
		body := make([]byte, n)
		if n >= 4 {
			binary.LittleEndian.PutUint32(body, 0x12345678)
		}
		var b bin.Buffer
		b.PutID(proto.MessageContainerTypeID)
		b.PutInt(1)
		b.PutLong(1)
		b.PutInt(1)
		b.PutInt(n)
		b.Put(body)
		payloads = append(payloads, b.Buf)
		kinds = append(kinds, "limit")
	}
	for _, cnt := range []uint32{0xffffffff, 0x7fffffff, 0x80000000} {
		var b bin.Buffer
		b.PutID(proto.MessageContainerTypeID)
		b.PutUint32(cnt)
		payloads = append(payloads, b.Buf)
		kinds = append(kinds, "limit")
	}
	payloads = append(payloads, nil, []byte{1}, []byte{1, 2, 3})
	kinds = append(kinds, "limit", "limit", "limit")
	for _, n := range []int{10<<20 - 1, 10 << 20} { // just under the limit is accepted, the limit is a bomb
		payloads = append(payloads, g.gzipOf(make([]byte, n)))
		kinds = append(kinds, "gzip-limit")
	}
	// nested containers / gzip
	{
		p := enc(&mt.Pong{MsgID: 1, PingID: pool[0]})
		for i := 0; i < c.N(200, 2000); i++ {
			var cc proto.MessageContainer
			cc.Messages = []proto.Message{{ID: 1, SeqNo: 1, Bytes: len(p), Body: p}}
			p = enc(&cc)
			if len(p) > 1<<20-64 {
				break
			}
		}
		payloads = append(payloads, p)
		kinds = append(kinds, "nested-container")
		q := enc(&proto.Result{RequestMessageID: pool[1], Result: []byte{1, 2, 3, 4}})
		for i := 0; i < c.N(30, 300); i++ {
			q = g.gzipOf(q)
		}
		payloads = append(payloads, q)
		kinds = append(kinds, "nested-gzip")
	}

	// ---- run
	var lines, inputs, impls []string
	for i, p := range payloads {
		ci := prepare(r, p, pool)
		line := ci.line()
		var misrouted []string
		obs, routed, pan := runImpl(ci, &misrouted)
		for _, m := range misrouted {
			c.Fail("rpc-error-delivered-as-result", line, m)
		}
		c.Count("kind." + kinds[i])
		if len(p) >= 4 {
			c.Count(fmt.Sprintf("type.%08x", func() uint32 {
				id := le32(p)
				for _, t := range typeIDs {
					if t == id {
						return id
					}
				}
				return 0
			}()))
		}
		c.Count("ret." + strings.SplitN(obs, " ", 2)[0])
		c.Eval(line, len(routed) > 0 || len(ci.pending) > 0 || kinds[i] != "corpus")
		if pan != nil {
			c.Fail("handle-panic", line, fmt.Sprint(pan))
			continue
		}
		for _, id := range routed {
			c.Count("routed")
			if !ci.named[id] {
				c.Fail("routed-to-unnamed-id", line, fmt.Sprintf("callback of request %d was invoked although no rpc_result/bad_msg in the payload names it", id))
			}
		}
		if len(line) > 6<<20 { // keep the driver's input bounded: huge gzip tables are monitor-only
			c.Count("monitor-only(huge)")
			continue
		}
		lines = append(lines, line)
		inputs = append(inputs, line)
		impls = append(impls, obs)
	}
	c.Res.Rule = "payloads: handle_message fuzz corpus (seeded sample in quick, all in thorough) + 30% mutated; generated service messages (rpc_result with plain/gzipped/rpc_error/pong bodies, bad_msg, bad_server_salt, msgs_ack, pong, future_salts, new_session_created, detailed info, unknown types, containers and gzip nested to depth 3) over a pool of 6 ids + 35% mutated; size/ count limits; 200..2000-deep containers, 30..300-fold gzip; pending requests / ack waiters / ping waiters = random subsets of the ids the payload names plus ids it does not name; 12% of callbacks and 6% of OnMessage type ids fail. non-trivial = not a bare corpus entry, or some request pending; distinct = distinct request line"
	c.PartialNote("no-panic is exercised under recover(), not proved about Go; stack depth and memory of nested gzip are not exhibited by the model")
	c.PartialNote("future-salt selection by time is fixed by the harness clock (every stored salt expired); C41 covers it")
	outs, err := c.Drv.Batch(lines)
	if err != nil {
		return err
	}
	for i, o := range outs {
		if c.Compare(inputs[i], impls[i], o) {
			c.Res.TracesValidated++
		}
	}
	return nil
}
