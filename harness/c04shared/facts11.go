package c04shared

import (
	"go/ast"
	"go/token"
	"strings"

	"verif/harness/hc"
)

// FactsC11 regenerates what the exchange-answer model depends on: which variable the nil test of
// DecryptExchangeAnswer reads (defect D4), the loop bound and slice expressions of
// GuessDataWithHash, the translated paddedLen16.
func FactsC11(f *hc.Facts) {
	f.TranslateFuncs("crypto", "paddedLen16", "paddedLen16")
	// DecryptExchangeAnswer: `dst = GuessDataWithHash(dataWithHash); if X == nil { return nil, err }`
	fd := f.FuncDecl("crypto", "DecryptExchangeAnswer")
	tested, assigned, guessArg := "", "", ""
	alignSrc := ""
	if fd != nil && fd.Body != nil {
		seenGuess := false
		for _, st := range fd.Body.List {
			switch s := st.(type) {
			case *ast.AssignStmt:
				if len(s.Rhs) == 1 && len(s.Lhs) == 1 {
					if ce, ok := s.Rhs[0].(*ast.CallExpr); ok {
						if id, ok := ce.Fun.(*ast.Ident); ok && id.Name == "GuessDataWithHash" && len(ce.Args) == 1 {
							assigned = f.Src(s.Lhs[0])
							guessArg = f.Src(ce.Args[0])
							seenGuess = true
						}
					}
				}
			case *ast.IfStmt:
				be, ok := s.Cond.(*ast.BinaryExpr)
				if !ok {
					continue
				}
				if seenGuess && tested == "" && be.Op == token.EQL && f.Src(be.Y) == "nil" {
					if len(s.Body.List) > 0 {
						if _, isRet := s.Body.List[len(s.Body.List)-1].(*ast.ReturnStmt); isRet {
							tested = f.Src(be.X)
						}
					}
				}
				if !seenGuess && be.Op == token.NEQ {
					alignSrc = f.Src(s.Cond)
				}
			}
		}
	}
	if tested != "" && assigned != "" {
		f.Str("nilTestVar", tested, "crypto.DecryptExchangeAnswer: variable compared with nil after GuessDataWithHash")
		f.Str("guessResultVar", assigned, "crypto.DecryptExchangeAnswer: variable assigned from GuessDataWithHash")
		f.Str("guessArg", guessArg, "crypto.DecryptExchangeAnswer: argument of GuessDataWithHash")
	} else {
		f.Missing("nilTestVar", "crypto.DecryptExchangeAnswer: nil test after GuessDataWithHash not found")
	}
	f.Str("alignCond", alignSrc, "crypto.DecryptExchangeAnswer: block alignment condition")
	// GuessDataWithHash
	gd := f.FuncDecl("crypto", "GuessDataWithHash")
	tries, minCond, endCond, vSrc, dataSrc, cmpSrc, hSrc := "", "", "", "", "", "", ""
	if gd != nil && gd.Body != nil {
		ast.Inspect(gd.Body, func(n ast.Node) bool {
			switch s := n.(type) {
			case *ast.ForStmt:
				if be, ok := s.Cond.(*ast.BinaryExpr); ok && be.Op == token.LSS && f.Src(be.X) == "i" {
					if bl, ok := be.Y.(*ast.BasicLit); ok {
						tries = bl.Value
					}
				}
				if as, ok := s.Init.(*ast.AssignStmt); !ok || f.Src(as) != "i := 0" {
					tries = ""
				}
				if inc, ok := s.Post.(*ast.IncDecStmt); !ok || inc.Tok != token.INC {
					tries = ""
				}
			case *ast.IfStmt:
				c := f.Src(s.Cond)
				if strings.HasPrefix(c, "len(dataWithHash) <") || strings.HasPrefix(c, "len(dataWithHash) >") {
					minCond = c
				}
				if strings.HasPrefix(c, "len(dataWithHash)-i") {
					endCond = c
				}
				if strings.Contains(c, "Equal") || strings.Contains(c, "==") {
					cmpSrc = c
				}
			case *ast.AssignStmt:
				if len(s.Lhs) == 1 && len(s.Rhs) == 1 {
					switch f.Src(s.Lhs[0]) {
					case "v":
						vSrc = f.Src(s.Rhs[0])
					case "data":
						dataSrc = f.Src(s.Rhs[0])
					case "h":
						hSrc = f.Src(s.Rhs[0])
					}
				}
			}
			return true
		})
	}
	if tries != "" {
		f.Raw("def guessTries : Nat := " + tries + " -- crypto.GuessDataWithHash: for i := 0; i < N; i++")
	} else {
		f.Missing("guessTries", "crypto.GuessDataWithHash loop")
	}
	// the same conditions and slice bounds as Lean definitions the model evaluates
	tr := func(src string) (string, bool) {
		t := strings.NewReplacer("len(dataWithHash)", "len", "sha1.Size", "20", "<=", "≤", ">=", "≥", "-", " - ").Replace(src)
		for _, ch := range t {
			if !(ch == ' ' || ch == '-' || ch == '+' || ch == '<' || ch == '>' || ch == '≤' || ch == '≥' || (ch >= '0' && ch <= '9') || ch == 'l' || ch == 'e' || ch == 'n' || ch == 'i') {
				return "", false
			}
		}
		return t, true
	}
	emitted := false
	if a, ok1 := tr(minCond); ok1 && minCond != "" {
		if b, ok2 := tr(endCond); ok2 && endCond != "" {
			// v := dataWithHash[:H]; data := dataWithHash[LO : HI]
			var hSl, lo, hi string
			okS := false
			if strings.HasPrefix(vSrc, "dataWithHash[:") && strings.HasSuffix(vSrc, "]") {
				hSl = strings.TrimSuffix(strings.TrimPrefix(vSrc, "dataWithHash[:"), "]")
				if strings.HasPrefix(dataSrc, "dataWithHash[") && strings.HasSuffix(dataSrc, "]") {
					parts := strings.SplitN(strings.TrimSuffix(strings.TrimPrefix(dataSrc, "dataWithHash["), "]"), ":", 2)
					if len(parts) == 2 {
						lo, hi = strings.TrimSpace(parts[0]), strings.TrimSpace(parts[1])
						okS = true
					}
				}
			}
			h2, o1 := tr(hSl)
			lo2, o2 := tr(lo)
			hi2, o3 := tr(hi)
			if okS && o1 && o2 && o3 {
				f.Raw("def guessTooShort (len : Nat) : Bool := decide (" + a + ") -- " + minCond)
				f.Raw("def guessEnd (len i : Nat) : Bool := decide (" + b + ") -- " + endCond)
				f.Raw("def guessHashLen : Nat := " + h2 + " -- " + vSrc)
				f.Raw("def guessDataLo : Nat := " + lo2 + " -- " + dataSrc)
				f.Raw("def guessDataHi (len i : Nat) : Nat := " + hi2 + " -- " + dataSrc)
				emitted = true
			}
		}
	}
	if !emitted {
		f.Missing("guessTooShort", "crypto.GuessDataWithHash: conditions / slices of unexpected shape")
	}
	// DecryptExchangeAnswer / EncryptExchangeAnswer: statement order (cipher error, alignment, IGE)
	dsrc := f.FuncSrc("crypto", "DecryptExchangeAnswer")
	i1, i2, i3 := strings.Index(dsrc, "aes.NewCipher(key)"), strings.Index(dsrc, alignSrc), strings.Index(dsrc, "ige.DecryptBlocks(cipher, iv, dataWithHash, data)")
	f.Bool("decryptOrderOK", alignSrc != "" && i1 >= 0 && i1 < i2 && i2 < i3, "DecryptExchangeAnswer: NewCipher error, then alignment error, then ige.DecryptBlocks(cipher, iv, dataWithHash, data)")
	esrc := f.FuncSrc("crypto", "EncryptExchangeAnswer")
	j1, j2, j3 := strings.Index(esrc, "aes.NewCipher(key)"), strings.Index(esrc, "DataWithHash(answer, rand)"), strings.Index(esrc, "ige.EncryptBlocks(cipher, iv, dst, answerWithHash)")
	f.Bool("encryptOrderOK", j1 >= 0 && j1 < j2 && j2 < j3, "EncryptExchangeAnswer: NewCipher error, then DataWithHash, then ige.EncryptBlocks(cipher, iv, dst, answerWithHash)")
	// DataWithHash: make(paddedLen16(len(data)+sha1.Size)); copy hash; copy data at sha1.Size; random tail
	wsrc := f.FuncSrc("crypto", "DataWithHash")
	f.Bool("dataWithHashShape", strings.Contains(wsrc, "dataWithHash := make([]byte, paddedLen16(len(data)+sha1.Size))") &&
		strings.Contains(wsrc, "h := sha1.Sum(data)") && strings.Contains(wsrc, "copy(dataWithHash, h[:])") &&
		strings.Contains(wsrc, "copy(dataWithHash[sha1.Size:], data)") &&
		strings.Contains(wsrc, "io.ReadFull(randomSource, dataWithHash[sha1.Size+len(data):])"),
		"DataWithHash: SHA1(data) ++ data ++ random up to paddedLen16(len(data)+20)")
	f.Str("guessMinCond", minCond, "crypto.GuessDataWithHash: too-short test")
	f.Str("guessEndCond", endCond, "crypto.GuessDataWithHash: end-of-slice test inside the loop")
	f.Str("guessHashSlice", vSrc, "crypto.GuessDataWithHash: v")
	f.Str("guessDataSlice", dataSrc, "crypto.GuessDataWithHash: data")
	f.Str("guessHashOf", hSrc, "crypto.GuessDataWithHash: h")
	f.Str("guessCompare", cmpSrc, "crypto.GuessDataWithHash: acceptance condition")
}
