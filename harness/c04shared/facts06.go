// Package c04shared holds what the crypto property harnesses C04, C05, C06 and C11 have in common:
// the fact extractors (the Lean models of C04/C05/C11 import the model of C06, so each of those
// checks regenerates the sibling fact files as well) and a few generators.
package c04shared

import (
	"fmt"
	"go/ast"
	"go/token"
	"os"
	"path/filepath"
	"regexp"
	"strings"

	"verif/harness/hc"
)

// RefreshSiblings rewrites Gen/<prop>.lean files of the properties whose models this property's
// model imports.  The output directory is taken from the `-out` argument of the running `facts`
// sub-command, so that `./check C05` after a change of e.g. crypto/keys.go sees the new facts
// of C06 and C04 too.
func RefreshSiblings(f *hc.Facts, sibs map[string]func(*hc.Facts)) {
	out := ""
	for i, a := range os.Args {
		if a == "-out" && i+1 < len(os.Args) {
			out = os.Args[i+1]
		}
		if strings.HasPrefix(a, "-out=") {
			out = strings.TrimPrefix(a, "-out=")
		}
	}
	if out == "" {
		return
	}
	dir := filepath.Dir(out)
	for prop, fn := range sibs {
		g := hc.NewFacts(prop, f.Repo)
		fn(g)
		if err := g.Write(filepath.Join(dir, prop+".lean")); err != nil {
			f.Missing("sibling_"+prop, err.Error())
		}
	}
}

var exprOK = regexp.MustCompile(`^[0-9x+ ]+$`)

// leanExpr renders a Go slice bound (sums of integer literals and the variable x) as Lean text.
func leanExpr(f *hc.Facts, e ast.Expr, dflt string) (string, bool) {
	if e == nil {
		return dflt, dflt != ""
	}
	s := strings.TrimSpace(f.Src(e))
	if s == "sha1.Size" {
		return "20", true
	}
	if !exprOK.MatchString(s) {
		return s, false
	}
	return "(" + s + ")", true
}

// srcKind maps the Go identifiers hashed by the KDF helpers to the model's input names.
func srcKind(name string) (string, bool) {
	switch name {
	case "authKey":
		return ".authKey", true
	case "msgKey":
		return ".msgKey", true
	case "plaintextPadded", "plaintext":
		return ".plain", true
	}
	return "", false
}

// hashWrites emits, for a helper of the shape `h := shaN.New(); h.Write(..)…; return h.Sum(r)`,
// the hash used and the ordered list of written slices, as a function of x.
func hashWrites(f *hc.Facts, lean, dir, fn string) {
	fd := f.FuncDecl(dir, fn)
	if fd == nil || fd.Body == nil {
		f.Missing(lean+"_writes", dir+"."+fn+" not found")
		return
	}
	hash := ""
	var ws []string
	ok := true
	// fail closed: the body may consist only of `h := shaN.New()`, `x := getX(mode)`, `_, _ = h.Write(…)`
	// and `return h.Sum(r)` — an added fast path or branch makes the fact missing
	for _, st := range fd.Body.List {
		src := f.Src(st)
		switch {
		case src == "h := sha256.New()" || src == "h := sha1.New()" || src == "x := getX(mode)" || src == "return h.Sum(r)":
		case strings.HasPrefix(src, "_, _ = h.Write("):
		default:
			ok = false
		}
	}
	ast.Inspect(fd.Body, func(n ast.Node) bool {
		ce, isCall := n.(*ast.CallExpr)
		if !isCall {
			return true
		}
		sel, isSel := ce.Fun.(*ast.SelectorExpr)
		if !isSel {
			return true
		}
		if id, isID := sel.X.(*ast.Ident); isID && sel.Sel.Name == "New" && (id.Name == "sha256" || id.Name == "sha1") {
			hash = id.Name
		}
		if sel.Sel.Name != "Write" || len(ce.Args) != 1 {
			return true
		}
		switch a := ce.Args[0].(type) {
		case *ast.Ident:
			k, o := srcKind(a.Name)
			ok = ok && o
			ws = append(ws, fmt.Sprintf("⟨%s, 0, none⟩", k))
		case *ast.SliceExpr:
			id, isID := a.X.(*ast.Ident)
			if !isID {
				ok = false
				return true
			}
			k, o := srcKind(id.Name)
			lo, o1 := leanExpr(f, a.Low, "0")
			hi := "none"
			if a.High != nil {
				h, o2 := leanExpr(f, a.High, "")
				ok = ok && o2
				hi = "some " + h
			}
			ok = ok && o && o1
			ws = append(ws, fmt.Sprintf("⟨%s, %s, %s⟩", k, lo, hi))
		default:
			ok = false
		}
		return true
	})
	if !ok || hash == "" || len(ws) == 0 {
		f.Missing(lean+"_writes", dir+"."+fn+": unsupported shape")
		return
	}
	f.Raw(fmt.Sprintf("def %s_hash : Hash := .%s -- %s.%s", lean, hash, dir, fn))
	f.Raw(fmt.Sprintf("def %s_writes (x : Nat) : List W := [%s] -- %s.%s", lean, strings.Join(ws, ", "), dir, fn))
}

// letterIdx maps the hash-value identifiers (a, b, c, d, sha1a, sha256b, …) to 0..3.
func letterIdx(name string) (int, bool) {
	if name == "" {
		return 0, false
	}
	c := name[len(name)-1]
	if c < 'a' || c > 'd' {
		return 0, false
	}
	return int(c - 'a'), true
}

// copies emits the ordered `copy(dst[lo:], src[a:b])` calls on destination variable dst inside
// node body.  A destination offset that is the running counter `n` is emitted as `none`;
// upd: 0 = result of copy unused, 1 = `n := copy`/`n = copy`, 2 = `n += copy`.
func copies(f *hc.Facts, lean string, body ast.Node, dst string, where string) {
	var out []string
	ok := body != nil
	if body != nil {
		ast.Inspect(body, func(n ast.Node) bool {
			upd := 0
			var ce *ast.CallExpr
			switch s := n.(type) {
			case *ast.AssignStmt:
				if len(s.Rhs) == 1 {
					if c, isCall := s.Rhs[0].(*ast.CallExpr); isCall {
						if id, isID := c.Fun.(*ast.Ident); isID && id.Name == "copy" {
							ce = c
							upd = 1
							if s.Tok == token.ADD_ASSIGN {
								upd = 2
							}
						}
					}
				}
			case *ast.ExprStmt:
				if c, isCall := s.X.(*ast.CallExpr); isCall {
					if id, isID := c.Fun.(*ast.Ident); isID && id.Name == "copy" {
						ce = c
					}
				}
			}
			if ce == nil || len(ce.Args) != 2 {
				return true
			}
			d, isSl := ce.Args[0].(*ast.SliceExpr)
			if !isSl {
				return true
			}
			did, isID := d.X.(*ast.Ident)
			if !isID || did.Name != dst {
				return true
			}
			dlo := "some 0"
			if d.Low != nil {
				if id, isID := d.Low.(*ast.Ident); isID && id.Name == "n" {
					dlo = "none"
				} else {
					s, o := leanExpr(f, d.Low, "")
					ok = ok && o
					dlo = "some " + s
				}
			}
			dhi := "none"
			if d.High != nil {
				s, o := leanExpr(f, d.High, "")
				ok = ok && o
				dhi = "some " + s
			}
			s, isSl := ce.Args[1].(*ast.SliceExpr)
			if !isSl {
				ok = false
				return false
			}
			sid, isID := s.X.(*ast.Ident)
			if !isID {
				ok = false
				return false
			}
			idx, o := letterIdx(sid.Name)
			lo, o1 := leanExpr(f, s.Low, "0")
			hi, o2 := leanExpr(f, s.High, "")
			ok = ok && o && o1 && o2
			out = append(out, fmt.Sprintf("⟨%s, %s, %d, %s, %s, %d⟩", dlo, dhi, idx, lo, hi, upd))
			return false
		})
	}
	if !ok || len(out) == 0 {
		f.Missing(lean, where+": unsupported shape")
		return
	}
	f.Raw(fmt.Sprintf("def %s : List Cp := [%s] -- %s", lean, strings.Join(out, ", "), where))
}

// closure finds `name := func(...) {...}` inside fd.
func closure(fd *ast.FuncDecl, name string) ast.Node {
	var res ast.Node
	if fd == nil || fd.Body == nil {
		return nil
	}
	ast.Inspect(fd.Body, func(n ast.Node) bool {
		as, isAs := n.(*ast.AssignStmt)
		if !isAs || len(as.Lhs) != 1 || len(as.Rhs) != 1 {
			return true
		}
		id, isID := as.Lhs[0].(*ast.Ident)
		fl, isFn := as.Rhs[0].(*ast.FuncLit)
		if isID && isFn && id.Name == name {
			res = fl.Body
			return false
		}
		return true
	})
	return res
}

// firstSlice emits the bounds of the first slice expression on identifier `of` in dir.fn.
func firstSlice(f *hc.Facts, lean, dir, fn, of string) {
	fd := f.FuncDecl(dir, fn)
	found := false
	if fd != nil && fd.Body != nil {
		ast.Inspect(fd.Body, func(n ast.Node) bool {
			if found {
				return false
			}
			s, isSl := n.(*ast.SliceExpr)
			if !isSl {
				return true
			}
			id, isID := s.X.(*ast.Ident)
			if !isID || id.Name != of || s.High == nil {
				return true
			}
			lo, o1 := leanExpr(f, s.Low, "0")
			hi, o2 := leanExpr(f, s.High, "")
			if o1 && o2 {
				found = true
				f.Raw(fmt.Sprintf("def %s_lo : Nat := %s -- %s.%s", lean, lo, dir, fn))
				f.Raw(fmt.Sprintf("def %s_hi : Nat := %s -- %s.%s", lean, hi, dir, fn))
			}
			return false
		})
	}
	if !found {
		f.Missing(lean+"_lo", dir+"."+fn+": slice of "+of+" not found")
	}
}

// callArgs emits the identifier arguments of the first call of `callee` inside dir.fn as the
// letter indices (a=0, b=1, …) — used for aesIV, which is aesKey with swapped hashes, and for the
// x argument of the sha1* calls in KeysV1.
func callArgIdx(f *hc.Facts, dir, fn, callee string, upto int) ([]int, bool) {
	fd := f.FuncDecl(dir, fn)
	var res []int
	ok := false
	if fd != nil && fd.Body != nil {
		ast.Inspect(fd.Body, func(n ast.Node) bool {
			if ok {
				return false
			}
			ce, isCall := n.(*ast.CallExpr)
			if !isCall {
				return true
			}
			id, isID := ce.Fun.(*ast.Ident)
			if !isID || id.Name != callee || len(ce.Args) < upto {
				return true
			}
			for _, a := range ce.Args[:upto] {
				aid, isID := a.(*ast.Ident)
				if !isID {
					return true
				}
				i, o := letterIdx(aid.Name)
				if !o {
					return true
				}
				res = append(res, i)
			}
			ok = true
			return false
		})
	}
	return res, ok
}

// FactsC06 regenerates the key-derivation tables of crypto/keys.go, keys_old.go, kdf_v1.go.
func FactsC06(f *hc.Facts) {
	f.Raw("inductive Src where | authKey | msgKey | plain deriving DecidableEq, Repr")
	f.Raw("inductive Hash where | sha1 | sha256 deriving DecidableEq, Repr")
	f.Raw("/-- one `h.Write(src[lo:hi])`; `hi = none` is the end of the source -/")
	f.Raw("structure W where (src : Src) (lo : Nat) (hi : Option Nat) deriving DecidableEq, Repr")
	f.Raw("/-- one `copy(dst[dlo:dhi], hashes[src][lo:hi])`; `dlo = none` is the running counter `n`; upd 0/1/2 = result unused / `n =` / `n +=` -/")
	f.Raw("structure Cp where (dlo : Option Nat) (dhi : Option Nat) (src : Nat) (lo : Nat) (hi : Nat) (upd : Nat) deriving DecidableEq, Repr")
	f.Const("sideClient", "crypto", "Client")
	f.Const("sideServer", "crypto", "Server")
	// getX: switch mode { case Client: return 0; case Server: return 8; default: return 0 }
	xs := map[string]string{}
	if fd := f.FuncDecl("crypto", "getX"); fd != nil && fd.Body != nil {
		ast.Inspect(fd.Body, func(n ast.Node) bool {
			cc, isCC := n.(*ast.CaseClause)
			if !isCC || len(cc.Body) != 1 {
				return true
			}
			ret, isRet := cc.Body[0].(*ast.ReturnStmt)
			if !isRet || len(ret.Results) != 1 {
				return true
			}
			name := "default"
			if len(cc.List) == 1 {
				name = f.Src(cc.List[0])
			}
			xs[name] = f.Src(ret.Results[0])
			return true
		})
	}
	for _, p := range [][2]string{{"xClient", "Client"}, {"xServer", "Server"}} {
		if v, ok := xs[p[1]]; ok && exprOK.MatchString(v) {
			f.Raw(fmt.Sprintf("def %s : Nat := %s -- crypto.getX case %s", p[0], v, p[1]))
		} else {
			f.Missing(p[0], "crypto.getX case "+p[1])
		}
	}
	f.TranslateFuncs("crypto", "getX", "getX")
	hashWrites(f, "msgKeyLarge", "crypto", "msgKeyLarge")
	firstSlice(f, "messageKey", "crypto", "messageKey", "messageKeyLarge")
	hashWrites(f, "sha256a", "crypto", "sha256a")
	hashWrites(f, "sha256b", "crypto", "sha256b")
	if fd := f.FuncDecl("crypto", "aesKey"); fd != nil {
		copies(f, "aesKey_copies", fd.Body, "v", "crypto.aesKey")
	} else {
		f.Missing("aesKey_copies", "crypto.aesKey not found")
	}
	// Keys: aesKey(a, b, &key); aesIV(a, b, &iv); aesIV(x, y, v) = aesKey(y, x, v)
	for _, c := range [][3]string{{"keys_aesKey_args", "Keys", "aesKey"}, {"keys_aesIV_args", "Keys", "aesIV"}, {"aesIV_aesKey_args", "aesIV", "aesKey"}} {
		if ix, ok := callArgIdx(f, "crypto", c[1], c[2], 2); ok {
			f.Raw(fmt.Sprintf("def %s : Nat × Nat := (%d, %d) -- crypto.%s calls %s", c[0], ix[0], ix[1], c[1], c[2]))
		} else {
			f.Missing(c[0], "crypto."+c[1]+": call of "+c[2]+" not found")
		}
	}
	// MTProto 1.0
	firstSlice(f, "messageKeyV1", "crypto", "MessageKeyV1", "sum")
	for _, l := range []string{"a", "b", "c", "d"} {
		hashWrites(f, "sha1"+l, "crypto", "sha1"+l)
	}
	if fd := f.FuncDecl("crypto", "KeysV1"); fd != nil {
		copies(f, "keysV1_key_copies", fd.Body, "key", "crypto.KeysV1")
		copies(f, "keysV1_iv_copies", fd.Body, "iv", "crypto.KeysV1")
		// x passed to sha1a..d must be the literal 0
		zero := true
		cnt := 0
		ast.Inspect(fd.Body, func(n ast.Node) bool {
			ce, isCall := n.(*ast.CallExpr)
			if !isCall {
				return true
			}
			id, isID := ce.Fun.(*ast.Ident)
			if !isID || !strings.HasPrefix(id.Name, "sha1") || len(ce.Args) != 4 {
				return true
			}
			cnt++
			if f.Src(ce.Args[3]) != "0" {
				zero = false
			}
			return true
		})
		if cnt == 4 && zero {
			f.Raw("def keysV1_x : Nat := 0 -- crypto.KeysV1 passes x = 0 to sha1a..sha1d")
		} else {
			f.Missing("keysV1_x", "crypto.KeysV1: x argument of sha1a..d")
		}
	} else {
		f.Missing("keysV1_key_copies", "crypto.KeysV1 not found")
	}
	f.Const("bindInnerTypeID", "crypto", "BindAuthKeyInnerTypeID")
	FactsC06Bind(f)
	// whole bodies of the small composing functions, statement by statement (pinned in Props): which
	// arguments reach the hash helpers and in which order the pieces are assembled
	for _, fn := range [][2]string{{"keysBody", "Keys"}, {"messageKeyBody", "MessageKey"}, {"aesIVBody", "aesIV"}, {"aesKeyBody", "aesKey"},
		{"keysV1Body", "KeysV1"}, {"messageKeyV1Body", "MessageKeyV1"}, {"messageKeyFnBody", "messageKey"}} {
		fd := f.FuncDecl("crypto", fn[1])
		var sts []string
		if fd != nil && fd.Body != nil {
			for _, st := range fd.Body.List {
				sts = append(sts, squash(f.Src(st)))
			}
		}
		f.Raw("def " + fn[0] + " : List String := " + strList(sts) + " -- crypto." + fn[1])
	}
	old := f.FuncDecl("crypto", "OldKeys")
	copies(f, "oldKeys_key_copies", closure(old, "aesKey"), "v", "crypto.OldKeys aesKey closure")
	copies(f, "oldKeys_iv_copies", closure(old, "aesIV"), "v", "crypto.OldKeys aesIV closure")
}
