package c04shared

import (
	"fmt"
	"go/ast"
	"go/token"
	"strings"

	"verif/harness/hc"
)

// Structured layouts of EncryptedMessageData / EncryptedMessage, regenerated from the source and
// INTERPRETED by the Lean model (TdModel.C04.encodeWith / decodeFields / frame lengths).

var putWidth = map[string]string{"PutLong": ".u64", "PutInt32": ".u32", "PutInt": ".u32", "PutUint32": ".u32", "Put": ".raw"}
var getWidth = map[string]string{"Long": ".u64", "Int32": ".u32", "Int": ".u32", "Uint32": ".u32"}
var dataField = map[string]string{"Salt": ".salt", "SessionID": ".sid", "MessageID": ".mid", "SeqNo": ".seq",
	"MessageDataLen": ".len", "MessageDataWithPadding": ".body", "Message": ".body"}

// recvCall matches `recv.Method(arg)` and returns method and the argument expression.
func recvCall(e ast.Expr, recv string) (string, ast.Expr, bool) {
	ce, ok := e.(*ast.CallExpr)
	if !ok || len(ce.Args) != 1 {
		return "", nil, false
	}
	sel, ok := ce.Fun.(*ast.SelectorExpr)
	if !ok {
		return "", nil, false
	}
	id, ok := sel.X.(*ast.Ident)
	if !ok || id.Name != recv {
		return "", nil, false
	}
	return sel.Sel.Name, ce.Args[0], true
}

// fieldOf matches `e.Field` (receiver e) and maps the field.
func fieldOf(f *hc.Facts, e ast.Expr) (string, bool) {
	sel, ok := e.(*ast.SelectorExpr)
	if !ok {
		return "", false
	}
	if id, ok := sel.X.(*ast.Ident); !ok || id.Name != "e" {
		return "", false
	}
	v, ok := dataField[sel.Sel.Name]
	return v, ok
}

func putsOfEncode(f *hc.Facts) (string, bool) {
	fd := f.FuncDecl("crypto", "EncryptedMessageData.Encode")
	if fd == nil || fd.Body == nil {
		return "", false
	}
	var out []string
	for _, st := range fd.Body.List {
		switch s := st.(type) {
		case *ast.ExprStmt:
			m, arg, ok := recvCall(s.X, "b")
			w, okw := putWidth[m]
			fl, okf := fieldOf(f, arg)
			if !ok || !okw || !okf || (w == ".raw") != (fl == ".body") {
				return "", false
			}
			out = append(out, fmt.Sprintf("⟨%s, %s⟩", w, fl))
		case *ast.ReturnStmt:
			if len(s.Results) != 1 || f.Src(s.Results[0]) != "nil" {
				return "", false
			}
		default:
			return "", false
		}
	}
	return "[" + strings.Join(out, ", ") + "]", len(out) > 0
}

// putsOfEncodeWithoutCopy: header puts, a 4-byte placeholder for the length that is patched with the
// encoded size of Message afterwards, then the encoded Message.
func putsOfEncodeWithoutCopy(f *hc.Facts) (string, bool) {
	fd := f.FuncDecl("crypto", "EncryptedMessageData.EncodeWithoutCopy")
	if fd == nil || fd.Body == nil || len(fd.Body.List) < 4 {
		return "", false
	}
	stmts := fd.Body.List
	// if e.Message == nil { return e.Encode(b) }
	if ifs, ok := stmts[0].(*ast.IfStmt); !ok || f.Src(ifs.Cond) != "e.Message == nil" || len(ifs.Body.List) != 1 ||
		f.Src(ifs.Body.List[0]) != "return e.Encode(b)" {
		return "", false
	}
	var out []string
	placeholder, body, patched := false, false, false
	for i := 1; i < len(stmts); i++ {
		src := f.Src(stmts[i])
		switch s := stmts[i].(type) {
		case *ast.ExprStmt:
			if src == "(&bin.Buffer{Buf: b.Buf[lengthOffset:lengthOffset]}).PutInt(msgLen)" {
				patched = placeholder && body
				continue
			}
			m, arg, ok := recvCall(s.X, "b")
			w, okw := putWidth[m]
			if !ok || !okw || body {
				return "", false
			}
			if f.Src(arg) == "0" { // the placeholder: must directly follow `lengthOffset := b.Len()`
				if w != ".u32" || placeholder || f.Src(stmts[i-1]) != "lengthOffset := b.Len()" {
					return "", false
				}
				placeholder = true
				out = append(out, "⟨.u32, .len⟩")
				continue
			}
			fl, okf := fieldOf(f, arg)
			if !okf || w == ".raw" || placeholder {
				return "", false
			}
			out = append(out, fmt.Sprintf("⟨%s, %s⟩", w, fl))
		case *ast.AssignStmt:
			if src != "lengthOffset := b.Len()" && src != "originalLength := b.Len()" && src != "msgLen := b.Len() - originalLength" {
				return "", false
			}
		case *ast.IfStmt:
			if s.Init == nil || f.Src(s.Init) != "err := b.Encode(e.Message)" || !placeholder || body ||
				f.Src(stmts[i-1]) != "originalLength := b.Len()" {
				return "", false
			}
			body = true
			out = append(out, "⟨.raw, .body⟩")
		case *ast.ReturnStmt:
		default:
			return "", false
		}
	}
	return "[" + strings.Join(out, ", ") + "]", patched
}

// getsOfDecode: the `{ v, err := b.X(); if err != nil { return err }; e.F = v }` blocks, then
// `e.MessageDataWithPadding = b.Buf` and the length test.
func getsOfDecode(f *hc.Facts, fn string) (string, string, bool) {
	fd := f.FuncDecl("crypto", fn)
	if fd == nil || fd.Body == nil {
		return "", "", false
	}
	var out []string
	tail := false
	cond := ""
	for _, st := range fd.Body.List {
		switch s := st.(type) {
		case *ast.BlockStmt:
			if tail || len(s.List) != 3 {
				return "", "", false
			}
			as, ok := s.List[0].(*ast.AssignStmt)
			if !ok || len(as.Rhs) != 1 || len(as.Lhs) != 2 || f.Src(as.Lhs[0]) != "v" {
				return "", "", false
			}
			ce, ok := as.Rhs[0].(*ast.CallExpr)
			if !ok || len(ce.Args) != 0 {
				return "", "", false
			}
			sel, ok := ce.Fun.(*ast.SelectorExpr)
			if !ok || f.Src(sel.X) != "b" {
				return "", "", false
			}
			w, okw := getWidth[sel.Sel.Name]
			if ifs, ok := s.List[1].(*ast.IfStmt); !ok || f.Src(ifs.Cond) != "err != nil" {
				return "", "", false
			}
			set, ok := s.List[2].(*ast.AssignStmt)
			if !ok || set.Tok != token.ASSIGN || len(set.Lhs) != 1 || f.Src(set.Rhs[0]) != "v" {
				return "", "", false
			}
			fl, okf := fieldOf(f, set.Lhs[0])
			if !okw || !okf || fl == ".body" {
				return "", "", false
			}
			out = append(out, fmt.Sprintf("⟨%s, %s⟩", w, fl))
		case *ast.AssignStmt:
			if src := f.Src(s); src != "e.MessageDataWithPadding = b.Buf" && src != "e.MessageDataWithPadding = append(e.MessageDataWithPadding[:0], b.Buf...)" {
				return "", "", false
			}
			tail = true
		case *ast.IfStmt:
			if !tail {
				return "", "", false
			}
			cond = f.Src(s.Cond)
		case *ast.ReturnStmt:
		default:
			return "", "", false
		}
	}
	return "[" + strings.Join(out, ", ") + "]", cond, tail && len(out) > 0
}

// FactsC04Layout emits the structured layout facts.
func FactsC04Layout(f *hc.Facts) {
	f.Raw("inductive Width where | u32 | u64 | raw deriving DecidableEq, Repr")
	f.Raw("inductive Fld where | salt | sid | mid | seq | len | body deriving DecidableEq, Repr")
	f.Raw("/-- one `b.PutX(e.F)` / `v := b.X(); e.F = v` -/")
	f.Raw("structure Put where (w : Width) (f : Fld) deriving DecidableEq, Repr")
	if s, ok := putsOfEncode(f); ok {
		f.Raw("def dataEncode : List Put := " + s + " -- EncryptedMessageData.Encode")
	} else {
		f.Missing("dataEncode", "EncryptedMessageData.Encode: not a plain sequence of b.PutX(e.Field)")
	}
	if s, ok := putsOfEncodeWithoutCopy(f); ok {
		f.Raw("def dataEncodeNoCopy : List Put := " + s + " -- EncryptedMessageData.EncodeWithoutCopy (Message != nil): the 4-byte placeholder is patched with the encoded size of Message")
	} else {
		f.Missing("dataEncodeNoCopy", "EncryptedMessageData.EncodeWithoutCopy: unexpected shape")
	}
	s, cond, ok := getsOfDecode(f, "EncryptedMessageData.DecodeWithoutCopy")
	if ok {
		f.Raw("def dataDecode : List Put := " + s + " -- EncryptedMessageData.DecodeWithoutCopy, then MessageDataWithPadding = the rest")
		f.Bool("dataLenChecked", cond == "int(e.MessageDataLen) > len(e.MessageDataWithPadding)", "DecodeWithoutCopy rejects MessageDataLen > len(rest): "+cond)
	} else {
		f.Missing("dataDecode", "EncryptedMessageData.DecodeWithoutCopy: unexpected shape")
	}
	s2, cond2, ok2 := getsOfDecode(f, "EncryptedMessageData.Decode")
	// Decode copies the rest (`append(e.MessageDataWithPadding[:0], b.Buf...)`): same reads expected
	if ok2 {
		f.Raw("def dataDecodeCopy : List Put := " + s2 + " -- EncryptedMessageData.Decode (copying), then MessageDataWithPadding = copy of the rest")
		f.Bool("dataLenCheckedCopy", cond2 == "int(e.MessageDataLen) > len(e.MessageDataWithPadding)", "Decode rejects MessageDataLen > len(rest): "+cond2)
	} else {
		f.Missing("dataDecodeCopy", "EncryptedMessageData.Decode: unexpected shape")
	}
	// EncryptedMessage framing
	kid, mk := 0, 0
	okF := false
	if fd := f.FuncDecl("crypto", "EncryptedMessage.DecodeWithoutCopy"); fd != nil && fd.Body != nil && len(fd.Body.List) == 4 {
		l := fd.Body.List
		s0, s1, s2, s3 := f.Src(l[0]), f.Src(l[1]), f.Src(l[2]), f.Src(l[3])
		if _, err := fmt.Sscanf(s0, "if err := b.ConsumeN(e.AuthKeyID[:], %d); err != nil {", &kid); err == nil &&
			strings.Contains(s1, "v, err := b.Int128()") && strings.Contains(s1, "e.MsgKey = v") &&
			s2 == "e.EncryptedData = b.Buf" && s3 == "return nil" {
			mk = 16
			okF = true
		}
	}
	enc := callSeq(f, "crypto", "EncryptedMessage.Encode", "b")
	if okF && strings.Join(enc, ";") == "Put AuthKeyID[:];PutInt128 MsgKey;Put EncryptedData" {
		f.Nat("frameKeyIdLen", kid, "EncryptedMessage: auth_key_id bytes (ConsumeN / Put AuthKeyID[:])")
		f.Nat("frameMsgKeyLen", mk, "EncryptedMessage: msg_key bytes (Int128 / PutInt128)")
	} else {
		f.Missing("frameKeyIdLen", "EncryptedMessage.Encode/DecodeWithoutCopy: unexpected framing")
	}
}

// FactsC04Msg regenerates the payload-encoder selection of mtproto.Conn.newEncryptedMessage (the
// compression-threshold path) and the framing of proto.GZIP.
func FactsC04Msg(f *hc.Facts) {
	f.Const("gzipTypeID", "proto", "GZIPTypeID")
	fd := f.FuncDecl("mtproto", "Conn.newEncryptedMessage")
	var outer *ast.IfStmt
	if fd != nil && fd.Body != nil {
		for _, st := range fd.Body.List {
			if s, ok := st.(*ast.IfStmt); ok && outer == nil && strings.Contains(f.Src(s.Cond), "compressThreshold") {
				outer = s
			}
		}
	}
	tr := func(src string) (string, bool) {
		t := strings.NewReplacer("c.compressThreshold", "t", "payloadBuf.Len()", "len", "<=", "≤", ">=", "≥").Replace(src)
		for _, ch := range t {
			if !strings.ContainsRune(" <>≤≥0123456789tlen=", ch) {
				return "", false
			}
		}
		return t, true
	}
	ok := false
	if outer != nil {
		if els, isBlk := outer.Else.(*ast.BlockStmt); isBlk {
			var inner *ast.IfStmt
			for _, st := range els.List {
				if s, isIf := st.(*ast.IfStmt); isIf && strings.Contains(f.Src(s.Cond), "compressThreshold") {
					inner = s
				}
			}
			if inner != nil {
				a, o1 := tr(f.Src(outer.Cond))
				b, o2 := tr(f.Src(inner.Cond))
				thenSrc, gzSrc := squash(f.Src(outer.Body)), squash(f.Src(inner.Body))
				rawSrc := ""
				if inner.Else != nil {
					rawSrc = squash(f.Src(inner.Else))
				}
				shape := strings.Contains(thenSrc, "Message: payload,") && !strings.Contains(thenSrc, "GZIP") &&
					strings.Contains(gzSrc, "Message: proto.GZIP{Data: payloadBuf.Raw()},") &&
					strings.Contains(rawSrc, "MessageDataLen: int32(payloadBuf.Len()),") &&
					strings.Contains(rawSrc, "MessageDataWithPadding: payloadBuf.Buf,") &&
					strings.Contains(f.Src(els), "payload.Encode(payloadBuf)") &&
					strings.Contains(f.Src(fd.Body), "c.cipher.Encrypt(s.Key, d, b)")
				if o1 && o2 && shape {
					f.Raw("def threshDisabled (t : Int) : Bool := decide (" + a + ") -- " + f.Src(outer.Cond) + ": Message = payload")
					f.Raw("def threshCompress (len t : Int) : Bool := decide (" + b + ") -- " + f.Src(inner.Cond) + ": Message = proto.GZIP{payload}, else raw bytes with MessageDataLen")
					ok = true
				}
			}
		}
	}
	if !ok {
		f.Missing("threshDisabled", "mtproto.Conn.newEncryptedMessage: unexpected shape")
	}
	// Options.setDefaults: CompressThreshold 0 -> default
	osrc := f.FuncSrc("mtproto", "Options.setDefaults")
	def := 0
	if i := strings.Index(osrc, "if opt.CompressThreshold == 0 {\n\t\topt.CompressThreshold = "); i >= 0 {
		fmt.Sscanf(osrc[i+len("if opt.CompressThreshold == 0 {\n\t\topt.CompressThreshold = "):], "%d", &def)
	}
	if def > 0 {
		f.Nat("defaultThreshold", def, "mtproto.Options.setDefaults: CompressThreshold == 0 means this value")
	} else {
		f.Missing("defaultThreshold", "mtproto.Options.setDefaults: CompressThreshold default")
	}
	enc := callSeq(f, "proto", "GZIP.Encode", "b")
	dec := callSeq(f, "proto", "GZIP.Decode", "b")
	f.Bool("gzipFraming", strings.Join(enc, ";") == "PutID GZIPTypeID;PutBytes Bytes()" && strings.Join(dec, ";") == "ConsumeID GZIPTypeID;Bytes",
		"proto.GZIP: PutID(GZIPTypeID) PutBytes(compressed) / ConsumeID(GZIPTypeID) Bytes(): "+strings.Join(enc, ";")+" / "+strings.Join(dec, ";"))
}

// squash collapses runs of blanks and tabs (struct-literal alignment) into one space.
func squash(s string) string { return strings.Join(strings.Fields(s), " ") }

// orderOf returns the given markers sorted by their first position in the (blank-squashed) source of
// dir.fn; a marker that does not occur is reported as "MISSING:<marker>".
func orderOf(f *hc.Facts, dir, fn string, markers map[string]string) []string {
	src := squash(f.FuncSrc(dir, fn))
	type pm struct {
		pos  int
		name string
	}
	var ps []pm
	for name, m := range markers {
		i := strings.Index(src, m)
		if i < 0 {
			ps = append(ps, pm{1 << 30, "MISSING:" + name})
			continue
		}
		ps = append(ps, pm{i, name})
	}
	for i := range ps {
		for j := i + 1; j < len(ps); j++ {
			if ps[j].pos < ps[i].pos || (ps[j].pos == ps[i].pos && ps[j].name < ps[i].name) {
				ps[i], ps[j] = ps[j], ps[i]
			}
		}
	}
	out := make([]string, len(ps))
	for i, p := range ps {
		out[i] = p.name
	}
	return out
}

// FactsC04Order emits the statement order of the cipher's control flow (pinned in Props/C04).
func FactsC04Order(f *hc.Facts) {
	f.Raw("def encryptMessageOrder : List String := " + strList(orderOf(f, "crypto", "Cipher.encryptMessage", map[string]string{
		"read-rand-byte":   "io.ReadFull(c.rand, randByte[:])",
		"append-padding":   "plaintext.Buf = append(plaintext.Buf, make([]byte, countPadding(offset, randByte[0]))...)",
		"read-padding":     "io.ReadFull(c.rand, plaintext.Buf[offset:])",
		"msg-key":          "messageKey := MessageKey(k.Value, plaintext.Buf, c.encryptSide)",
		"keys":             "key, iv := Keys(k.Value, messageKey, c.encryptSide)",
		"frame":            "AuthKeyID: k.ID, MsgKey: messageKey, EncryptedData: make([]byte, len(plaintext.Buf)),",
		"ige-encrypt":      "ige.EncryptBlocks(aesBlock, iv[:], msg.EncryptedData, plaintext.Buf)",
		"offset-is-length": "offset := len(plaintext.Buf)",
	})) + " -- crypto.Cipher.encryptMessage")
	f.Raw("def encryptOrder : List String := " + strList(orderOf(f, "crypto", "Cipher.Encrypt", map[string]string{
		"reset":          "b.Reset() if err := data.EncodeWithoutCopy(b)",
		"encode-data":    "data.EncodeWithoutCopy(b)",
		"encrypt":        "msg, err := c.encryptMessage(key, b)",
		"reset-again":    "b.Reset() if err := msg.Encode(b)",
		"encode-message": "msg.Encode(b)",
	})) + " -- crypto.Cipher.Encrypt")
	f.Raw("def decryptMessageOrder : List String := " + strList(orderOf(f, "crypto", "Cipher.decryptMessage", map[string]string{
		"key-id-check": "if k.ID != encrypted.AuthKeyID {",
		"align-check":  "if len(encrypted.EncryptedData)%16 != 0 {",
		"keys":         "key, iv := Keys(k.Value, encrypted.MsgKey, c.encryptSide.DecryptSide())",
		"ige-decrypt":  "ige.DecryptAES256Blocks(key[:], iv[:], plaintext, encrypted.EncryptedData)",
	})) + " -- crypto.Cipher.decryptMessage")
	f.Raw("def decryptOrder : List String := " + strList(orderOf(f, "crypto", "Cipher.Decrypt", map[string]string{
		"decrypt-message": "plaintext, err := c.decryptMessage(k, encrypted)",
		"msg-key":         "msgKey := MessageKey(k.Value, plaintext, side)",
		"msg-key-check":   "if msgKey != encrypted.MsgKey {",
		"decode-data":     "msg.DecodeWithoutCopy(&bin.Buffer{Buf: plaintext})",
		"n":               "n := int(msg.MessageDataLen)",
		"padding-len":     "paddingLen := len(msg.MessageDataWithPadding) - n",
		"checks":          "switch {",
		"return":          "return msg, nil",
	})) + " -- crypto.Cipher.Decrypt")
	f.Raw("def decryptFromBufferOrder : List String := " + strList(orderOf(f, "crypto", "Cipher.DecryptFromBuffer", map[string]string{
		"decode-frame": "msg.DecodeWithoutCopy(buf)",
		"decrypt":      "return c.Decrypt(k, msg)",
	})) + " -- crypto.Cipher.DecryptFromBuffer")
}
