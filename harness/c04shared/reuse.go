package c04shared

import (
	"bytes"
	"fmt"

	"github.com/gotd/td/bin"
	"github.com/gotd/td/crypto"

	"verif/harness/hc"
)

// Reuse stage: objects that are REUSED across calls (the receiver-side twin of the retention class)
// must behave like fresh ones.  One EncryptedMessage / EncryptedMessageData / bin.Buffer value is
// used for a whole sequence of frames of varying length — longer then shorter, valid then truncated
// or tampered — and after every step the verdict and the result are compared with what fresh objects
// give for the same frame (and, through the queue, with the model, which is stateless by construction).
// Failure key: `reused-object-differs-from-fresh`.

type rawBytes []byte

func (r rawBytes) Encode(b *bin.Buffer) error { b.Put(r); return nil }

// failingEnc writes its bytes and then reports an encoding error.
type failingEnc []byte

func (f failingEnc) Encode(b *bin.Buffer) error {
	b.Put(f)
	return fmt.Errorf("unable to encode: field is nil")
}

func showMsg(d *crypto.EncryptedMessageData, err error) string {
	if err != nil && d == nil {
		return "err " + ErrTag(err)
	}
	return ShowDecrypt(d, err)
}

// ReuseCase runs one sequence.
func ReuseCase(c *hc.Ctx, q *Queue, prop string) {
	r := c.Rng
	var key crypto.Key
	copy(key[:], r.Bytes(256))
	ak := key.WithID()
	sender := hc.Pick(r, crypto.Client, crypto.Server)
	_, dec := Ciphers(sender)
	valid := func(dataLen int) []byte {
		body := dataLen + 16*r.Range(1, 3) // 16..48 bytes of padding
		pt := append(Header(r.U64(), r.U64(), r.U64(), uint32(r.U64()), uint32(dataLen)), r.Bytes(body)...)
		return Seal(key, ak.ID, sender, pt)
	}
	a := valid(16 * r.Range(4, 40))
	b := valid(16 * r.Range(0, 3))
	cut := func(f []byte, k int) []byte {
		if k > len(f) {
			k = len(f)
		}
		return append([]byte{}, f[:len(f)-k]...)
	}
	flip := func(f []byte) []byte {
		m := append([]byte{}, f...)
		m[r.Intn(len(m))] ^= byte(1 << r.Intn(8))
		return m
	}
	seq := [][]byte{a,
		cut(a, hc.Pick(r, 16, 32, 48, 16*r.Range(1, 8))), // whole blocks off the end: stale tail would heal it
		cut(a, r.Range(1, 15)),
		b,
		a,
		flip(a),
		cut(a, len(a)-hc.Pick(r, 0, 8, 23, 24, 40)),
		cut(b, 16),
		a,
	}
	if r.Bool() { // another order: short first, then long, then truncations
		seq = [][]byte{b, a, cut(a, 16*r.Range(1, 6)), cut(b, 16), flip(b), b, cut(a, 16)}
	}
	var reusedCopy, reusedRef crypto.EncryptedMessage
	reusedBuf := &bin.Buffer{}
	prev := "-"
	for step, frame := range seq {
		line := fmt.Sprintf("dec %s %s %s %s", SideName(sender^1), hc.Hex(key[:]), hc.Hex(ak.ID[:]), hc.Hex(frame))
		input := fmt.Sprintf("%s   [step %d of a sequence on reused objects; previous frame %s]", line, step, prev)
		// fresh objects
		var fresh crypto.EncryptedMessage
		var freshRes string
		if err := fresh.Decode(&bin.Buffer{Buf: append([]byte{}, frame...)}); err != nil {
			freshRes = "decode-error " + ErrTag(err)
		} else {
			freshRes = showMsg(dec.Decrypt(ak, &fresh))
		}
		ffb, ferr := dec.DecryptFromBuffer(ak, &bin.Buffer{Buf: append([]byte{}, frame...)})
		fromBuf := showMsg(ffb, ferr)
		c.Count("reuse.step")
		c.Eval("reuse "+Sig(line), true)
		if len(frame) >= 24 {
			q.Add(line, ShowDecrypt(ffb, ferr))
		}
		check := func(what, got string) {
			want := freshRes
			if what == "DecryptFromBuffer on a reused bin.Buffer" {
				want = fromBuf
			}
			if got != want {
				c.Fail("reused-object-differs-from-fresh", input,
					fmt.Sprintf("%s: %s — a fresh object gives: %s", what, clipStr(got), clipStr(want)))
			}
		}
		// 1. EncryptedMessage.Decode (copying) into the same struct, then Cipher.Decrypt
		if err := reusedCopy.Decode(&bin.Buffer{Buf: append([]byte{}, frame...)}); err != nil {
			check("EncryptedMessage.Decode into a reused struct", "decode-error "+ErrTag(err))
		} else {
			check("EncryptedMessage.Decode into a reused struct, then Cipher.Decrypt", showMsg(dec.Decrypt(ak, &reusedCopy)))
		}
		// 2. EncryptedMessage.DecodeWithoutCopy into the same struct
		if err := reusedRef.DecodeWithoutCopy(&bin.Buffer{Buf: append([]byte{}, frame...)}); err != nil {
			check("EncryptedMessage.DecodeWithoutCopy into a reused struct", "decode-error "+ErrTag(err))
		} else {
			check("EncryptedMessage.DecodeWithoutCopy into a reused struct, then Cipher.Decrypt", showMsg(dec.Decrypt(ak, &reusedRef)))
		}
		// 3. the same bin.Buffer refilled for every frame (as the read loop does), then DecryptFromBuffer
		reusedBuf.Reset()
		reusedBuf.Put(frame)
		check("DecryptFromBuffer on a reused bin.Buffer", showMsg(dec.DecryptFromBuffer(ak, reusedBuf)))
		prev = hc.Hex(frame)
	}
	// 4. EncryptedMessageData.Decode / DecodeWithoutCopy into the same struct: long, short, long plaintexts
	var dCopy, dRef crypto.EncryptedMessageData
	for step := 0; step < 4; step++ {
		n := 16 * hc.Pick(r, 0, 1, 2, 8, 20)
		declared := max(0, n-16*r.Range(0, 2))
		pt := append(Header(r.U64(), r.U64(), r.U64(), uint32(r.U64()), uint32(declared)), r.Bytes(n)...)
		if r.Chance(20) {
			pt = pt[:r.Intn(len(pt)+1)]
		}
		show := func(d *crypto.EncryptedMessageData, err error) string {
			if err != nil {
				return "err " + ErrTag(err)
			}
			return ShowDecrypt(d, nil) + " data=" + hc.Hex(d.Data())
		}
		var f1 crypto.EncryptedMessageData
		want := show(&f1, f1.Decode(&bin.Buffer{Buf: append([]byte{}, pt...)}))
		in := fmt.Sprintf("EncryptedMessageData plaintext %s   [step %d on reused structs]", hc.Hex(pt), step)
		c.Count("reuse.data-step")
		// the model's decodeData (interpreting the regenerated reads) against the fresh Go decoder;
		// Data() of a negative declared length would panic in Go, so only non-negative lengths are compared
		if len(pt) < 32 || int32(uint32(pt[28])|uint32(pt[29])<<8|uint32(pt[30])<<16|uint32(pt[31])<<24) >= 0 {
			q.Add("decdata "+hc.Hex(pt), want)
		}
		if got := show(&dCopy, dCopy.Decode(&bin.Buffer{Buf: append([]byte{}, pt...)})); got != want {
			c.Fail("reused-object-differs-from-fresh", in, "EncryptedMessageData.Decode into a reused struct: "+clipStr(got)+" — fresh: "+clipStr(want))
		}
		if got := show(&dRef, dRef.DecodeWithoutCopy(&bin.Buffer{Buf: append([]byte{}, pt...)})); got != want {
			c.Fail("reused-object-differs-from-fresh", in, "EncryptedMessageData.DecodeWithoutCopy into a reused struct: "+clipStr(got)+" — fresh: "+clipStr(want))
		}
	}
	// 5. Cipher.Encrypt into the same bin.Buffer: long then short then long messages
	out := &bin.Buffer{}
	for step := 0; step < 4; step++ {
		payload := r.Bytes(4 * hc.Pick(r, 0, 1, 30, 200, 3))
		rnd := r.Bytes(1 + 16*17)
		d := crypto.EncryptedMessageData{Salt: int64(r.U64()), SessionID: int64(r.U64()), MessageID: int64(r.U64()), SeqNo: int32(r.U64())}
		if r.Bool() {
			d.Message = rawBytes(payload)
		} else {
			d.MessageDataLen, d.MessageDataWithPadding = int32(len(payload)), payload
		}
		mk := func() crypto.Cipher {
			if sender == crypto.Client {
				return crypto.NewClientCipher(bytes.NewReader(rnd))
			}
			return crypto.NewServerCipher(bytes.NewReader(rnd))
		}
		if r.Chance(30) { // an error path first: a Message whose Encode fails half-way must leave no trace in the reused buffer
			bad := d
			bad.Message = failingEnc(r.Bytes(4 * r.Range(0, 20)))
			if err := mk().Encrypt(ak, bad, out); err == nil {
				c.Fail("encode-error-swallowed", "Cipher.Encrypt with a Message whose Encode fails", "returned nil")
			}
		}
		freshBuf := &bin.Buffer{}
		e1 := mk().Encrypt(ak, d, freshBuf)
		e2 := mk().Encrypt(ak, d, out)
		c.Count("reuse.encrypt-step")
		in := fmt.Sprintf("Cipher.Encrypt payload %s rnd %s key %s   [step %d into a reused bin.Buffer]", hc.Hex(payload), hc.Hex(rnd), hc.Hex(key[:]), step)
		if (e1 == nil) != (e2 == nil) || !bytes.Equal(freshBuf.Buf, out.Buf) {
			c.Fail("reused-object-differs-from-fresh", in, fmt.Sprintf("Cipher.Encrypt into a reused buffer gives %s, into a fresh buffer %s", clipStr(hc.Hex(out.Buf)), clipStr(hc.Hex(freshBuf.Buf))))
		}
	}
}

func clipStr(s string) string {
	if len(s) > 200 {
		return s[:200] + "…"
	}
	return s
}
