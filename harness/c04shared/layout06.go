package c04shared

import (
	"fmt"
	"go/ast"
	"strings"

	"verif/harness/hc"
)

// Structured facts about crypto/bind.go, interpreted by TdModel.C06 (C06Bind.lean): the field
// sequence of BindAuthKeyInner.Encode, the envelope written by EncryptBindMessage, the size of the
// random prefix, and the order "msg_key before padding".

var bindField = map[string]string{"Nonce": ".nonce", "TempAuthKeyID": ".tempAuthKeyID", "PermAuthKeyID": ".permAuthKeyID",
	"TempSessionID": ".tempSessionID", "ExpiresAt": ".expiresAt"}

func FactsC06Bind(f *hc.Facts) {
	f.Raw("inductive BW where | id | u32 | u64 | raw deriving DecidableEq, Repr")
	f.Raw("inductive BF where | typeID | nonce | tempAuthKeyID | permAuthKeyID | tempSessionID | expiresAt | random | msgID | zero | payloadLen | payload deriving DecidableEq, Repr")
	f.Raw("/-- one `b.PutX(value)` of bind.go -/")
	f.Raw("structure BPut where (w : BW) (f : BF) deriving DecidableEq, Repr")
	// ---- BindAuthKeyInner.Encode
	ok := false
	var inner []string
	if fd := f.FuncDecl("crypto", "BindAuthKeyInner.Encode"); fd != nil && fd.Body != nil {
		ok = true
		for i, st := range fd.Body.List {
			switch s := st.(type) {
			case *ast.IfStmt:
				if i != 0 || f.Src(s.Cond) != "m == nil" {
					ok = false
				}
			case *ast.ExprStmt:
				m, arg, isCall := recvCall(s.X, "b")
				if !isCall {
					ok = false
					continue
				}
				a := f.Src(arg)
				switch {
				case m == "PutID" && a == "BindAuthKeyInnerTypeID":
					inner = append(inner, "⟨.id, .typeID⟩")
				case (m == "PutLong" || m == "PutInt" || m == "PutInt32") && strings.HasPrefix(a, "m."):
					fl, known := bindField[strings.TrimPrefix(a, "m.")]
					if !known {
						ok = false
						continue
					}
					w := ".u64"
					if m != "PutLong" {
						w = ".u32"
					}
					inner = append(inner, fmt.Sprintf("⟨%s, %s⟩", w, fl))
				default:
					ok = false
				}
			case *ast.ReturnStmt:
				if len(s.Results) != 1 || f.Src(s.Results[0]) != "nil" {
					ok = false
				}
			default:
				ok = false
			}
		}
	}
	if ok && len(inner) > 0 {
		f.Raw("def bindInnerEncode : List BPut := [" + strings.Join(inner, ", ") + "] -- (*BindAuthKeyInner).Encode")
	} else {
		f.Missing("bindInnerEncode", "(*BindAuthKeyInner).Encode: not a plain sequence of b.PutX(m.Field)")
	}
	// ---- EncryptBindMessage
	fd := f.FuncDecl("crypto", "EncryptBindMessage")
	if fd == nil || fd.Body == nil {
		f.Missing("bindEnvelope", "crypto.EncryptBindMessage not found")
		return
	}
	var env []string
	okE := true
	randLen := ""
	pos := map[string]int{}
	for i, st := range fd.Body.List {
		src := f.Src(st)
		switch {
		case src == "msgKey := MessageKeyV1(plaintext.Buf)":
			pos["msgKey"] = i
		case strings.HasPrefix(src, "if rem := len(plaintext.Buf) % aes.BlockSize; rem != 0 {"):
			pos["pad"] = i
			if !strings.Contains(src, "paddingLen := aes.BlockSize - rem") ||
				!strings.Contains(src, "plaintext.Buf = append(plaintext.Buf, make([]byte, paddingLen)...)") ||
				!strings.Contains(src, "io.ReadFull(rand, plaintext.Buf[offset:])") {
				okE = false
			}
		case src == "key, iv := KeysV1(permKey.Value, msgKey)":
			pos["keys"] = i
		case src == "ige.EncryptBlocks(block, iv[:], msg.EncryptedData, plaintext.Buf)":
			pos["ige"] = i
		case strings.HasPrefix(src, "random := make([]byte, "):
			randLen = strings.TrimSuffix(strings.TrimPrefix(src, "random := make([]byte, "), ")")
		case strings.HasPrefix(src, "msg := EncryptedMessage{"):
			pos["msg"] = i
			if !strings.Contains(src, "AuthKeyID:") || !strings.Contains(src, "permKey.ID,") || !strings.Contains(src, "msgKey,") ||
				!strings.Contains(src, "make([]byte, len(plaintext.Buf))") {
				okE = false
			}
		case strings.HasPrefix(src, "if err := msg.Encode(encrypted)"):
			pos["encode"] = i
		}
		es, isExpr := st.(*ast.ExprStmt)
		if !isExpr {
			continue
		}
		m, arg, isCall := recvCall(es.X, "plaintext")
		if !isCall {
			continue
		}
		a := f.Src(arg)
		switch {
		case m == "Put" && a == "random":
			env = append(env, "⟨.raw, .random⟩")
		case m == "PutLong" && a == "msgID":
			env = append(env, "⟨.u64, .msgID⟩")
		case m == "PutInt32" && a == "0":
			env = append(env, "⟨.u32, .zero⟩")
		case m == "PutInt32" && a == "int32(payload.Len())":
			env = append(env, "⟨.u32, .payloadLen⟩")
		case m == "Put" && a == "payload.Buf":
			env = append(env, "⟨.raw, .payload⟩")
		default:
			okE = false
		}
	}
	_, h1 := pos["msgKey"]
	_, h2 := pos["pad"]
	_, h3 := pos["keys"]
	_, h4 := pos["ige"]
	_, h5 := pos["msg"]
	_, h6 := pos["encode"]
	if okE && len(env) > 0 && exprOK.MatchString(randLen) && h1 && h2 && h3 && h4 && h5 && h6 &&
		pos["pad"] < pos["keys"] && pos["keys"] < pos["msg"] && pos["msg"] < pos["ige"] && pos["ige"] < pos["encode"] {
		f.Raw("def bindEnvelope : List BPut := [" + strings.Join(env, ", ") + "] -- crypto.EncryptBindMessage: plaintext.PutX(...)")
		f.Raw("def bindRandomLen : Nat := " + randLen + " -- random := make([]byte, N)")
		f.Bool("bindMsgKeyBeforePadding", pos["msgKey"] < pos["pad"], "msgKey := MessageKeyV1(plaintext.Buf) precedes the alignment padding")
		f.Nat("bindBlockSize", 16, "aes.BlockSize in the padding computation of EncryptBindMessage")
	} else {
		f.Missing("bindEnvelope", "crypto.EncryptBindMessage: unexpected shape")
	}
}
