package c04shared

import (
	"crypto/sha256"
	"fmt"
	"sync"

	"verif/harness/hc"
)

// Retainer checks that results stay valid after LATER calls: every API result that is (or holds) a
// byte slice is kept exactly as it was returned — no copy — together with a digest taken right
// after the call; Verify re-reads the kept object after more calls have been made (sequentially, or
// concurrently from several goroutines) and reports `result-aliased-by-later-call` when its bytes
// changed.  This is the class "returned slice aliases a pooled / reused buffer".
type Retainer struct {
	mu    sync.Mutex
	items []kept
	bytes int
	seq   int
}

type kept struct {
	api, input string
	seq        int
	size       int
	render     func() []byte // reads the retained object itself
	digest     [32]byte
	head       string
}

func headHex(b []byte) string {
	if len(b) > 48 {
		return hc.Hex(b[:48]) + "…"
	}
	return hc.Hex(b)
}

// Keep records a result.  `render` must read the object returned by the API (not a copy) and
// return its bytes; `input` is the replayable description of the call that produced it.
func (rt *Retainer) Keep(api, input string, render func() []byte) {
	now := render()
	k := kept{api: api, input: input, render: render, digest: sha256.Sum256(now), head: headHex(now), size: len(now)}
	rt.mu.Lock()
	rt.seq++
	k.seq = rt.seq
	rt.items = append(rt.items, k)
	rt.bytes += len(now) + len(input)
	rt.mu.Unlock()
}

// Pending reports how much is retained (callers verify in windows to bound memory).
func (rt *Retainer) Pending() (items, bytes int) {
	rt.mu.Lock()
	defer rt.mu.Unlock()
	return len(rt.items), rt.bytes
}

// Verify re-reads everything retained so far (call it when no producer is running) and releases it.
func (rt *Retainer) Verify(c *hc.Ctx) { rt.verify(c, 0) }

// verify checks and releases the results that have seen at least minLater later calls.
func (rt *Retainer) verify(c *hc.Ctx, minLater int) {
	rt.mu.Lock()
	last := rt.seq
	var items, rest []kept
	rt.bytes = 0
	for _, k := range rt.items {
		if last-k.seq >= minLater {
			items = append(items, k)
		} else {
			rest = append(rest, k)
			rt.bytes += k.size + len(k.input)
		}
	}
	rt.items = rest
	rt.mu.Unlock()
	for _, k := range items {
		c.Count("retained." + k.api)
		now := k.render()
		if sha256.Sum256(now) == k.digest {
			continue
		}
		c.Fail("result-aliased-by-later-call", k.input,
			fmt.Sprintf("%s: the returned value read %s (%d bytes) right after the call and reads %s (%d bytes) after %d later calls of this run (call #%d of the batch; the result shares memory with something a later call writes)",
				k.api, k.head, k.size, headHex(now), len(now), last-k.seq, k.seq))
	}
}

// MaybeVerify bounds memory: once more than `maxItems` results or 48 MB are retained it verifies and
// releases those that have already seen at least 8 later calls (the newest stay for the next round).
func (rt *Retainer) MaybeVerify(c *hc.Ctx, maxItems int) {
	n, b := rt.Pending()
	if n >= maxItems || b > 48<<20 {
		rt.verify(c, 8)
	}
}

// Concurrently runs `workers` goroutines, each with its own generator forked from the run's PRNG
// (so the inputs of every worker replay exactly), `perWorker` times calling `step`; afterwards the
// retainer is verified.  `step` must only use thread-safe parts of hc.Ctx (Fail, Count, Eval).
func Concurrently(c *hc.Ctx, rt *Retainer, workers, perWorker int, step func(r *hc.RNG, worker, i int)) {
	rngs := make([]*hc.RNG, workers)
	for w := range rngs {
		rngs[w] = c.Rng.Fork()
	}
	var wg sync.WaitGroup
	for w := 0; w < workers; w++ {
		wg.Add(1)
		go func(w int) {
			defer wg.Done()
			defer func() {
				if p := recover(); p != nil {
					c.Fail("panic-in-concurrent-use", fmt.Sprintf("worker %d of %d", w, workers), fmt.Sprint(p))
				}
			}()
			for i := 0; i < perWorker; i++ {
				step(rngs[w], w, i)
			}
		}(w)
	}
	wg.Wait()
	rt.Verify(c)
}
