package c04shared

import (
	"fmt"
	"go/ast"
	"go/token"
	"strings"

	"verif/harness/hc"
)

// callSeq lists `recv.Method(args)` calls on receiver `recv` in dir.fn, in source order, as
// "Method arg" strings (field selectors are printed without their receiver).
func callSeq(f *hc.Facts, dir, fn, recv string) []string {
	fd := f.FuncDecl(dir, fn)
	var out []string
	if fd == nil || fd.Body == nil {
		return nil
	}
	ast.Inspect(fd.Body, func(n ast.Node) bool {
		ce, ok := n.(*ast.CallExpr)
		if !ok {
			return true
		}
		sel, ok := ce.Fun.(*ast.SelectorExpr)
		if !ok {
			return true
		}
		id, ok := sel.X.(*ast.Ident)
		if !ok || id.Name != recv {
			return true
		}
		arg := ""
		if len(ce.Args) > 0 {
			arg = f.Src(ce.Args[0])
			if i := strings.LastIndex(arg, "."); i >= 0 {
				arg = arg[i+1:]
			}
		}
		out = append(out, strings.TrimSpace(sel.Sel.Name+" "+arg))
		return true
	})
	return out
}

// decodeSeq lists, for the `{ v, err := b.X(); …; e.Field = v }` blocks of a decoder, "X Field".
func decodeSeq(f *hc.Facts, dir, fn string) []string {
	fd := f.FuncDecl(dir, fn)
	var out []string
	if fd == nil || fd.Body == nil {
		return nil
	}
	for _, st := range fd.Body.List {
		blk, ok := st.(*ast.BlockStmt)
		if !ok {
			continue
		}
		meth, field := "", ""
		for _, s := range blk.List {
			as, ok := s.(*ast.AssignStmt)
			if !ok || len(as.Rhs) != 1 {
				continue
			}
			if ce, ok := as.Rhs[0].(*ast.CallExpr); ok {
				if sel, ok := ce.Fun.(*ast.SelectorExpr); ok {
					meth = sel.Sel.Name
				}
			}
			if sel, ok := as.Lhs[0].(*ast.SelectorExpr); ok && as.Tok == token.ASSIGN {
				field = sel.Sel.Name
			}
		}
		out = append(out, meth+" "+field)
	}
	return out
}

func strList(xs []string) string {
	q := make([]string, len(xs))
	for i, x := range xs {
		q[i] = fmt.Sprintf("%q", x)
	}
	return "[" + strings.Join(q, ", ") + "]"
}

// nthArg returns the printed n-th argument of the first call of pkg-level function `callee` in dir.fn.
func nthArg(f *hc.Facts, dir, fn, callee string, n int) string {
	fd := f.FuncDecl(dir, fn)
	res := ""
	if fd == nil || fd.Body == nil {
		return ""
	}
	ast.Inspect(fd.Body, func(nd ast.Node) bool {
		if res != "" {
			return false
		}
		ce, ok := nd.(*ast.CallExpr)
		if !ok {
			return true
		}
		if id, ok := ce.Fun.(*ast.Ident); ok && id.Name == callee && len(ce.Args) > n {
			res = f.Src(ce.Args[n])
		}
		return true
	})
	return res
}

// localConsts collects `const name = <int literal>` declared inside a function body.
func localConsts(fd *ast.FuncDecl) map[string]string {
	m := map[string]string{}
	if fd == nil || fd.Body == nil {
		return m
	}
	ast.Inspect(fd.Body, func(n ast.Node) bool {
		gd, ok := n.(*ast.GenDecl)
		if !ok || gd.Tok != token.CONST {
			return true
		}
		for _, s := range gd.Specs {
			vs := s.(*ast.ValueSpec)
			for i, id := range vs.Names {
				if i < len(vs.Values) {
					if bl, ok := vs.Values[i].(*ast.BasicLit); ok && bl.Kind == token.INT {
						m[id.Name] = bl.Value
					}
				}
			}
		}
		return true
	})
	return m
}

var opNames = map[token.Token]string{token.LSS: ".lt", token.GTR: ".gt", token.LEQ: ".le", token.GEQ: ".ge", token.NEQ: ".ne", token.EQL: ".eq"}

// FactsC04 regenerates what the cipher model computes with: countPadding (translated), the
// ordered validity checks of Cipher.Decrypt (as data), the alignment check of decryptMessage,
// header layouts and which side each key derivation uses.
func FactsC04(f *hc.Facts) {
	f.TranslateFuncs("crypto", "countPadding", "countPadding")
	f.Raw("inductive Lhs where | n | nMod (k : Int) | pad deriving DecidableEq, Repr")
	f.Raw("inductive Op where | lt | gt | le | ge | ne | eq deriving DecidableEq, Repr")
	f.Raw("/-- one `case lhs op rhs: return error` of the switch in Cipher.Decrypt (n = int(MessageDataLen), pad = len(MessageDataWithPadding) - n) -/")
	f.Raw("structure Chk where (lhs : Lhs) (op : Op) (rhs : Int) deriving DecidableEq, Repr")
	fd := f.FuncDecl("crypto", "Cipher.Decrypt")
	consts := localConsts(fd)
	var chks []string
	ok := fd != nil
	nDef, padDef := "", ""
	if fd != nil {
		ast.Inspect(fd.Body, func(n ast.Node) bool {
			if as, isAs := n.(*ast.AssignStmt); isAs && len(as.Lhs) == 1 && len(as.Rhs) == 1 {
				if id, isID := as.Lhs[0].(*ast.Ident); isID {
					switch id.Name {
					case "n":
						nDef = f.Src(as.Rhs[0])
					case "paddingLen":
						padDef = f.Src(as.Rhs[0])
					}
				}
			}
			sw, isSw := n.(*ast.SwitchStmt)
			if !isSw || sw.Tag != nil {
				return true
			}
			for _, st := range sw.Body.List {
				cc := st.(*ast.CaseClause)
				if len(cc.List) != 1 || len(cc.Body) != 1 {
					ok = false
					continue
				}
				if _, isRet := cc.Body[0].(*ast.ReturnStmt); !isRet {
					ok = false
					continue
				}
				be, isBin := cc.List[0].(*ast.BinaryExpr)
				if !isBin {
					ok = false
					continue
				}
				op, known := opNames[be.Op]
				lhs := ""
				switch l := be.X.(type) {
				case *ast.Ident:
					switch l.Name {
					case "n":
						lhs = ".n"
					case "paddingLen":
						lhs = ".pad"
					}
				case *ast.BinaryExpr:
					if id, isID := l.X.(*ast.Ident); isID && id.Name == "n" && l.Op == token.REM {
						if bl, isLit := l.Y.(*ast.BasicLit); isLit {
							lhs = "(.nMod " + bl.Value + ")"
						}
					}
				}
				rhs := ""
				switch r := be.Y.(type) {
				case *ast.BasicLit:
					rhs = r.Value
				case *ast.Ident:
					rhs = consts[r.Name]
				}
				if !known || lhs == "" || rhs == "" {
					ok = false
					continue
				}
				chks = append(chks, fmt.Sprintf("⟨%s, %s, %s⟩", lhs, op, rhs))
			}
			return false
		})
	}
	if ok && len(chks) > 0 && nDef == "int(msg.MessageDataLen)" && padDef == "len(msg.MessageDataWithPadding) - n" {
		f.Raw("def decryptChecks : List Chk := [" + strings.Join(chks, ", ") + "] -- crypto.Cipher.Decrypt switch")
	} else {
		f.Missing("decryptChecks", "crypto.Cipher.Decrypt: switch / n / paddingLen of unexpected shape")
	}
	// decryptMessage: `k.ID != encrypted.AuthKeyID`, `len(encrypted.EncryptedData)%16 != 0`
	src := f.FuncSrc("crypto", "Cipher.decryptMessage")
	f.Bool("checksKeyID", strings.Contains(src, "if k.ID != encrypted.AuthKeyID {\n\t\treturn nil,"), "crypto.Cipher.decryptMessage compares the key id first")
	align := 0
	fmt.Sscanf(afterStr(src, "len(encrypted.EncryptedData)%"), "%d", &align)
	if align > 0 && strings.Contains(src, fmt.Sprintf("if len(encrypted.EncryptedData)%%%d != 0 {\n\t\treturn nil,", align)) {
		f.Nat("alignment", align, "crypto.Cipher.decryptMessage block alignment check")
	} else {
		f.Missing("alignment", "crypto.Cipher.decryptMessage alignment check")
	}
	dsrc := f.FuncSrc("crypto", "Cipher.Decrypt")
	f.Bool("checksMsgKey", strings.Contains(dsrc, "if msgKey != encrypted.MsgKey {\n\t\treturn nil,"), "crypto.Cipher.Decrypt compares the recomputed msg_key")
	// which side feeds the derivations
	f.Str("encMsgKeySide", nthArg(f, "crypto", "Cipher.encryptMessage", "MessageKey", 2), "side argument of MessageKey in encryptMessage")
	f.Str("encKeysSide", nthArg(f, "crypto", "Cipher.encryptMessage", "Keys", 2), "side argument of Keys in encryptMessage")
	f.Str("decKeysSide", nthArg(f, "crypto", "Cipher.decryptMessage", "Keys", 2), "side argument of Keys in decryptMessage")
	f.Str("decMsgKeySide", nthArg(f, "crypto", "Cipher.Decrypt", "MessageKey", 2), "side argument of MessageKey in Decrypt")
	f.Bool("decSideIsFlipped", strings.Contains(dsrc, "side := c.encryptSide.DecryptSide()"), "Decrypt: side := c.encryptSide.DecryptSide()")
	f.Bool("decryptSideFlips", strings.Contains(f.FuncSrc("crypto", "Side.DecryptSide"), "return s ^ 1"), "Side.DecryptSide = s ^ 1")
	// layouts: structured (interpreted by the model) and as call-order strings (pinned in Props)
	FactsC04Layout(f)
	FactsC04Msg(f)
	FactsC04Order(f)
	f.Raw("def dataEncodeOrder : List String := " + strList(callSeq(f, "crypto", "EncryptedMessageData.Encode", "b")) + " -- EncryptedMessageData.Encode")
	f.Raw("def dataDecodeOrder : List String := " + strList(decodeSeq(f, "crypto", "EncryptedMessageData.DecodeWithoutCopy")) + " -- EncryptedMessageData.DecodeWithoutCopy")
	f.Raw("def msgEncodeOrder : List String := " + strList(callSeq(f, "crypto", "EncryptedMessage.Encode", "b")) + " -- EncryptedMessage.Encode")
	f.Raw("def msgDecodeOrder : List String := " + strList(callSeq(f, "crypto", "EncryptedMessage.DecodeWithoutCopy", "b")) + " -- EncryptedMessage.DecodeWithoutCopy")
}

func afterStr(s, marker string) string {
	i := strings.Index(s, marker)
	if i < 0 {
		return ""
	}
	return s[i+len(marker):]
}

// FactsC05 regenerates the facts about the rejection paths of Cipher.DecryptFromBuffer / Decrypt /
// decryptMessage.
func FactsC05(f *hc.Facts) {
	okAll := true
	n := 0
	for _, fn := range []string{"Cipher.DecryptFromBuffer", "Cipher.Decrypt", "Cipher.decryptMessage"} {
		fd := f.FuncDecl("crypto", fn)
		if fd == nil || fd.Body == nil {
			okAll = false
			continue
		}
		ast.Inspect(fd.Body, func(nd ast.Node) bool {
			if _, isLit := nd.(*ast.FuncLit); isLit {
				return false
			}
			ret, isRet := nd.(*ast.ReturnStmt)
			if !isRet {
				return true
			}
			if len(ret.Results) == 1 { // return c.Decrypt(k, msg)
				if _, isCall := ret.Results[0].(*ast.CallExpr); !isCall {
					okAll = false
				}
				return true
			}
			if len(ret.Results) != 2 {
				okAll = false
				return true
			}
			if f.Src(ret.Results[1]) != "nil" {
				n++
				if f.Src(ret.Results[0]) != "nil" {
					okAll = false
				}
			}
			return true
		})
	}
	f.Bool("errorReturnsNil", okAll && n >= 8, fmt.Sprintf("%d error returns in DecryptFromBuffer/Decrypt/decryptMessage, all with a nil result", n))
	src := f.FuncSrc("crypto", "Cipher.decryptMessage")
	f.Bool("checksKeyID", strings.Contains(src, "if k.ID != encrypted.AuthKeyID {\n\t\treturn nil,"), "crypto.Cipher.decryptMessage compares the key id first")
	dsrc := f.FuncSrc("crypto", "Cipher.Decrypt")
	f.Bool("checksMsgKey", strings.Contains(dsrc, "if msgKey != encrypted.MsgKey {\n\t\treturn nil,"), "crypto.Cipher.Decrypt compares the recomputed msg_key")
	f.Str("decKeysSide", nthArg(f, "crypto", "Cipher.decryptMessage", "Keys", 2), "side argument of Keys in decryptMessage")
	f.Str("decMsgKeySide", nthArg(f, "crypto", "Cipher.Decrypt", "MessageKey", 2), "side argument of MessageKey in Decrypt")
	f.Bool("decSideIsFlipped", strings.Contains(dsrc, "side := c.encryptSide.DecryptSide()"), "Decrypt: side := c.encryptSide.DecryptSide()")
	f.Bool("decryptSideFlips", strings.Contains(f.FuncSrc("crypto", "Side.DecryptSide"), "return s ^ 1"), "Side.DecryptSide = s ^ 1")
	// the copying decoders must size their slice to exactly the incoming bytes (no stale tail on reuse)
	f.Bool("msgDecodeExactSize", strings.Contains(squash(f.FuncSrc("crypto", "EncryptedMessage.Decode")),
		"e.EncryptedData = append(e.EncryptedData[:0], make([]byte, b.Len())...) if err := b.ConsumeN(e.EncryptedData, b.Len()); err != nil {"),
		"EncryptedMessage.Decode: EncryptedData = append(EncryptedData[:0], make([]byte, b.Len())...) then ConsumeN(EncryptedData, b.Len())")
	f.Bool("dataDecodeExactSize", strings.Contains(squash(f.FuncSrc("crypto", "EncryptedMessageData.Decode")),
		"e.MessageDataWithPadding = append(e.MessageDataWithPadding[:0], b.Buf...)"),
		"EncryptedMessageData.Decode: MessageDataWithPadding = append(MessageDataWithPadding[:0], b.Buf...)")
}
