package c04shared

import (
	"crypto/aes"
	"crypto/sha256"
	"encoding/binary"
	"errors"
	"fmt"
	"io"
	"strings"

	"github.com/gotd/ige"

	"github.com/gotd/td/bin"
	"github.com/gotd/td/crypto"

	"verif/harness/hc"
)

// Queue collects driver request lines with the implementation's answer and compares in one batch.
type Queue struct {
	lines, impls []string
	bytes        int
}

func (q *Queue) Add(line, impl string) {
	q.lines = append(q.lines, line)
	q.impls = append(q.impls, impl)
	q.bytes += len(line) + len(impl)
}

// MaybeFlush flushes once more than 24 MB of requests are pending (keeps thorough runs in memory
// bounds). An absent model driver is not an error here: the monitor goes on, Flush at the end reports it.
func (q *Queue) MaybeFlush(c *hc.Ctx) error {
	if q.bytes < 24<<20 {
		return nil
	}
	err := q.Flush(c)
	if errors.Is(err, hc.ErrNoModel) {
		return nil
	}
	return err
}

// Sig is a short signature of an input line for hc.Ctx.Eval (distinctness is counted on it): a
// readable prefix plus a digest of the whole line.
func Sig(line string) string {
	h := sha256.Sum256([]byte(line))
	p := line
	if len(p) > 160 {
		p = p[:160] + "…"
	}
	return fmt.Sprintf("%s #%x", p, h[:8])
}

func (q *Queue) Len() int { return len(q.lines) }

// Flush sends everything to the model driver and records disagreements.
func (q *Queue) Flush(c *hc.Ctx) error {
	outs, err := c.Drv.Batch(q.lines)
	if err != nil {
		q.lines, q.impls, q.bytes = nil, nil, 0
		return err
	}
	for i, o := range outs {
		if c.Compare(q.lines[i], q.impls[i], o) {
			c.Res.TracesValidated++
		}
	}
	q.lines, q.impls, q.bytes = nil, nil, 0
	return nil
}

func SideName(s crypto.Side) string {
	if s == crypto.Server {
		return "s"
	}
	return "c"
}

func SizeBucket(n int) string {
	switch {
	case n == 0:
		return "=0"
	case n <= 64:
		return "<=64"
	case n <= 1024:
		return "<=1Ki"
	case n <= 4096:
		return "<=4Ki"
	case n <= 65536:
		return "<=64Ki"
	}
	return ">64Ki"
}

// ErrTag maps the errors of Cipher.DecryptFromBuffer to the model's error enum.
func ErrTag(err error) string {
	if err == nil {
		return "ok"
	}
	if errors.Is(err, io.ErrUnexpectedEOF) {
		return "eof"
	}
	s := err.Error()
	switch {
	case strings.Contains(s, "unknown auth key id"):
		return "key-id"
	case strings.Contains(s, "invalid encrypted data padding"):
		return "align"
	case strings.Contains(s, "msg_key is invalid"):
		return "msg-key"
	case strings.Contains(s, "MessageDataLen field is bigger"):
		return "data-len"
	case strings.Contains(s, "less than zero"):
		return "len-negative"
	case strings.Contains(s, "not divisible by 4"):
		return "len-mod"
	case strings.Contains(s, "too small"):
		return "pad-small"
	case strings.Contains(s, "too big"):
		return "pad-big"
	}
	return "other:" + s
}

// ShowDecrypt is the canonical form of a DecryptFromBuffer result, as printed by the drivers.
func ShowDecrypt(d *crypto.EncryptedMessageData, err error) string {
	if err != nil {
		s := "err " + ErrTag(err)
		if d != nil {
			s += " (non-nil result returned with the error)"
		}
		return s
	}
	if d == nil {
		return "nil-without-error"
	}
	return fmt.Sprintf("ok %d %d %d %d %d %s", uint64(d.Salt), uint64(d.SessionID), uint64(d.MessageID), uint32(d.SeqNo),
		uint32(d.MessageDataLen), hc.Hex(d.MessageDataWithPadding))
}

// Seal encrypts an arbitrary block-aligned plaintext the way `side` would (msg_key, keys, IGE),
// without any of Cipher.Encrypt's own padding logic.
func Seal(key crypto.Key, id [8]byte, side crypto.Side, pt []byte) []byte {
	mk := crypto.MessageKey(key, pt, side)
	k, iv := crypto.Keys(key, mk, side)
	blk, err := aes.NewCipher(k[:])
	if err != nil {
		panic(err)
	}
	ct := make([]byte, len(pt))
	ige.EncryptBlocks(blk, iv[:], ct, pt)
	out := append([]byte{}, id[:]...)
	out = append(out, mk[:]...)
	return append(out, ct...)
}

func Header(salt, sid, mid uint64, seq, n uint32) []byte {
	h := make([]byte, 32)
	binary.LittleEndian.PutUint64(h[0:], salt)
	binary.LittleEndian.PutUint64(h[8:], sid)
	binary.LittleEndian.PutUint64(h[16:], mid)
	binary.LittleEndian.PutUint32(h[24:], seq)
	binary.LittleEndian.PutUint32(h[28:], n)
	return h
}

func Ciphers(sender crypto.Side) (enc, dec crypto.Cipher) {
	if sender == crypto.Client {
		return crypto.NewClientCipher(nil), crypto.NewServerCipher(nil)
	}
	return crypto.NewServerCipher(nil), crypto.NewClientCipher(nil)
}

// CraftedFrame builds one correctly keyed frame whose padding / length field is chosen around the
// bounds of the statement (12, 1024, divisibility by 4, sign), feeds it to the receiving cipher,
// runs the monitor (an accepted frame must have 12..1024 bytes of padding and a non-negative
// length divisible by 4; a frame within the bounds must be accepted) and queues the model comparison.
func CraftedFrame(c *hc.Ctx, q *Queue, rt *Retainer, prop string) {
	r := c.Rng
	key := GenKey(r)
	ak := key.WithID()
	side := hc.Pick(r, crypto.Client, crypto.Server)
	body := 16 * hc.Pick(r, 0, 1, 2, 3, 4, 8, 63, 64, 65, 66, 70, 130, r.Range(0, 140))
	pad := hc.Pick(r, 0, 4, 8, 11, 12, 13, 15, 16, 20, 28, 1020, 1023, 1024, 1025, 1028, 1040, 2048, r.Range(0, 40), r.Range(1000, 1060))
	if pad > body && r.Chance(80) {
		pad = body
	}
	n := int64(body - pad) // may be negative
	switch r.Intn(12) {
	case 0:
		n = -int64(r.Range(1, 64))
	case 1:
		n = int64(body + r.Range(1, 32)) // longer than the data
	case 2:
		n = -(1 << 31)
	}
	pt := append(Header(r.U64(), r.U64(), r.U64(), uint32(r.U64()), uint32(int32(n))), r.Bytes(body)...)
	frame := Seal(key, ak.ID, side, pt)
	_, dec := Ciphers(side)
	got, err := dec.DecryptFromBuffer(ak, &bin.Buffer{Buf: append([]byte{}, frame...)})
	line := fmt.Sprintf("dec %s %s %s %s", SideName(side^1), hc.Hex(key[:]), hc.Hex(ak.ID[:]), hc.Hex(frame))
	realPad := int64(body) - n
	valid := n >= 0 && n%4 == 0 && n <= int64(body) && realPad >= 12 && realPad <= 1024
	c.Eval(fmt.Sprintf("frame body=%d len=%d pad=%d", body, n, realPad), true)
	switch {
	case n < 0:
		c.Count("frame.len<0")
	case n > int64(body):
		c.Count("frame.len>data")
	case n%4 != 0:
		c.Count("frame.len%4!=0")
	case realPad < 12:
		c.Count("frame.pad<12")
	case realPad > 1024:
		c.Count("frame.pad>1024")
	default:
		c.Count("frame.valid")
	}
	detail := fmt.Sprintf("data=%d bytes, length field=%d, padding=%d: %s", body, n, realPad, ShowDecryptShort(got, err))
	if err == nil && !valid {
		switch {
		case n >= 0 && n <= int64(body) && n%4 == 0 && realPad < 12:
			c.Fail("accepted-padding-below-12", line, detail)
		case n >= 0 && n <= int64(body) && n%4 == 0 && realPad > 1024:
			c.Fail("accepted-padding-above-1024", line, detail)
		default:
			c.Fail("accepted-bad-length-field", line, detail)
		}
	}
	if err != nil && valid {
		c.Fail("valid-frame-rejected", line, detail)
	}
	if err != nil && got != nil {
		c.Fail("rejected-message-yields-data", line, detail)
	}
	q.Add(line, ShowDecrypt(got, err))
	KeepDecrypted(rt, line, got)
}

// KeepDecrypted retains an accepted *EncryptedMessageData exactly as returned (header fields and the
// slice it holds), to be re-read after later calls.
func KeepDecrypted(rt *Retainer, line string, got *crypto.EncryptedMessageData) {
	if rt == nil || got == nil {
		return
	}
	rt.Keep("DecryptFromBuffer", line, func() []byte {
		return append(Header(uint64(got.Salt), uint64(got.SessionID), uint64(got.MessageID), uint32(got.SeqNo), uint32(got.MessageDataLen)),
			got.MessageDataWithPadding...)
	})
}

func ShowDecryptShort(d *crypto.EncryptedMessageData, err error) string {
	if err != nil {
		return "rejected (" + ErrTag(err) + ")"
	}
	return "accepted"
}
