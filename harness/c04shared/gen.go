package c04shared

import (
	"github.com/gotd/td/crypto"

	"verif/harness/hc"
)

// GenKey returns a 2048-bit auth key: mostly random, sometimes all-zero / all-FF / low entropy.
func GenKey(r *hc.RNG) crypto.Key {
	var k crypto.Key
	switch r.Intn(40) {
	case 0: // zero
	case 1:
		for i := range k {
			k[i] = 0xFF
		}
	case 2:
		for i := range k {
			k[i] = byte(i)
		}
	default:
		copy(k[:], r.Bytes(256))
	}
	return k
}
