package c04shared

import (
	"github.com/gotd/td/crypto"

	"verif/harness/hc"
)

// GenKey returns a 2048-bit auth key: mostly random, sometimes all-zero / all-FF / low entropy.
func GenKey(r *hc.RNG) crypto.Key {
	var k crypto.Key
	switch r.Intn(40) {
	case 0: // zero
	case 1:
		for i := range k {
			k[i] = 0xFF
		}
	case 2:
		for i := range k {
			k[i] = byte(i)
		}
	default:
		copy(k[:], r.Bytes(256))
	}
	return k
}

// Degenerate reports whether a key has period 8 (e.g. all bytes equal): for such keys the
// client->server (x = 0) and server->client (x = 8) derivations coincide by construction, so
// reflection cannot be detected by anyone; the monitors skip the reflection check for them.
func Degenerate(k crypto.Key) bool {
	for i := 0; i+8 < len(k); i++ {
		if k[i] != k[i+8] {
			return false
		}
	}
	return true
}
