// C37 — HTML and Markdown formatting never crash and stay within the text.
//
// The tokenizers (golang.org/x/net/html, goldmark) are third-party and are NOT modelled.  What is
// modelled is everything between them and the result: the parsers can touch a message only through
// exported entity.Builder / entity.Token methods (Go visibility + the regenerated call lists), and
// the builder model of C35 covers arbitrary sequences of those calls.
//
// Correspondence: every state-changing Builder call made by html.HTML / markdown.Markdown on an
// input is recorded through the C37 hooks, the recorded call list is replayed through the Lean
// builder model, and text + every entity after Complete() are compared.
// Monitor (implementation only, under recover): no panic; on success the text is valid UTF-8 and
// every entity has offset ≥ 0, length ≥ 0, offset+length ≤ UTF-16 length of the text.
package main

import (
	"bytes"
	"fmt"
	"go/ast"
	"go/parser"
	"go/token"
	"os"
	"path/filepath"
	"regexp"
	"sort"
	"strconv"
	"strings"
	"unicode/utf16"
	"unicode/utf8"

	xhtml "golang.org/x/net/html"

	"github.com/gotd/td/telegram/message/entity"
	"github.com/gotd/td/telegram/message/html"
	"github.com/gotd/td/telegram/message/markdown"
	"github.com/gotd/td/tg"

	"verif/harness/hc"
)

const (
	entDir  = "telegram/message/entity"
	htmlDir = "telegram/message/html"
	mdDir   = "telegram/message/markdown"
)

func main() { hc.Main(hc.Spec{Prop: "C37", Facts: facts, Run: run}) }

// ---------------------------------------------------------------------------------------------
// facts

func parseDir(repo, dir string) map[string]*ast.File {
	out := map[string]*ast.File{}
	fset := token.NewFileSet()
	ents, _ := os.ReadDir(filepath.Join(repo, dir))
	for _, e := range ents {
		n := e.Name()
		if e.IsDir() || !strings.HasSuffix(n, ".go") || strings.HasSuffix(n, "_test.go") || strings.HasPrefix(n, "verif_") {
			continue
		}
		if af, err := parser.ParseFile(fset, filepath.Join(repo, dir, n), nil, 0); err == nil {
			out[n] = af
		}
	}
	return out
}

func recvName(fd *ast.FuncDecl) string {
	if fd.Recv == nil || len(fd.Recv.List) == 0 {
		return ""
	}
	t := fd.Recv.List[0].Type
	if s, ok := t.(*ast.StarExpr); ok {
		t = s.X
	}
	if id, ok := t.(*ast.Ident); ok {
		return id.Name
	}
	return ""
}

func leanList(xs []string) string {
	q := make([]string, len(xs))
	for i, x := range xs {
		q[i] = strconv.Quote(x)
	}
	return "[" + strings.Join(q, ", ") + "]"
}

var genBody = regexp.MustCompile(`^\{ return b\.Format\(s, [A-Za-z]+\([a-zA-Z, ]*\)\) \}$`)

func facts(f *hc.Facts) {
	// The builder model reads TdModel/Gen/C35.lean: regenerate it next to our own facts file so
	// that this check does not depend on ./check C35 having run.
	for i, a := range os.Args {
		if a == "-out" && i+1 < len(os.Args) && os.Args[i+1] != "" {
			g := hc.NewFacts("C35", f.Repo)
			hc.C35EntityFacts(g)
			if err := g.Write(filepath.Join(filepath.Dir(os.Args[i+1]), "C35.lean")); err != nil {
				f.Missing("siblingC35", "cannot write Gen/C35.lean: "+err.Error())
			}
		}
	}
	// --- the API through which anything outside package entity can change a Builder
	var builderM, tokenM, genM []string
	genOK := true
	for name, af := range parseDir(f.Repo, entDir) {
		for _, d := range af.Decls {
			fd, ok := d.(*ast.FuncDecl)
			if !ok || fd.Body == nil {
				continue
			}
			switch recvName(fd) {
			case "Builder":
				if name == "options.gen.go" {
					genM = append(genM, fd.Name.Name)
					if !genBody.MatchString(strings.Join(strings.Fields(f.Src(fd.Body)), " ")) {
						genOK = false
					}
				} else {
					builderM = append(builderM, fd.Name.Name)
				}
			case "Token":
				tokenM = append(tokenM, fd.Name.Name)
			}
		}
	}
	sort.Strings(builderM)
	sort.Strings(tokenM)
	f.Raw("def builderMethods : List String := " + leanList(builderM) + " -- methods of entity.Builder (hand-written files)")
	f.Raw("def tokenMethods : List String := " + leanList(tokenM) + " -- methods of entity.Token")
	f.Nat("genMethodCount", len(genM), "methods of entity.Builder in options.gen.go")
	f.Bool("genMethodsAreFormat", genOK && len(genM) > 0, "every Builder method in options.gen.go is `return b.Format(s, X(...))`")
	all := map[string]bool{}
	for _, m := range builderM {
		all[m] = true
	}
	for _, m := range tokenM {
		all[m] = true
	}
	gen := map[string]bool{}
	for _, m := range genM {
		gen[m] = true
	}
	// --- the tag → formatter table of htmlParser.startTag (clauses that are exactly `e.format = entity.X()`)
	strConst := map[string]string{}
	for _, af := range parseDir(f.Repo, htmlDir) {
		for _, d := range af.Decls {
			gd, ok := d.(*ast.GenDecl)
			if !ok || gd.Tok != token.CONST {
				continue
			}
			for _, sp := range gd.Specs {
				vs := sp.(*ast.ValueSpec)
				for i, n := range vs.Names {
					if i < len(vs.Values) {
						if lit, ok := vs.Values[i].(*ast.BasicLit); ok && lit.Kind == token.STRING {
							if v, err := strconv.Unquote(lit.Value); err == nil {
								strConst[n.Name] = v
							}
						}
					}
				}
			}
		}
	}
	var rows, complexTags []string
	tableOK := false
	if fd := f.FuncDecl(htmlDir, "htmlParser.startTag"); fd != nil && fd.Body != nil {
		ast.Inspect(fd.Body, func(n ast.Node) bool {
			sw, ok := n.(*ast.SwitchStmt)
			if !ok || strings.Join(strings.Fields(f.Src(sw.Tag)), "") != "e.tag" {
				return true
			}
			tableOK = true
			for _, cl := range sw.Body.List {
				cc := cl.(*ast.CaseClause)
				var labels []string
				for _, l := range cc.List {
					switch l := l.(type) {
					case *ast.BasicLit:
						if v, err := strconv.Unquote(l.Value); err == nil {
							labels = append(labels, v)
						}
					case *ast.Ident:
						if v, ok := strConst[l.Name]; ok {
							labels = append(labels, v)
						} else {
							tableOK = false
						}
					}
				}
				ctor := ""
				if len(cc.Body) == 1 {
					src := strings.Join(strings.Fields(f.Src(cc.Body[0])), " ")
					if strings.HasPrefix(src, "e.format = entity.") && strings.HasSuffix(src, "()") {
						ctor = strings.TrimSuffix(strings.TrimPrefix(src, "e.format = entity."), "()")
					}
				}
				for _, l := range labels {
					if ctor != "" {
						rows = append(rows, "("+strconv.Quote(l)+", "+strconv.Quote(ctor)+")")
					} else {
						complexTags = append(complexTags, l)
					}
				}
			}
			return false
		})
	}
	if tableOK {
		f.Raw("def simpleTags : List (String × String) := [" + strings.Join(rows, ", ") + "] -- htmlParser.startTag: case label → entity constructor, for clauses that are exactly `e.format = entity.X()`")
		f.Raw("def complexTags : List String := " + leanList(complexTags) + " -- case labels of startTag with more logic (attributes, nesting)")
	} else {
		f.Missing("simpleTags", "switch e.tag in htmlParser.startTag not found or has unresolvable labels")
	}
	// --- which of them the two parsers call (by method name: an over-approximation)
	for _, p := range []struct{ lean, dir string }{{"htmlCalls", htmlDir}, {"mdCalls", mdDir}} {
		seen := map[string]bool{}
		ascii := true
		for _, af := range parseDir(f.Repo, p.dir) {
			ast.Inspect(af, func(n ast.Node) bool {
				c, ok := n.(*ast.CallExpr)
				if !ok {
					return true
				}
				sel, ok := c.Fun.(*ast.SelectorExpr)
				if !ok {
					return true
				}
				if id, ok := sel.X.(*ast.Ident); ok && id.Name == "entity" {
					return true // package-level function of entity (formatter constructors)
				}
				if x, ok := sel.X.(*ast.SelectorExpr); ok && x.Sel.Name == "tokenizer" {
					return true // *html.Tokenizer has its own Raw/Text/Token methods
				}
				m := sel.Sel.Name
				if all[m] {
					seen[m] = true
				} else if gen[m] {
					seen["Format"] = true
				}
				if m == "WriteByte" {
					okArg := false
					if len(c.Args) == 1 {
						if lit, ok := c.Args[0].(*ast.BasicLit); ok && lit.Kind == token.CHAR {
							if s, err := strconv.Unquote(lit.Value); err == nil && len(s) == 1 && s[0] < 0x80 {
								okArg = true
							}
						}
					}
					if !okArg {
						ascii = false
					}
				}
				return true
			})
		}
		var l []string
		for m := range seen {
			l = append(l, m)
		}
		sort.Strings(l)
		f.Raw("def " + p.lean + " : List String := " + leanList(l) + " -- Builder/Token method names called in " + p.dir)
		f.Bool(p.lean+"WriteByteASCII", ascii, "every WriteByte call in "+p.dir+" passes an ASCII character literal")
	}
}

// ---------------------------------------------------------------------------------------------
// trace of builder calls -> model ops

func cps(s string) string {
	if s == "" {
		return "-"
	}
	var p []string
	for _, r := range s {
		p = append(p, strconv.FormatInt(int64(r), 16))
	}
	return strings.Join(p, ".")
}

func kindOf(e tg.MessageEntityClass) string {
	switch e := e.(type) {
	case *tg.MessageEntityBold:
		return "0"
	case *tg.MessageEntityItalic:
		return "1"
	case *tg.MessageEntityUnderline:
		return "2"
	case *tg.MessageEntityStrike:
		return "3"
	case *tg.MessageEntityCode:
		return "4"
	case *tg.MessageEntityPre:
		if e.Language != "" {
			return "5l"
		}
		return "5"
	case *tg.MessageEntityTextURL:
		return "6"
	case *tg.MessageEntitySpoiler:
		return "7"
	case *tg.MessageEntityBlockquote:
		return "8"
	case *tg.MessageEntityMentionName, *tg.InputMessageEntityMentionName:
		return "9"
	case *tg.MessageEntityCustomEmoji:
		return "10"
	case *tg.MessageEntityFormattedDate:
		return "11"
	}
	return "99"
}

func kinds(es []tg.MessageEntityClass) string {
	if len(es) == 0 {
		return "-"
	}
	p := make([]string, len(es))
	for i, e := range es {
		p[i] = kindOf(e)
	}
	return strings.Join(p, ".")
}

type tracer struct {
	ops  []string
	toks [][2]int
	bad  string
}

func (t *tracer) on(_ *entity.Builder, ev entity.VerifC37Event) {
	switch ev.Op {
	case 'W':
		t.ops = append(t.ops, "W:"+cps(ev.Text))
	case 'L': // Plain = WriteString + lastFormatIndex
		if n := len(t.ops); n > 0 && strings.HasPrefix(t.ops[n-1], "W:") {
			t.ops[n-1] = "P:" + t.ops[n-1][2:]
		} else {
			t.bad = "L without a preceding write"
		}
	case 'F': // appendMessage = appendEntities + WriteString(piece)
		if n := len(t.ops); n > 0 && t.ops[n-1] == "W:"+cps(ev.Text) {
			t.ops[n-1] = "F:" + cps(ev.Text) + ":" + kinds(ev.Entities)
		} else {
			t.bad = "F without the write of its piece"
		}
	case 'T':
		t.toks = append(t.toks, [2]int{ev.UTF8, ev.UTF16})
		t.ops = append(t.ops, "T")
	case 'A':
		k := -1
		for i, x := range t.toks {
			if x == [2]int{ev.UTF8, ev.UTF16} {
				k = i
				break
			}
		}
		if k < 0 {
			t.bad = "Apply of a token that was never taken"
			return
		}
		t.ops = append(t.ops, fmt.Sprintf("A:%d:%s", k, kinds(ev.Entities)))
	case 'S':
		t.ops = append(t.ops, "S")
	case 'R':
		t.bad = "Reset during parsing"
	}
}

type outcome struct {
	err    error
	panic  any
	msg    string
	ents   []tg.MessageEntityClass
	ops    []string
	badTr  string
	cpanic any
}

func parseOne(kind string, in []byte, disableEscape bool) (o outcome) {
	var b entity.Builder
	tr := &tracer{}
	entity.VerifC37Trace = tr.on
	func() {
		defer func() {
			if r := recover(); r != nil {
				o.panic = r
			}
		}()
		if kind == "html" {
			o.err = html.HTML(bytes.NewReader(in), &b, html.Options{DisableTelegramEscape: disableEscape})
		} else {
			o.err = markdown.Markdown(bytes.NewReader(in), &b, markdown.Options{})
		}
	}()
	entity.VerifC37Trace = nil
	o.ops, o.badTr = tr.ops, tr.bad
	func() {
		defer func() {
			if r := recover(); r != nil {
				o.cpanic = r
			}
		}()
		o.msg, o.ents = b.Complete()
	}()
	return
}

func showEnts(es []tg.MessageEntityClass) []string {
	out := make([]string, len(es))
	for i, e := range es {
		out[i] = fmt.Sprintf("%d:%d:%s", e.GetOffset(), e.GetLength(), kindOf(e))
	}
	return out
}

func canon(es []string) string {
	if len(es) == 0 {
		return "-"
	}
	type key struct {
		off, ln int
		s       string
	}
	ks := make([]key, len(es))
	for i, e := range es {
		p := strings.Split(e, ":")
		o, _ := strconv.Atoi(p[0])
		l, _ := strconv.Atoi(p[1])
		ks[i] = key{o, l, e}
	}
	sort.SliceStable(ks, func(i, j int) bool {
		if ks[i].off != ks[j].off {
			return ks[i].off < ks[j].off
		}
		if ks[i].ln != ks[j].ln {
			return ks[i].ln > ks[j].ln
		}
		return ks[i].s < ks[j].s
	})
	out := make([]string, len(ks))
	for i, k := range ks {
		out[i] = k.s
	}
	return strings.Join(out, ",")
}

// ---------------------------------------------------------------------------------------------
// inputs

// corpus returns the string literals of the packages' own test files (TDLib HTML corpus,
// parser tests, markdown tests) — read from the working tree, never compiled in.
func corpus(repo, dir string) []string {
	var out []string
	fset := token.NewFileSet()
	ents, _ := os.ReadDir(filepath.Join(repo, dir))
	for _, e := range ents {
		if !strings.HasSuffix(e.Name(), "_test.go") {
			continue
		}
		af, err := parser.ParseFile(fset, filepath.Join(repo, dir, e.Name()), nil, 0)
		if err != nil {
			continue
		}
		ast.Inspect(af, func(n ast.Node) bool {
			if lit, ok := n.(*ast.BasicLit); ok && lit.Kind == token.STRING {
				if s, err := strconv.Unquote(lit.Value); err == nil && len(s) < 4000 {
					out = append(out, s)
				}
			}
			return true
		})
	}
	sort.Strings(out)
	return out
}

var (
	tags    = []string{"b", "strong", "i", "em", "u", "ins", "s", "strike", "del", "a", "pre", "code", "span", "tg-spoiler", "tg-emoji", "blockquote", "tg-time", "p", "div", "br", "script", "textarea", "title", "B", "I"}
	attrs   = []string{"", "", "", ` href="http://example.org"`, ` href="tg://user?id=12345"`, ` href=""`, ` class="language-go"`, ` class="tg-spoiler"`, ` class=""`, ` emoji-id="5368324170671202286"`, ` emoji-id="x"`, ` expandable`, ` unix="1647531900" format="t"`, ` unix="x"`, ` href=http://a.b`, ` href='x`, ` =`}
	texts   = []string{"x", "ab", " ", "  ", "\n", "\t ", "😀", "𝄞", "é", "é", "　", " ", " ", "​", "&lt;", "&gt;", "&amp;", "&quot;", "&laquo;", "&#128512;", "&#x1F600;", "&#0;", "&#xD800;", "&#1114111;", "&#1114112;", "&#", "&#x", "&#x;", "&", "&;", "&lt", "&#12345678;", "http://example.org", "@user", "a b  ", "\r\n"}
	badUTF8 = []string{"\xe2", "\x82\xac", "\xf0\x9f", "\x98\x80", "\xff", "\xc0\xaf", "\xed\xa0\x80", "\x80"}
	mdMarks = []string{"*", "**", "_", "__", "~~", "||", "`", "``", "```", "```go\n", "\n```\n", "[", "](http://example.org)", "](tg://user?id=1)", "](tg://emoji?id=1)", "](tg://time?unix=1&format=t)", "](tg://user?id=x)", "]()", "![", ">", "> ", "\n> ", "\n\n", "\n", "\\", "\\*", "# ", "- ", "1. ", "  \n", "<b>", "&amp;", "    "}
	mdTexts = []string{"x", "ab", " ", "  ", "😀", "𝄞", "é", "é", "　", " ", "word word", "a*b", "snake_case", "\t"}
)

func genSoup(r *hc.RNG, invalid bool) []byte {
	var b []byte
	var open []string
	n := hc.Pick(r, 1, 2, 3, 4, 6, 8, 12, 20)
	for i := 0; i < n; i++ {
		switch r.Intn(10) {
		case 0, 1, 2:
			t := hc.Pick(r, tags...)
			b = append(b, "<"+t+hc.Pick(r, attrs...)+">"...)
			open = append(open, t)
		case 3, 4:
			if len(open) > 0 && r.Chance(80) { // matching close
				b = append(b, "</"+open[len(open)-1]+">"...)
				open = open[:len(open)-1]
			} else {
				b = append(b, hc.Pick(r, "</"+hc.Pick(r, tags...)+">", "</>", "</ >", "</b", "<", "<>", "<!-- c -->", "<!--", "<b/>", "<br/>", "<?x?>", "<![CDATA[x]]>")...)
			}
		default:
			b = append(b, hc.Pick(r, texts...)...)
			if invalid && r.Chance(40) {
				b = append(b, hc.Pick(r, badUTF8...)...)
			}
		}
	}
	if r.Chance(70) {
		for len(open) > 0 {
			if r.Chance(30) {
				b = append(b, hc.Pick(r, " ", "  ", "\n", "　")...)
			}
			b = append(b, "</"+open[len(open)-1]+">"...)
			open = open[:len(open)-1]
		}
	}
	if r.Chance(20) {
		b = append(b, hc.Pick(r, " ", "\n\n", " ")...)
	}
	return b
}

func genMD(r *hc.RNG, invalid bool) []byte {
	var b []byte
	n := hc.Pick(r, 1, 2, 3, 4, 6, 8, 12, 20)
	var open []string
	for i := 0; i < n; i++ {
		switch r.Intn(6) {
		case 0, 1:
			m := hc.Pick(r, mdMarks...)
			b = append(b, m...)
			open = append(open, m)
		case 2:
			if len(open) > 0 {
				b = append(b, open[len(open)-1]...)
				open = open[:len(open)-1]
			}
		default:
			b = append(b, hc.Pick(r, mdTexts...)...)
			if invalid && r.Chance(40) {
				b = append(b, hc.Pick(r, badUTF8...)...)
			}
		}
	}
	if r.Chance(60) {
		for len(open) > 0 {
			b = append(b, open[len(open)-1]...)
			open = open[:len(open)-1]
		}
	}
	if r.Chance(30) {
		b = append(b, hc.Pick(r, " ", "  ", "\n", "\n\n", "　")...)
	}
	return b
}

func mutate(r *hc.RNG, s []byte) []byte {
	b := append([]byte{}, s...)
	switch r.Intn(5) {
	case 0:
		if len(b) > 0 {
			b[r.Intn(len(b))] ^= byte(1 << r.Intn(8))
		}
	case 1:
		b = b[:r.Intn(len(b)+1)]
	case 2:
		at := r.Intn(len(b) + 1)
		ins := hc.Pick(r, "<b>", "</b>", "  ", "&", "<", "*", "\xe2", "\x80", "`", "\n", "</i>", "<i>")
		b = append(b[:at:at], append([]byte(ins), b[at:]...)...)
	case 3:
		if len(b) > 1 {
			a, c := r.Intn(len(b)), r.Intn(len(b))
			if a > c {
				a, c = c, a
			}
			b = append(b[:a:a], b[c:]...)
		}
	case 4:
		b = append(b, b...)
	}
	return b
}

// ---------------------------------------------------------------------------------------------

func run(c *hc.Ctx) error {
	r := c.Rng
	htmlSeeds := corpus(c.Repo, htmlDir)
	mdSeeds := corpus(c.Repo, mdDir)
	c.Note("seed corpus: %d string literals from %s/*_test.go, %d from %s/*_test.go", len(htmlSeeds), htmlDir, len(mdSeeds), mdDir)
	fixed := []struct {
		kind string
		in   string
	}{
		{"html", "<b><i>x  </i></b>"}, {"html", "<b>a<i>x  </i></b>"}, {"html", "<b>x <i> </i></b>"}, {"html", "<i>abc</i><b>x  </b>"},
		{"html", "\xe2<b>\x82\xac</b>"}, {"html", "<b>\xe2</b>\x82\xac"}, {"html", "<b>\xf0\x9f</b>\x98\x80<i>x</i>"},
		{"md", "\xe2**\x82\xac**"}, {"md", "**a _x_**\n\n"}, {"md", "> **x**\n>\n> y  "}, {"md", "```go\nx  \n```"},
	}
	var lines, impls []string
	n := c.N(120000, 1500000)
	nSeeds := len(htmlSeeds) + len(mdSeeds)
	for i := 0; i < n+len(fixed)+nSeeds; i++ {
		var kind string
		var in []byte
		src := ""
		switch {
		case i < len(fixed):
			kind, in, src = fixed[i].kind, []byte(fixed[i].in), "fixed"
		case i < len(fixed)+len(htmlSeeds):
			kind, in, src = "html", []byte(htmlSeeds[i-len(fixed)]), "corpus"
		case i < len(fixed)+nSeeds:
			kind, in, src = "md", []byte(mdSeeds[i-len(fixed)-len(htmlSeeds)]), "corpus"
		default:
			kind = hc.Pick(r, "html", "html", "md")
			seeds := htmlSeeds
			if kind == "md" {
				seeds = mdSeeds
			}
			switch r.Intn(10) {
			case 0, 1, 2, 3:
				src = "soup"
				if kind == "html" {
					in = genSoup(r, false)
				} else {
					in = genMD(r, false)
				}
			case 4:
				src = "soup-invalid-utf8"
				if kind == "html" {
					in = genSoup(r, true)
				} else {
					in = genMD(r, true)
				}
			case 5, 6:
				src = "corpus-mutated"
				if len(seeds) > 0 {
					in = mutate(r, []byte(seeds[r.Intn(len(seeds))]))
				}
			case 7:
				src = "corpus-spliced"
				if len(seeds) > 0 {
					in = append([]byte(seeds[r.Intn(len(seeds))]), seeds[r.Intn(len(seeds))]...)
				}
			case 8:
				src = "random-bytes"
				in = r.Bytes(r.Range(0, 40))
			default:
				src = "soup-mutated"
				if kind == "html" {
					in = mutate(r, genSoup(r, false))
				} else {
					in = mutate(r, genMD(r, false))
				}
			}
		}
		disableEscape := kind == "html" && src != "fixed" && src != "corpus" && r.Chance(15)
		input := kind + " " + hc.Hex(in)
		if disableEscape {
			input = "html-noescape " + hc.Hex(in)
		}
		o := parseOne(kind, in, disableEscape)
		c.Count(kind + "." + src)
		c.Eval(input, o.err == nil && o.panic == nil && len(o.ents) > 0)
		switch {
		case o.panic != nil:
			c.Count(kind + ".result=panic")
			c.Fail("parser-panic", input, fmt.Sprintf("%s panicked: %v", kind, o.panic))
			continue
		case o.err != nil:
			c.Count(kind + ".result=error")
		default:
			c.Count(kind + ".result=ok")
		}
		if o.cpanic != nil {
			c.Fail("complete-panic", input, fmt.Sprintf("Complete() after %s panicked: %v", kind, o.cpanic))
			continue
		}
		if o.err != nil {
			continue // the property allows failing with an error; nothing is promised about the builder then
		}
		c.Count(fmt.Sprintf("entities=%d", min(len(o.ents), 5)))
		// --- monitor
		bad := ""
		total := 0
		if !utf8.ValidString(o.msg) {
			// Not part of the property; the UTF-16 length is then taken as ComputeLength would see the
			// string (invalid bytes decode to U+FFFD).  The replayed call list makes the model's text
			// differ from such a text, so it still surfaces as a correspondence break.
			c.Count("text.invalid-utf8")
		}
		total = len(utf16.Encode([]rune(o.msg)))
		for _, e := range o.ents {
			if e.GetOffset() < 0 || e.GetLength() < 0 || e.GetOffset()+e.GetLength() > total {
				bad = fmt.Sprintf("text %q has %d UTF-16 units, entity %s(offset %d, length %d)", o.msg, total, e.TypeName(), e.GetOffset(), e.GetLength())
				break
			}
		}
		if bad != "" {
			key := "entity-outside-text"
			if !utf8.Valid(in) {
				key = "entity-outside-text-invalid-utf8-input"
			}
			c.Fail(key, input, bad)
		}
		// --- correspondence: replay the recorded builder calls through the model
		if o.badTr != "" {
			c.Differ(input, "trace: "+o.badTr, "", "the parser used the builder in a way the model has no operation for")
			continue
		}
		lines = append(lines, "run "+strings.Join(o.ops, " "))
		impls = append(impls, cps(o.msg)+" "+canon(showEnts(o.ents)))
		ok := "1"
		if bad != "" {
			ok = "0"
		}
		es := "-"
		if len(o.ents) > 0 {
			es = strings.Join(showEnts(o.ents), ",")
		}
		lines = append(lines, "holds "+cps(o.msg)+" "+es)
		impls = append(impls, ok)
		_ = input
	}
	// ---- parser control logic on documents WITHOUT attributes (model: TdModel/Model/C37Html.lean):
	// the real tokenizer's token stream is handed to the model, which predicts text and entities
	plainTags := []string{"b", "strong", "i", "em", "u", "ins", "s", "strike", "del", "tg-spoiler", "code", "pre", "blockquote", "span", "tg-emoji", "tg-time", "p", "div", "x", "B", "Code"}
	for i := 0; i < c.N(15000, 300000); i++ {
		var doc []byte
		var open []string
		for k := hc.Pick(r, 1, 2, 3, 4, 6, 8, 12); k > 0; k-- {
			switch r.Intn(8) {
			case 0, 1, 2:
				t := hc.Pick(r, plainTags...)
				doc = append(doc, "<"+t+">"...)
				open = append(open, t)
			case 3, 4:
				switch {
				case len(open) > 0 && r.Chance(75):
					doc = append(doc, "</"+open[len(open)-1]+">"...)
					open = open[:len(open)-1]
				case r.Chance(40):
					doc = append(doc, "</>"...)
					if len(open) > 0 {
						open = open[:len(open)-1]
					}
				default:
					doc = append(doc, "</"+hc.Pick(r, plainTags...)+">"...)
				}
			default:
				doc = append(doc, hc.Pick(r, "x", "ab", " ", "  ", "\n", "😀", "é", "\u3000", "&lt;", "&amp;", "&#128512;", "&", "a b  ")...)
			}
		}
		if r.Chance(75) {
			for len(open) > 0 {
				doc = append(doc, "</"+open[len(open)-1]+">"...)
				open = open[:len(open)-1]
			}
		}
		// token stream of the real tokenizer, dispatched as htmlParser.parse does
		var toks []string
		tz := xhtml.NewTokenizer(bytes.NewReader(doc))
		for done := false; !done; {
			switch tz.Next() {
			case xhtml.ErrorToken:
				done = true
			case xhtml.TextToken:
				txt := html.VerifC37TelegramUnescape(append([]byte{}, tz.Raw()...))
				toks = append(toks, "X:"+cps(strings.ToValidUTF8(string(txt), "\uFFFD")))
			case xhtml.StartTagToken:
				tn, _ := tz.TagName()
				toks = append(toks, "S:"+hc.Hex(tn))
			case xhtml.EndTagToken:
				tn, _ := tz.TagName()
				toks = append(toks, "E:"+hc.Hex(tn))
			case xhtml.CommentToken:
				if raw := tz.Raw(); len(raw) >= 3 && string(raw[:2]) == "</" && raw[len(raw)-1] == '>' {
					toks = append(toks, "C")
				}
			}
		}
		input := "html " + hc.Hex(doc)
		o := parseOne("html", doc, false)
		c.Eval(input, o.err == nil && len(o.ents) > 0)
		c.Count("html.no-attributes")
		if o.panic != nil || o.cpanic != nil {
			c.Fail("parser-panic", input, fmt.Sprintf("%v %v", o.panic, o.cpanic))
			continue
		}
		lines = append(lines, "htmltoks "+strings.Join(toks, " "))
		if o.err != nil {
			impls = append(impls, "err")
		} else {
			impls = append(impls, cps(o.msg)+" "+canon(showEnts(o.ents)))
		}
	}
	// ---- telegramUnescape on character-reference soups (model: TdModel/Model/C37Unescape.lean)
	refPieces := []string{"&", "&&", "&;", "&#", "&#;", "&#x", "&#X", "&#x;", "&lt", "&lt;", "&gt;", "&amp;", "&amp", "&quot;", "&quot", "&LT;", "&ltx;", "&l", "&laquo;",
		"&#0;", "&#1;", "&#5", "&#5;", "&#55", "&#55;", "&#128512;", "&#x1F600;", "&#X1f600", "&#xD800;", "&#55296;", "&#1114110;", "&#1114111;", "&#1114112;", "&#x10FFFE;", "&#x10ffff;",
		"&#4294967296;", "&#4294967297;", "&#2147483648;", "&#99999999999999999999;", "&#xFFFFFFFFF;", "&#x100000041;", "&#12345678;", "&#x;", "&#xg;", "&#9a;", ";", "#", "x", "a", "9", " ", "<", "é", "😀", "\xff", "\x80"}
	for i := 0; i < c.N(20000, 300000); i++ {
		var in []byte
		if i < len(refPieces) {
			in = []byte(refPieces[i])
		} else {
			for k := hc.Pick(r, 1, 1, 2, 3, 4, 6); k > 0; k-- {
				in = append(in, hc.Pick(r, refPieces...)...)
			}
			if r.Chance(30) {
				in = mutate(r, in)
			}
			if r.Chance(10) {
				in = append(in, r.Bytes(r.Range(0, 6))...)
			}
		}
		input := "unesc " + hc.Hex(in)
		var out []byte
		var pv any
		func() {
			defer func() { pv = recover() }()
			out = html.VerifC37TelegramUnescape(append([]byte{}, in...))
		}()
		c.Eval(input, bytes.IndexByte(in, '&') >= 0)
		c.Count("unescape")
		if pv != nil {
			c.Fail("unescape-panic", input, fmt.Sprintf("telegramUnescape panicked: %v", pv))
			lines = append(lines, input)
			impls = append(impls, "panic")
			continue
		}
		if len(out) > len(in) {
			c.Fail("unescape-grows", input, fmt.Sprintf("output %x is longer than the input (in-place rewrite)", out))
		}
		lines = append(lines, input)
		impls = append(impls, hc.Hex(out))
	}
	c.Res.Rule = "inputs: every string literal of the html and markdown packages' own test files (TDLib HTML corpus included), tag/markup soups over all supported and some unsupported tags with attributes, character references (valid, truncated, out of range), white space and astral text, the same with invalid UTF-8 fragments, one-step mutations (bit flip, truncate, insert, delete, double) and splices of corpus entries, random bytes; 2/3 HTML (15% with DisableTelegramEscape), 1/3 Markdown; telegramUnescape separately on character-reference soups (named, decimal, hex, truncated, overflowing int32, surrogates, out of range); non-trivial = parsed without error and produced at least one entity; distinct = distinct input"
	c.PartialNote("the tokenizers golang.org/x/net/html and github.com/yuin/goldmark are third-party and not modelled: absence of panics inside them (and in telegramUnescape) is exercised under recover(), not proved")
	c.PartialNote("fatal runtime errors (stack exhaustion on pathological nesting) would kill the harness and are reported as a harness failure, not caught by recover()")
	outs, err := c.Drv.Batch(lines)
	if err != nil {
		return err
	}
	for i, o := range outs {
		if strings.HasPrefix(lines[i], "run ") || (strings.HasPrefix(lines[i], "htmltoks ") && o != "err") {
			if p := strings.SplitN(o, " ", 2); len(p) == 2 && p[1] != "-" {
				o = p[0] + " " + canon(strings.Split(p[1], ","))
			}
		}
		if c.Compare(lines[i], impls[i], o) {
			c.Res.TracesValidated++
		}
	}
	return nil
}
