package main

// Facts of C15: (a) the small byte-level helper methods of crypto/srp (saltHash, primary, pbkdf2,
// secondary) are TRANSLATED to Lean definitions over abstract primitives `H` (SHA-256 of a
// concatenation) and `KDF` (pbkdf2.Key … sha512.New); (b) for SRP.Hash the operands of every hash
// call are regenerated as data (`Val`/`Opnd` lists) that the model INTERPRETS, so that hashing a
// different variable (raw srpB instead of the normalised g_b, sa.Bytes() instead of the padded s_a,
// swapped salts, …) changes the model, not only a pinned string.
import (
	"fmt"
	"go/ast"
	"go/token"
	"os"
	"path/filepath"
	"strings"

	"verif/harness/c13facts"
	"verif/harness/c14facts"

	"verif/harness/hc"
)

const srpDir = "crypto/srp"

type bytesTr struct {
	f    *hc.Facts
	done map[string]bool
	fail string
}

func (t *bytesTr) bad(format string, a ...any) string {
	if t.fail == "" {
		t.fail = fmt.Sprintf(format, a...)
	}
	return "[]"
}

func (t *bytesTr) expr(e ast.Expr) string {
	switch x := e.(type) {
	case *ast.Ident:
		return x.Name
	case *ast.BasicLit:
		if x.Kind == token.INT {
			return x.Value
		}
	case *ast.ParenExpr:
		return t.expr(x.X)
	case *ast.CallExpr:
		sel, ok := x.Fun.(*ast.SelectorExpr)
		if !ok {
			break
		}
		recv, _ := sel.X.(*ast.Ident)
		var as []string
		for _, a := range x.Args {
			as = append(as, t.expr(a))
		}
		switch {
		case recv != nil && recv.Name == "s" && sel.Sel.Name == "hash":
			return "(H [" + strings.Join(as, ", ") + "])"
		case recv != nil && recv.Name == "s" && t.done[sel.Sel.Name]:
			return "(" + sel.Sel.Name + "T H KDF " + strings.Join(as, " ") + ")"
		case recv != nil && recv.Name == "pbkdf2" && sel.Sel.Name == "Key" && len(x.Args) == 5:
			return "(KDF " + strings.Join(as[:4], " ") + ")" // the hash constructor is pinned by `pbkdf2Hash`
		}
	case *ast.SelectorExpr: // sha512.New as the last argument of pbkdf2.Key
		return "0"
	}
	return t.bad("unsupported expression %s", t.f.Src(e))
}

// translate a method `func (s SRP) name(params) []byte { return <expr> }`.
func (t *bytesTr) translate(name string) {
	t.fail = ""
	lean := name + "T"
	fd := t.f.FuncDecl(srpDir, "SRP."+name)
	if fd == nil || fd.Body == nil || len(fd.Body.List) != 1 {
		t.f.Missing(lean, "crypto/srp SRP."+name+" not found or not a single return")
		return
	}
	ret, ok := fd.Body.List[0].(*ast.ReturnStmt)
	if !ok || len(ret.Results) != 1 {
		t.f.Missing(lean, "SRP."+name+" is not `return <expr>`")
		return
	}
	var params []string
	for _, fl := range fd.Type.Params.List {
		ty := "List UInt8"
		if isIdentName(fl.Type, "int") {
			ty = "Nat"
		} else if t.f.Src(fl.Type) != "[]byte" {
			t.bad("parameter type %s", t.f.Src(fl.Type))
		}
		for _, n := range fl.Names {
			params = append(params, fmt.Sprintf("(%s : %s)", n.Name, ty))
		}
	}
	body := t.expr(ret.Results[0])
	if t.fail != "" {
		t.f.Missing(lean, "SRP."+name+" is outside the translated subset: "+t.fail)
		return
	}
	src := strings.ReplaceAll(strings.ReplaceAll(t.f.Src(fd), "-/", "- /"), "/-", "/ -")
	t.f.Raw(fmt.Sprintf("/-- translated from crypto/srp SRP.%s:\n```go\n%s\n```\n-/", name, src))
	t.f.Raw(fmt.Sprintf("def %s (H : List (List UInt8) → List UInt8) (KDF : List UInt8 → List UInt8 → Nat → Nat → List UInt8) %s : List UInt8 :=\n  %s",
		lean, strings.Join(params, " "), body))
	t.done[name] = true
}

func isIdentName(e ast.Expr, name string) bool {
	id, ok := e.(*ast.Ident)
	return ok && id.Name == name
}

var valOf = map[string]string{
	"ga[:]": "ga", "gb[:]": "gb", "srpB": "srpB", "i.P": "iP", "gBytes[:]": "gBytes", "i.Salt1": "salt1", "i.Salt2": "salt2",
	"sa[:]": "sa", "sa.Bytes()": "saMin", "ka[:]": "ka", "xorHpHg[:]": "xorHpHg", "password": "password", "random": "random",
}

func (t *bytesTr) val(e ast.Expr) string {
	if v, ok := valOf[t.f.Src(e)]; ok {
		return ".val ." + v
	}
	return ""
}

// opnd: a value, or the SHA-256 of one value (`s.hash(v)` / `sha256.Sum256(v)`).
func (t *bytesTr) opnd(e ast.Expr) string {
	if v := t.val(e); v != "" {
		return v
	}
	if c, ok := e.(*ast.CallExpr); ok && len(c.Args) == 1 {
		if sel, ok := c.Fun.(*ast.SelectorExpr); ok && (sel.Sel.Name == "hash" || sel.Sel.Name == "Sum256") {
			if v := t.val(c.Args[0]); v != "" {
				return ".hashed ." + strings.TrimPrefix(v, ".val .")
			}
		}
	}
	return fmt.Sprintf(".unknown %q", t.f.Src(e))
}

func (t *bytesTr) opnds(es []ast.Expr) string {
	var xs []string
	for _, e := range es {
		xs = append(xs, t.opnd(e))
	}
	return "[" + strings.Join(xs, ", ") + "]"
}

// unwrap s.bigFromBytes(x) → x
func unwrapBig(e ast.Expr) ast.Expr {
	if c, ok := e.(*ast.CallExpr); ok && len(c.Args) == 1 {
		if sel, ok := c.Fun.(*ast.SelectorExpr); ok && sel.Sel.Name == "bigFromBytes" {
			return c.Args[0]
		}
	}
	return e
}

func callArgs(e ast.Expr, name string) ([]ast.Expr, bool) {
	c, ok := e.(*ast.CallExpr)
	if !ok {
		return nil, false
	}
	switch fn := c.Fun.(type) {
	case *ast.SelectorExpr:
		return c.Args, fn.Sel.Name == name
	case *ast.Ident:
		return c.Args, fn.Name == name
	}
	return nil, false
}

// depFacts: the model of C15 imports the models of C13 (CheckDH) and C14 (big-endian helpers); their
// generated fact files are regenerated here as well, so that `./check C15` alone sees the current source
// of those packages too (written next to this property's own -out file).
func depFacts(f *hc.Facts) {
	out := ""
	for i, a := range os.Args {
		if a == "-out" && i+1 < len(os.Args) {
			out = os.Args[i+1]
		}
	}
	if out == "" {
		return
	}
	for _, d := range []struct {
		prop string
		gen  func(*hc.Facts)
	}{{"C13", c13facts.Facts}, {"C14", c14facts.Facts}} {
		g := hc.NewFacts(d.prop, f.Repo)
		d.gen(g)
		if err := g.Write(filepath.Join(filepath.Dir(out), d.prop+".lean")); err != nil {
			fmt.Fprintln(os.Stderr, "facts of", d.prop, ":", err)
			os.Exit(2)
		}
	}
}

func facts(f *hc.Facts) {
	depFacts(f)
	t := &bytesTr{f: f, done: map[string]bool{}}
	for _, m := range []string{"saltHash", "primary", "pbkdf2", "secondary"} {
		t.translate(m)
	}
	// the hash constructor given to pbkdf2.Key
	hashFn := ""
	if fd := f.FuncDecl(srpDir, "SRP.pbkdf2"); fd != nil {
		ast.Inspect(fd.Body, func(n ast.Node) bool {
			if a, ok := n.(*ast.CallExpr); ok {
				if as, ok := callArgs(a, "Key"); ok && len(as) == 5 {
					hashFn = f.Src(as[4])
				}
			}
			return true
		})
	}
	f.Str("pbkdf2Hash", hashFn, "hash constructor given to pbkdf2.Key")

	f.Raw("/-- named byte strings of SRP.Hash -/")
	f.Raw("inductive Val where\n  | ga | gb | srpB | iP | gBytes | salt1 | salt2 | sa | saMin | ka | xorHpHg | password | random\n  deriving DecidableEq, Repr")
	f.Raw("/-- an operand of a hash call: a value, the SHA-256 of a value, or something the extractor does not know -/")
	f.Raw("inductive Opnd where\n  | val (v : Val) | hashed (v : Val) | unknown (src : String)\n  deriving DecidableEq, Repr")
	want := map[string]bool{"u": true, "k": true, "ka": true, "xorHpHg": true, "M1": true, "gb": true, "t": true, "x": true, "sa": true}
	got := map[string]bool{}
	if fd := f.FuncDecl(srpDir, "SRP.Hash"); fd != nil && fd.Body != nil {
		for _, st := range fd.Body.List {
			as, ok := st.(*ast.AssignStmt)
			if !ok || len(as.Rhs) != 1 {
				continue
			}
			id, ok := as.Lhs[0].(*ast.Ident)
			if !ok || !want[id.Name] || got[id.Name] {
				continue
			}
			rhs := as.Rhs[0]
			switch id.Name {
			case "u", "k":
				if args, ok := callArgs(unwrapBig(rhs), "hash"); ok {
					f.Raw(fmt.Sprintf("def %sOperands : List Opnd := %s -- %s := %s", id.Name, t.opnds(args), id.Name, oneLine(f.Src(rhs))))
					got[id.Name] = true
				}
			case "M1":
				if args, ok := callArgs(rhs, "hash"); ok {
					f.Raw(fmt.Sprintf("def m1Operands : List Opnd := %s -- M1 := %s", t.opnds(args), oneLine(f.Src(rhs))))
					got["M1"] = true
				}
			case "ka":
				if args, ok := callArgs(rhs, "Sum256"); ok && len(args) == 1 {
					f.Raw(fmt.Sprintf("def kaOperand : Opnd := %s -- ka := %s", t.opnd(args[0]), oneLine(f.Src(rhs))))
					got["ka"] = true
				}
			case "xorHpHg":
				if args, ok := callArgs(rhs, "xor32"); ok && len(args) == 2 {
					f.Raw(fmt.Sprintf("def xorOperands : List Opnd := %s -- xorHpHg := %s", t.opnds(args), oneLine(f.Src(rhs))))
					got["xorHpHg"] = true
				}
			case "gb":
				if args, ok := callArgs(rhs, "pad256"); ok && len(args) == 1 {
					f.Raw(fmt.Sprintf("def gbSource : Opnd := %s -- gb := %s", t.opnd(args[0]), oneLine(f.Src(rhs))))
					got["gb"] = true
				}
			case "t":
				if args, ok := callArgs(rhs, "bigFromBytes"); ok && len(args) == 1 {
					f.Raw(fmt.Sprintf("def tSource : Opnd := %s -- t := %s", t.opnd(args[0]), oneLine(f.Src(rhs))))
					got["t"] = true
				}
			case "x": // x, v := s.computeXV(password, i.Salt1, i.Salt2, g, p)
				if args, ok := callArgs(rhs, "computeXV"); ok && len(args) == 5 {
					f.Raw(fmt.Sprintf("def xvOperands : List Opnd := %s -- x, v := %s", t.opnds(args[:3]), oneLine(f.Src(rhs))))
					f.Str("xvGroupArgs", f.Src(args[3])+", "+f.Src(args[4]), "last two arguments of computeXV")
					got["x"] = true
				}
			case "sa": // sa, ok := s.pad256FromBig(s.bigExp(t, u.Mul(u, x).Add(u, a), p))   (or without the padding call)
				e := rhs
				if args, ok := callArgs(rhs, "pad256FromBig"); ok && len(args) == 1 {
					e = args[0]
				}
				if args, ok := callArgs(e, "bigExp"); ok && len(args) == 3 {
					f.Str("saExpr", oneLine(f.Src(e)), "s_a := … in SRP.Hash")
					got["sa"] = true
				}
			}
		}
	}
	names := map[string]string{"u": "uOperands", "k": "kOperands", "M1": "m1Operands", "ka": "kaOperand", "xorHpHg": "xorOperands", "gb": "gbSource", "t": "tSource", "x": "xvOperands", "sa": "saExpr"}
	for _, k := range []string{"u", "k", "M1", "ka", "xorHpHg", "gb", "t", "x", "sa"} {
		if !got[k] {
			f.Missing(names[k], "assignment to "+k+" in SRP.Hash not in the expected shape")
		}
	}
	// computeXV: x = SetBytes(s.secondary(password, clientSalt, serverSalt)), v = Exp(g, x, p)
	xv := ""
	if fd := f.FuncDecl(srpDir, "SRP.computeXV"); fd != nil && fd.Body != nil {
		xv = oneLine(f.Src(fd.Body))
	}
	f.Str("computeXVBody", xv, "body of SRP.computeXV")
}

func oneLine(s string) string { return strings.Join(strings.Fields(s), " ") }
