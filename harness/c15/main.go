// C15 — 2FA SRP answers: correspondence of srp.SRP.Hash and srp.SRP.NewHash with the Lean model TdModel.C15 (A and M1
// byte exact; PH1 against an independent computation), plus the property monitor: an independent
// server-side verifier accepts the answer exactly when the password is the verifier's password,
// and invalid groups are refused.
package main

import (
	"bytes"
	"crypto/sha256"
	"crypto/sha512"
	"fmt"
	"math/big"
	"strings"
	"sync"
	"time"

	"golang.org/x/crypto/pbkdf2"

	"github.com/gotd/td/crypto"
	"github.com/gotd/td/crypto/srp"

	"verif/harness/hc"
)

func main() {
	hc.Main(hc.Spec{Prop: "C15", Facts: facts, Run: run})
}

// ---------------------------------------------------------------------------------------------
// independent reference (server role), written against the SRP documentation only

func h(parts ...[]byte) []byte {
	s := sha256.New()
	for _, p := range parts {
		s.Write(p)
	}
	return s.Sum(nil)
}

func sh(data, salt []byte) []byte { return h(salt, data, salt) }

func ph1(pw, s1, s2 []byte) []byte { return sh(sh(pw, s1), s2) }

func pbk(ph1, s1 []byte) []byte { return pbkdf2.Key(ph1, s1, 100000, 64, sha512.New) }

func pad(n *big.Int) []byte {
	b := make([]byte, 256)
	n.FillBytes(b)
	return b
}

// account: what the server stores for one user (group, salts, verifier v) plus what the harness needs to
// play both sides cheaply.  PBKDF2 depends on (password, salts) only: it is computed once per account
// (and once for the account's wrong password) and reused for every session of that account.
type account struct {
	p, g, v, x, k, kv *big.Int
	gi                int
	pBytes            []byte
	pw, s1, s2        []byte
	kd                []byte // PBKDF2 output for pw
	wrongPw, wrongKd  []byte
}

func newAccount(p *big.Int, g int, pw, s1, s2, wrongPw []byte) *account {
	G := big.NewInt(int64(g))
	kd := pbk(ph1(pw, s1, s2), s1)
	x := new(big.Int).SetBytes(sh(kd, s2))
	v := new(big.Int).Exp(G, x, p)
	k := new(big.Int).SetBytes(h(pad(p), pad(G)))
	kv := new(big.Int).Mul(k, v)
	kv.Mod(kv, p)
	return &account{p: p, g: G, v: v, x: x, k: k, kv: kv, gi: g, pBytes: p.Bytes(), pw: pw, s1: s1, s2: s2, kd: kd,
		wrongPw: wrongPw, wrongKd: pbk(ph1(wrongPw, s1, s2), s1)}
}

// B = (k·v + g^b) mod p for server secret b.
func (a *account) B(b *big.Int) *big.Int {
	gb := new(big.Int).Exp(a.g, b, a.p)
	return gb.Add(gb, a.kv).Mod(gb, a.p)
}

// serverS = (A · v^u)^b mod p with u = H(pad A | pad B).
func (a *account) serverS(A, B, b *big.Int) (S, u *big.Int) {
	u = new(big.Int).SetBytes(h(pad(A), pad(B)))
	S = new(big.Int).Exp(a.v, u, a.p)
	S.Mul(S, A).Mod(S, a.p).Exp(S, b, a.p)
	return S, u
}

// accepts: the verifier's decision for the answer (A, M1) of a session with server secret b.
func (a *account) accepts(b *big.Int, A, M1 []byte) bool {
	An := new(big.Int).SetBytes(A)
	B := a.B(b)
	S, _ := a.serverS(An, B, b)
	K := h(pad(S))
	hp, hg := h(pad(a.p)), h(pad(a.g))
	x := make([]byte, 32)
	for i := range x {
		x[i] = hp[i] ^ hg[i]
	}
	return bytes.Equal(M1, h(x, h(a.s1), h(a.s2), pad(An), pad(B), K))
}

// zeroBytes: number of leading zero bytes of n in its 2048-bit big-endian form.
func zeroBytes(n *big.Int) int { return 256 - (n.BitLen()+7)/8 }

func euler(g int64, p *big.Int) bool {
	e := new(big.Int).Rsh(new(big.Int).Sub(p, big.NewInt(1)), 1)
	return new(big.Int).Exp(big.NewInt(g), e, p).Cmp(big.NewInt(1)) == 0
}

func bit(b bool) string {
	if b {
		return "1"
	}
	return "0"
}

type cmp struct{ line, impl string }

func run(c *hc.Ctx) error {
	r := c.Rng
	var cs []cmp
	sps := hc.SafePrimes2048()
	one := big.NewInt(1)

	call := func(pw, srpB, random []byte, in srp.Input) (ans srp.Answer, out string) {
		defer func() {
			if rec := recover(); rec != nil {
				out = fmt.Sprintf("panic:%v", rec)
			}
		}()
		a, err := srp.NewSRP(bytes.NewReader(nil)).Hash(pw, srpB, random, in)
		if err != nil {
			switch {
			case strings.Contains(err.Error(), "validate algo"):
				return a, "err bad-group"
			case strings.Contains(err.Error(), "g_a is too big"):
				return a, "err ga-too-big"
			case strings.Contains(err.Error(), "s_a is too big"):
				return a, "err sa-too-big"
			}
			return a, "err other:" + err.Error()
		}
		return a, "ok"
	}
	genBytes := func(kind string) []byte {
		switch kind {
		case "pw":
			return hc.Pick(r, []byte("123123"), []byte(""), []byte("пароль"), r.Bytes(r.Range(1, 40)), bytes.Repeat([]byte("a"), r.Range(60, 200)))
		case "salt1":
			return r.Bytes(hc.Pick(r, 40, 8, 0, 32, 64, r.Range(1, 80)))
		default:
			return r.Bytes(hc.Pick(r, 16, 8, 0, 32, r.Range(1, 40)))
		}
	}
	// generators allowed by the residue rule, decided independently of the implementation (Euler's criterion)
	validGs := func(p *big.Int) []int {
		var ok []int
		for g := 2; g <= 7; g++ {
			if euler(int64(g), p) {
				ok = append(ok, g)
			}
		}
		return ok
	}
	validG := func(p *big.Int) int {
		ok := validGs(p)
		return ok[r.Intn(len(ok))]
	}
	// a valid group for a given generator: the production prime when it allows g, else a table prime
	groupFor := func(g int, preferProduction bool) *big.Int {
		if preferProduction && euler(int64(g), sps[0]) {
			return sps[0]
		}
		start := 1 + r.Intn(len(sps)-1)
		for k := 0; k < len(sps); k++ {
			p := sps[1+(start+k)%(len(sps)-1)]
			if euler(int64(g), p) {
				return p
			}
		}
		return nil
	}

	t0 := time.Now()
	// ---- 1. honest sessions.  Accounts (group, generator, password, salts; PBKDF2 once each) ...
	nAcc := c.N(6, 18) // every generator 2..7 that the residue rule allows gets an account
	var accs []*account
	for i := 0; i < nAcc; i++ {
		g := 2 + i%6
		p := groupFor(g, i < 6)
		if p == nil {
			continue
		}
		pw, s1, s2 := genBytes("pw"), genBytes("salt1"), genBytes("salt2")
		wrong := append(append([]byte{}, pw...), byte('x'))
		if r.Bool() && len(pw) > 0 {
			wrong = append([]byte{}, pw...)
			wrong[r.Intn(len(wrong))] ^= 1 << uint(r.Intn(8))
		}
		accs = append(accs, newAccount(p, g, pw, s1, s2, wrong))
		c.Count(fmt.Sprintf("account.g=%d", g))
	}
	nAcc = len(accs)
	// an account whose k = H(p | g) starts with a zero byte, if the table has one
	for _, p := range sps {
		for g := 2; g <= 7; g++ {
			if euler(int64(g), p) && h(pad(p), pad(big.NewInt(int64(g))))[0] == 0 && len(accs) == nAcc {
				accs = append(accs, newAccount(p, g, genBytes("pw"), genBytes("salt1"), genBytes("salt2"), []byte("wrong")))
				c.Count("account.k-with-leading-zero-byte")
			}
		}
	}
	// ... and MANY sessions per account: (client secret a, server secret b) pairs, random and *searched*
	// so that the big integers that get padded/normalised (s_a, g_a, B = g_b, u) have leading zero bytes.
	type job struct {
		acc   *account
		a     []byte   // `random`
		b     *big.Int // server secret
		srpB  []byte   // B as delivered (255/256/257-byte forms)
		wrong bool
		kind  string
		ans   srp.Answer
		out   string
	}
	var jobs []*job
	shortB := func() *big.Int { return new(big.Int).SetBytes(r.Bytes(32)) } // server's choice; keeps the search cheap
	deliver := func(B *big.Int, form int) []byte {
		switch form {
		case 0:
			return pad(B) // 256 bytes
		case 1:
			return B.Bytes() // minimal big-endian (255 or fewer bytes when B has leading zero bytes)
		default:
			return append([]byte{0}, pad(B)...) // 257 bytes: sign/zero byte in front
		}
	}
	addJob := func(acc *account, a []byte, b *big.Int, form int, wrong bool, kind string) {
		jobs = append(jobs, &job{acc: acc, a: a, b: b, srpB: deliver(acc.B(b), form), wrong: wrong, kind: kind})
	}
	searchLimit := 400000
	// (i) random sessions, 1/3 with the wrong password
	for i := 0; i < c.N(24, 400); i++ {
		acc := accs[r.Intn(len(accs))]
		a := r.Bytes(hc.Pick(r, 256, 256, 256, 32, 1, 300))
		b := new(big.Int).SetBytes(r.Bytes(hc.Pick(r, 256, 32)))
		addJob(acc, a, b, hc.Pick(r, 0, 0, 1, 2), r.Chance(33), "random")
	}
	// (ii) s_a with nz leading zero bytes: fixed a, search b
	saSearch := func(acc *account, nz int) bool {
		a := r.Bytes(hc.Pick(r, 256, 32))
		A := new(big.Int).Exp(acc.g, new(big.Int).SetBytes(a), acc.p)
		for t := 0; t < searchLimit; t++ {
			b := shortB()
			S, _ := acc.serverS(A, acc.B(b), b)
			if zeroBytes(S) >= nz {
				addJob(acc, a, b, hc.Pick(r, 0, 0, 1, 2), false, fmt.Sprintf("s_a-%d-leading-zero-bytes", zeroBytes(S)))
				return true
			}
		}
		return false
	}
	for i := 0; i < c.N(8, 60); i++ {
		saSearch(accs[i%len(accs)], 1)
	}
	// (iii) g_a = A with leading zero bytes: tiny secrets (a = 0, 1, 2: A = 1, g, g²) and searched ones
	for _, a := range [][]byte{{}, {0}, {1}, {2}, {0, 0, 3}} {
		addJob(accs[r.Intn(len(accs))], a, shortB(), r.Intn(3), false, "g_a-tiny-secret")
	}
	gaSearch := func(acc *account, nz int) {
		for t := 0; t < searchLimit; t++ {
			a := r.Bytes(8)
			if A := new(big.Int).Exp(acc.g, new(big.Int).SetBytes(a), acc.p); zeroBytes(A) >= nz {
				addJob(acc, a, shortB(), r.Intn(3), false, fmt.Sprintf("g_a-%d-leading-zero-bytes", zeroBytes(A)))
				return
			}
		}
	}
	for i := 0; i < c.N(4, 24); i++ {
		gaSearch(accs[i%len(accs)], 1)
	}
	// (iv) B = g_b with leading zero bytes, delivered in all three forms
	bSearch := func(acc *account, nz int) {
		for t := 0; t < searchLimit; t++ {
			b := shortB()
			if B := acc.B(b); zeroBytes(B) >= nz {
				a := r.Bytes(hc.Pick(r, 256, 32))
				for form := 0; form < 3; form++ {
					addJob(acc, a, b, form, false, fmt.Sprintf("B-%d-leading-zero-bytes.form%d", zeroBytes(B), form))
				}
				return
			}
		}
	}
	for i := 0; i < c.N(3, 20); i++ {
		bSearch(accs[i%len(accs)], 1)
	}
	// (v) u = H(g_a | g_b) with a leading zero byte
	for i := 0; i < c.N(3, 20); i++ {
		acc := accs[i%len(accs)]
		a := r.Bytes(32)
		A := new(big.Int).Exp(acc.g, new(big.Int).SetBytes(a), acc.p)
		for t := 0; t < searchLimit; t++ {
			b := shortB()
			if _, u := acc.serverS(A, acc.B(b), b); u.BitLen() <= 248 {
				addJob(acc, a, b, r.Intn(3), false, "u-leading-zero-byte")
				break
			}
		}
	}
	// (vi) two leading zero bytes (1 in 65536): thorough only
	if c.Thorough() {
		saSearch(accs[0], 2)
		gaSearch(accs[1], 2)
		bSearch(accs[2], 2)
	}
	c.Note("time: accounts + directed searches %.1fs", time.Since(t0).Seconds())
	t0 = time.Now()
	// run the implementation on all sessions (8 workers: each call costs 2×64 Miller–Rabin rounds on the
	// 2048-bit modulus plus one PBKDF2; results are consumed in generation order)
	{
		var wg sync.WaitGroup
		ch := make(chan *job)
		for w := 0; w < 8; w++ {
			wg.Add(1)
			go func() {
				defer wg.Done()
				for j := range ch {
					pw := j.acc.pw
					if j.wrong {
						pw = j.acc.wrongPw
					}
					j.ans, j.out = call(pw, j.srpB, j.a, srp.Input{Salt1: j.acc.s1, Salt2: j.acc.s2, G: j.acc.gi, P: j.acc.pBytes})
				}
			}()
		}
		for _, j := range jobs {
			ch <- j
		}
		close(ch)
		wg.Wait()
	}
	c.Note("time: %d implementation calls (8 workers) %.1fs", len(jobs), time.Since(t0).Seconds())
	full := c.N(2, 12) // answers for which the Lean model runs PBKDF2 itself (100000 iterations)
	for i, j := range jobs {
		acc := j.acc
		cpw, ckd := acc.pw, acc.kd
		if j.wrong {
			cpw, ckd = acc.wrongPw, acc.wrongKd
		}
		line := fmt.Sprintf("srpk %d %s 1 1 %s %s %s %s %s %s", acc.gi, hc.Hex(acc.pBytes), hc.Hex(cpw), hc.Hex(acc.s1), hc.Hex(acc.s2), hc.Hex(j.srpB), hc.Hex(j.a), hc.Hex(ckd))
		if i < full {
			line = fmt.Sprintf("srp %d %s 1 1 %s %s %s %s %s", acc.gi, hc.Hex(acc.pBytes), hc.Hex(cpw), hc.Hex(acc.s1), hc.Hex(acc.s2), hc.Hex(j.srpB), hc.Hex(j.a))
			c.Count("model-runs-pbkdf2")
		}
		c.Eval(line, true)
		c.Count("session." + j.kind)
		c.Count(fmt.Sprintf("B-delivered-as-%d-bytes", min(len(j.srpB), 257)))
		if j.out != "ok" {
			c.Fail("srp-valid-group-refused", line, j.out)
			cs = append(cs, cmp{line, j.out})
			continue
		}
		acc2 := acc.accepts(j.b, j.ans.A, j.ans.M1)
		kind := "right-password"
		if j.wrong {
			kind = "wrong-password"
		}
		c.Count(fmt.Sprintf("verifier.%s.accepted=%v", kind, acc2))
		if acc2 == j.wrong {
			c.Fail("srp-verifier", line, fmt.Sprintf("%s, %s, B delivered as %d bytes: independent verifier accepted=%v", kind, j.kind, len(j.srpB), acc2))
		}
		if len(j.ans.A) != 256 || len(j.ans.M1) != 32 {
			c.Fail("srp-answer-shape", line, fmt.Sprintf("len(A)=%d len(M1)=%d", len(j.ans.A), len(j.ans.M1)))
		}
		cs = append(cs, cmp{line, fmt.Sprintf("ok %s %s %s", hc.Hex(j.ans.A), hc.Hex(j.ans.M1), hc.Hex(ph1(cpw, acc.s1, acc.s2)))})
	}

	// ---- 2. arbitrary server values B (not produced by a verifier): correspondence only
	for i := 0; i < c.N(6, 100); i++ {
		p := sps[r.Intn(len(sps))]
		g := validG(p)
		pw, s1, s2 := genBytes("pw"), genBytes("salt1"), genBytes("salt2")
		var srpB []byte
		switch r.Intn(5) {
		case 0:
			srpB = r.Bytes(256)
		case 1:
			srpB = r.Bytes(r.Range(0, 255))
		case 2:
			srpB = pad(big.NewInt(int64(r.Intn(3))))
		case 3:
			srpB = pad(new(big.Int).Sub(p, big.NewInt(int64(r.Intn(3)))))
		default:
			srpB = bytes.Repeat([]byte{0xff}, 256)
		}
		random := r.Bytes(hc.Pick(r, 256, 0, 1, 64))
		kd := pbk(ph1(pw, s1, s2), s1)
		ans, out := call(pw, srpB, random, srp.Input{Salt1: s1, Salt2: s2, G: g, P: p.Bytes()})
		line := fmt.Sprintf("srpk %d %s 1 1 %s %s %s %s %s %s", g, hc.Hex(p.Bytes()), hc.Hex(pw), hc.Hex(s1), hc.Hex(s2), hc.Hex(srpB), hc.Hex(random), hc.Hex(kd))
		c.Eval(line, true)
		c.Count("arbitrary-B." + strings.SplitN(out, " ", 2)[0])
		if out == "ok" {
			out = fmt.Sprintf("ok %s %s %s", hc.Hex(ans.A), hc.Hex(ans.M1), hc.Hex(ph1(pw, s1, s2)))
		}
		cs = append(cs, cmp{line, out})
	}

	// ---- 3. invalid groups must be refused
	for i := 0; i < c.N(10, 120); i++ {
		sp := sps[r.Intn(len(sps))]
		p, g, kind := sp, 3, ""
		switch r.Intn(7) {
		case 0:
			kind, g = "g-not-in-2..7", hc.Pick(r, 0, 1, 8, -3, 24)
		case 1:
			kind = "g-not-a-residue"
			for g = 2; g <= 7 && euler(int64(g), p); g++ {
			}
			if g > 7 {
				continue
			}
		case 2:
			kind, p = "p+2", new(big.Int).Add(sp, big.NewInt(2))
		case 3:
			kind, p = "2047-bit prime", new(big.Int).Rsh(sp, 1)
		case 4:
			kind, p = "2049-bit", new(big.Int).Add(new(big.Int).Lsh(sp, 1), one)
		case 5:
			kind = "prime-not-safe"
			q := new(big.Int).SetBit(new(big.Int).SetBytes(r.Bytes(256)), 2047, 1)
			q.SetBit(q, 0, 1)
			for !q.ProbablyPrime(8) {
				q.Add(q, big.NewInt(2))
			}
			p = q
		default:
			kind, p = "random-2048-bit", new(big.Int).SetBit(new(big.Int).SetBytes(r.Bytes(256)), 2047, 1)
		}
		if kind != "g-not-in-2..7" && kind != "g-not-a-residue" {
			g = hc.Pick(r, 2, 3, 4, 5, 6, 7)
		}
		pr1 := crypto.Prime(p)
		pr2 := crypto.Prime(new(big.Int).Quo(new(big.Int).Sub(p, one), big.NewInt(2)))
		safe := p.BitLen() == 2048 && p.ProbablyPrime(20) && new(big.Int).Rsh(p, 1).ProbablyPrime(20)
		valid := safe && g >= 2 && g <= 7 && euler(int64(g), p)
		pw, s1, s2 := genBytes("pw"), genBytes("salt1"), genBytes("salt2")
		srpB, random := r.Bytes(256), r.Bytes(256)
		_, out := call(pw, srpB, random, srp.Input{Salt1: s1, Salt2: s2, G: g, P: p.Bytes()})
		line := fmt.Sprintf("srpk %d %s %s %s %s %s %s %s %s %s", g, hc.Hex(p.Bytes()), bit(pr1), bit(pr2), hc.Hex(pw), hc.Hex(s1), hc.Hex(s2), hc.Hex(srpB), hc.Hex(random), hc.Hex(make([]byte, 64)))
		c.Eval(line, true)
		c.Count("invalid-group." + kind + "." + out)
		if !valid && out != "err bad-group" {
			c.Fail("srp-invalid-group-accepted", line, kind+": "+out)
		}
		if valid { // (a random candidate happened to be valid: cannot happen in practice)
			continue
		}
		cs = append(cs, cmp{line, out})
	}

	// ---- 3a. genuine safe-prime groups of the wrong size (1024..2056 bits) with a generator the residue rule
	// allows: everything but the size is right, they must be refused
	for _, p := range hc.SafePrimesOffSize() {
		pr1 := crypto.Prime(p)
		pr2 := crypto.Prime(new(big.Int).Rsh(p, 1))
		gs := validGs(p)
		if !c.Thorough() && len(gs) > 2 {
			gs = []int{gs[0], gs[len(gs)-1]}
		}
		for _, g := range gs {
			pw, s1, s2 := genBytes("pw"), genBytes("salt1"), genBytes("salt2")
			srpB, random := r.Bytes(256), r.Bytes(256)
			_, out := call(pw, srpB, random, srp.Input{Salt1: s1, Salt2: s2, G: g, P: p.Bytes()})
			line := fmt.Sprintf("srpk %d %s %s %s %s %s %s %s %s %s", g, hc.Hex(p.Bytes()), bit(pr1), bit(pr2), hc.Hex(pw), hc.Hex(s1), hc.Hex(s2), hc.Hex(srpB), hc.Hex(random), hc.Hex(make([]byte, 64)))
			c.Eval(line, true)
			c.Count(fmt.Sprintf("invalid-group.safe-prime-%d-bits.%s", p.BitLen(), out))
			if out != "err bad-group" {
				c.Fail("srp-invalid-group-accepted", line, fmt.Sprintf("%d-bit safe prime group with valid generator %d: %s", p.BitLen(), g, out))
			}
			cs = append(cs, cmp{line, out})
		}
	}

	// ---- 3b. SRP.NewHash (setting a new password): (padded verifier, salt1 ‖ 32 random bytes); then a login
	// against the stored hash with the same password must be accepted
	for i := 0; i < c.N(4, 40); i++ {
		p := sps[r.Intn(len(sps))]
		g := validG(p)
		pw, s1, s2 := genBytes("pw"), genBytes("salt1"), genBytes("salt2")
		tl := 32
		if r.Chance(15) {
			tl = r.Intn(32)
		}
		tape := r.Bytes(tl + r.Intn(3))
		in := srp.Input{Salt1: s1, Salt2: s2, G: g, P: p.Bytes()}
		var hash, salt []byte
		out := func() (o string) {
			defer func() {
				if rec := recover(); rec != nil {
					o = fmt.Sprintf("panic:%v", rec)
				}
			}()
			h, ns, err := srp.NewSRP(bytes.NewReader(tape)).NewHash(pw, in)
			if err != nil {
				if strings.Contains(err.Error(), "validate algo") {
					return "err bad-group"
				}
				return "err tape"
			}
			hash, salt = h, ns
			return "ok"
		}()
		kd := make([]byte, 64)
		if len(tape) >= 32 {
			kd = pbk(ph1(pw, append(append([]byte{}, s1...), tape[:32]...), s2), append(append([]byte{}, s1...), tape[:32]...))
		}
		line := fmt.Sprintf("newhash %d %s 1 1 %s %s %s %s %s", g, hc.Hex(p.Bytes()), hc.Hex(pw), hc.Hex(s1), hc.Hex(s2), hc.Hex(tape), hc.Hex(kd))
		c.Eval(line, true)
		c.Count("newhash." + out)
		if out == "ok" {
			newSalt := append(append([]byte{}, s1...), tape[:32]...)
			acc := newAccount(p, g, pw, newSalt, s2, []byte("x"))
			if !bytes.Equal(salt, newSalt) || !bytes.Equal(hash, pad(acc.v)) {
				c.Fail("srp-newhash-not-spec", line, fmt.Sprintf("NewHash = (%s, %s), specification gives (%s, %s)", hc.Hex(hash), hc.Hex(salt), hc.Hex(pad(acc.v)), hc.Hex(newSalt)))
			}
			// login against the stored hash
			acc.v = new(big.Int).SetBytes(hash)
			acc.kv = new(big.Int).Mod(new(big.Int).Mul(acc.k, acc.v), p)
			b := new(big.Int).SetBytes(r.Bytes(32))
			ans, o2 := call(pw, pad(acc.B(b)), r.Bytes(256), srp.Input{Salt1: salt, Salt2: s2, G: g, P: p.Bytes()})
			if o2 != "ok" || !acc.accepts(b, ans.A, ans.M1) {
				c.Fail("srp-newhash-login", line, "login with the same password against the hash returned by NewHash was not accepted: "+o2)
			}
			out = fmt.Sprintf("ok %s %s %s", hc.Hex(hash), hc.Hex(salt), hc.Hex(ph1(pw, newSalt, s2)))
		} else if len(tape) >= 32 {
			c.Fail("srp-newhash-refused", line, out)
		}
		cs = append(cs, cmp{line, out})
	}

	// ---- 4. non-canonical modulus bytes (leading zero): outside the property's quantifier, reported as a note
	{
		p := sps[0]
		g := validG(p)
		pw, s1, s2 := []byte("123123"), r.Bytes(40), r.Bytes(16)
		acc := newAccount(p, g, pw, s1, s2, []byte("x"))
		bb := new(big.Int).SetBytes(r.Bytes(256))
		kd := acc.kd
		srpB, random := pad(acc.B(bb)), r.Bytes(256)
		pz := append([]byte{0}, p.Bytes()...)
		ans, out := call(pw, srpB, random, srp.Input{Salt1: s1, Salt2: s2, G: g, P: pz})
		line := fmt.Sprintf("srpk %d %s 1 1 %s %s %s %s %s %s", g, hc.Hex(pz), hc.Hex(pw), hc.Hex(s1), hc.Hex(s2), hc.Hex(srpB), hc.Hex(random), hc.Hex(kd))
		if out == "ok" {
			c.Note("observation (outside the quantifier): modulus bytes with a leading zero byte pass CheckDH but H(p) is taken over the raw 257 bytes; independent verifier accepted=%v", acc.accepts(bb, ans.A, ans.M1))
			out = fmt.Sprintf("ok %s %s %s", hc.Hex(ans.A), hc.Hex(ans.M1), hc.Hex(ph1(pw, s1, s2)))
		}
		c.Count("noncanonical-p")
		cs = append(cs, cmp{line, out})
	}

	c.Res.Rule = "honest SRP sessions against an independent server-side verifier (password verifier v, secret b, B = k·v + g^b): random passwords (ASCII, UTF-8, empty, long), salts of 0..80 bytes, client secrets of 1..300 bytes, production group and the fixed table of 2048-bit safe-prime groups with a valid generator, 35% wrong passwords (appended byte / one flipped bit); arbitrary B values; invalid groups (g outside 2..7, non-residue g, p+2, 2047/2049 bits, non-safe prime, random); every case is non-trivial; distinct = distinct request line"
	c.PartialNote("rejection of a wrong password is conditional on SHA-256/PBKDF2 collision resistance: exercised against an independent verifier, proved only in the direction same password ⇒ accepted")
	c.PartialNote("PBKDF2 (100000 iterations) is executed by the Lean model for a few answers only; for the others its output is an input of the model (PH1, the PBKDF2 input, is still compared)")

	lines := make([]string, len(cs))
	for i, x := range cs {
		lines[i] = x.line
	}
	t0 = time.Now()
	outs, err := c.Drv.Batch(lines)
	if err != nil {
		return err
	}
	c.Note("time: model driver %.1fs", time.Since(t0).Seconds())
	for i, o := range outs {
		if c.Compare(cs[i].line, cs[i].impl, o) {
			c.Res.TracesValidated++
		}
	}
	return nil
}
