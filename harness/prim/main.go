// Command prim validates the executable Lean primitive library (lean/TdModel/Prim/*, driver
// drv_prim) against Go's standard library: known-answer vectors plus PRNG-chosen inputs with
// lengths around every block boundary.  It prints the first mismatch and exits non-zero.
//
//	prim [-driver path] [-seed n] [-tier quick|thorough] [-only op,op,…] [-v]
//
// Exit codes: 0 all answers agree, 1 mismatch, 2 driver/usage problem.
package main

import (
	"bytes"
	"crypto/aes"
	"crypto/cipher"
	"crypto/hmac"
	"crypto/md5"
	"crypto/sha1"
	"crypto/sha256"
	"crypto/sha512"
	"encoding/hex"
	"flag"
	"fmt"
	"hash"
	"hash/crc32"
	"math/big"
	"os"
	"strconv"
	"strings"
	"time"

	"golang.org/x/crypto/pbkdf2"

	"verif/harness/hc"
)

type tcase struct {
	line string // request line
	want string // Go's answer
	kat  bool
}

type suite struct {
	op    string
	cases []tcase
}

func (s *suite) add(want string, kat bool, args ...string) {
	s.cases = append(s.cases, tcase{line: s.op + " " + strings.Join(args, " "), want: want, kat: kat})
}

var (
	thorough bool
	rng      *hc.RNG
)

func n(quick, thor int) int {
	if thorough {
		return thor
	}
	return quick
}

func unhex(s string) []byte {
	b, err := hex.DecodeString(s)
	if err != nil {
		panic(err)
	}
	return b
}

// boundary lengths: around the 64-byte (MD5/SHA-1/SHA-256) and 128-byte (SHA-512) block and
// length-field boundaries.
var boundary = []int{0, 1, 2, 3, 4, 7, 8, 9, 15, 16, 17, 31, 32, 33, 54, 55, 56, 57, 62, 63, 64, 65, 66,
	110, 111, 112, 113, 118, 119, 120, 121, 126, 127, 128, 129, 130, 183, 184, 191, 192, 193,
	239, 240, 247, 248, 255, 256, 257, 1000, 4095, 4096, 4097}

func hashInputs() [][]byte {
	var in [][]byte
	for _, l := range boundary {
		in = append(in, rng.Bytes(l))
		// structured content too: all-zero and all-ff inputs catch sign/carry slips
		if l > 0 && l <= 257 {
			in = append(in, bytes.Repeat([]byte{0}, l), bytes.Repeat([]byte{0xff}, l))
		}
	}
	for i := 0; i < n(200, 2000); i++ {
		in = append(in, rng.Bytes(rng.Intn(600)))
	}
	for i := 0; i < n(3, 20); i++ {
		in = append(in, rng.Bytes(rng.Range(5000, 70000)))
	}
	in = append(in, rng.Bytes(1<<20))
	if thorough {
		in = append(in, rng.Bytes(1<<20+1), rng.Bytes(1<<20-9), rng.Bytes(3<<20+77))
	}
	return in
}

type kat struct{ in, out string }

var million = strings.Repeat("a", 1000000)

const (
	msg448 = "abcdbcdecdefdefgefghfghighijhijkijkljklmklmnlmnomnopnopq"
	msg896 = "abcdefghbcdefghicdefghijdefghijkefghijklfghijklmghijklmnhijklmnoijklmnopjklmnopqklmnopqrlmnopqrsmnopqrstnopqrstu"
)

func hashSuite(op string, f func([]byte) []byte, kats []kat) *suite {
	s := &suite{op: op}
	for _, k := range kats {
		got := hex.EncodeToString(f([]byte(k.in)))
		if got != k.out {
			fail(2, "reference self-check failed for %s KAT %.20q: Go gives %s, vector says %s", op, k.in, got, k.out)
		}
		s.add(k.out, true, hc.Hex([]byte(k.in)))
	}
	for _, in := range hashInputs() {
		s.add(hc.Hex(f(in)), false, hc.Hex(in))
	}
	return s
}

func sha256Suite() *suite {
	return hashSuite("sha256", func(b []byte) []byte { h := sha256.Sum256(b); return h[:] }, []kat{
		{"", "e3b0c44298fc1c149afbf4c8996fb92427ae41e4649b934ca495991b7852b855"},
		{"abc", "ba7816bf8f01cfea414140de5dae2223b00361a396177a9cb410ff61f20015ad"},
		{msg448, "248d6a61d20638b8e5c026930c3e6039a33ce45964ff2167f6ecedd419db06c1"},
		{msg896, "cf5b16a778af8380036ce59e7b0492370b249b11e8f07a51afac45037afee9d1"},
		{million, "cdc76e5c9914fb9281a1c7e284d73e67f1809a48a497200e046d39ccc7112cd0"},
	})
}

func sha1Suite() *suite {
	return hashSuite("sha1", func(b []byte) []byte { h := sha1.Sum(b); return h[:] }, []kat{
		{"", "da39a3ee5e6b4b0d3255bfef95601890afd80709"},
		{"abc", "a9993e364706816aba3e25717850c26c9cd0d89d"},
		{msg448, "84983e441c3bd26ebaae4aa1f95129e5e54670f1"},
		{msg896, "a49b2446a02c645bf419f995b67091253a04a259"},
		{million, "34aa973cd4c4daa4f61eeb2bdbad27316534016f"},
	})
}

func sha512Suite() *suite {
	return hashSuite("sha512", func(b []byte) []byte { h := sha512.Sum512(b); return h[:] }, []kat{
		{"", "cf83e1357eefb8bdf1542850d66d8007d620e4050b5715dc83f4a921d36ce9ce47d0d13c5d85f2b0ff8318d2877eec2f63b931bd47417a81a538327af927da3e"},
		{"abc", "ddaf35a193617abacc417349ae20413112e6fa4e89a97ea20a9eeee64b55d39a2192992a274fc1a836ba3c23a3feebbd454d4423643ce80e2a9ac94fa54ca49f"},
		{msg448, "204a8fc6dda82f0a0ced7beb8e08a41657c16ef468b228a8279be331a703c33596fd15c13b1b07f9aa1d3bea57789ca031ad85c7a71dd70354ec631238ca3445"},
		{msg896, "8e959b75dae313da8cf4f72814fc143f8f7779c6eb9f7fa17299aeadb6889018501d289e4900f7e4331b99dec4b5433ac7d329eeb6dd26545e96e55b874be909"},
		{million, "e718483d0ce769644e2e42c7bc15b4638e1f98b13b2044285632a803afa973ebde0ff244877ea60a4cb0432ce577c31beb009c5c2c49aa2e4eadb217ad8cc09b"},
	})
}

func md5Suite() *suite {
	return hashSuite("md5", func(b []byte) []byte { h := md5.Sum(b); return h[:] }, []kat{
		{"", "d41d8cd98f00b204e9800998ecf8427e"},
		{"a", "0cc175b9c0f1b6a831c399e269772661"},
		{"abc", "900150983cd24fb0d6963f7d28e17f72"},
		{"message digest", "f96b697d7cb7938d525a2f31aaf161d0"},
		{"abcdefghijklmnopqrstuvwxyz", "c3fcd3d76192e4007dfb496cca67e13b"},
		{"12345678901234567890123456789012345678901234567890123456789012345678901234567890", "57edf4a22be3c955ac49da2e2107b67a"},
	})
}

func crc32Suite() *suite {
	s := &suite{op: "crc32"}
	for _, k := range []struct {
		in  string
		out uint32
	}{{"", 0}, {"a", 0xe8b7be43}, {"123456789", 0xcbf43926}, {"The quick brown fox jumps over the lazy dog", 0x414fa339}} {
		if crc32.ChecksumIEEE([]byte(k.in)) != k.out {
			fail(2, "reference self-check failed for crc32 KAT %q", k.in)
		}
		s.add(strconv.FormatUint(uint64(k.out), 10), true, hc.Hex([]byte(k.in)))
	}
	for _, in := range hashInputs() {
		s.add(strconv.FormatUint(uint64(crc32.ChecksumIEEE(in)), 10), false, hc.Hex(in))
	}
	return s
}

func aesRef(key []byte) cipher.Block {
	b, err := aes.NewCipher(key)
	if err != nil {
		panic(err)
	}
	return b
}

func aesKeys() [][]byte {
	keys := [][]byte{make([]byte, 32), bytes.Repeat([]byte{0xff}, 32)}
	for i := 0; i < n(40, 400); i++ {
		keys = append(keys, rng.Bytes(32))
	}
	return keys
}

func aesBlockSuites() (*suite, *suite) {
	enc, dec := &suite{op: "aesenc"}, &suite{op: "aesdec"}
	// FIPS-197 C.3 and NIST SP 800-38A F.1.5 (ECB-AES256), first block.
	for _, k := range []struct{ key, pt, ct string }{
		{"000102030405060708090a0b0c0d0e0f101112131415161718191a1b1c1d1e1f", "00112233445566778899aabbccddeeff", "8ea2b7ca516745bfeafc49904b496089"},
		{"603deb1015ca71be2b73aef0857d77811f352c073b6108d72d9810a30914dff4", "6bc1bee22e409f96e93d7e117393172a", "f3eed1bdb5d2a03c064b5a7e3db181f8"},
		{"603deb1015ca71be2b73aef0857d77811f352c073b6108d72d9810a30914dff4", "ae2d8a571e03ac9c9eb76fac45af8e51", "591ccb10d410ed26dc5ba74a31362870"},
	} {
		out := make([]byte, 16)
		aesRef(unhex(k.key)).Encrypt(out, unhex(k.pt))
		if hex.EncodeToString(out) != k.ct {
			fail(2, "reference self-check failed for AES KAT %s", k.key)
		}
		enc.add(k.ct, true, k.key, k.pt)
		dec.add(k.pt, true, k.key, k.ct)
	}
	for _, key := range aesKeys() {
		blk := aesRef(key)
		for j := 0; j < 6; j++ {
			var in []byte
			switch j {
			case 0:
				in = make([]byte, 16)
			case 1:
				in = bytes.Repeat([]byte{0xff}, 16)
			default:
				in = rng.Bytes(16)
			}
			out := make([]byte, 16)
			blk.Encrypt(out, in)
			enc.add(hex.EncodeToString(out), false, hex.EncodeToString(key), hex.EncodeToString(in))
			dec.add(hex.EncodeToString(in), false, hex.EncodeToString(key), hex.EncodeToString(out))
			// and decryption of an arbitrary block (not known to be a ciphertext of anything chosen)
			blk.Decrypt(out, in)
			dec.add(hex.EncodeToString(out), false, hex.EncodeToString(key), hex.EncodeToString(in))
		}
	}
	return enc, dec
}

func ctrRef(key, iv []byte, skip int, data []byte) []byte {
	st := cipher.NewCTR(aesRef(key), iv)
	if skip > 0 {
		d := make([]byte, skip)
		st.XORKeyStream(d, d)
	}
	out := make([]byte, len(data))
	st.XORKeyStream(out, data)
	return out
}

func aesCtrSuite() *suite {
	s := &suite{op: "aesctr"}
	// NIST SP 800-38A F.5.5 CTR-AES256.Encrypt (4 blocks).
	{
		key := "603deb1015ca71be2b73aef0857d77811f352c073b6108d72d9810a30914dff4"
		iv := "f0f1f2f3f4f5f6f7f8f9fafbfcfdfeff"
		pt := "6bc1bee22e409f96e93d7e117393172aae2d8a571e03ac9c9eb76fac45af8e5130c81c46a35ce411e5fbc1191a0a52eff69f2445df4f9b17ad2b417be66c3710"
		ct := "601ec313775789a5b7a7f504bbf3d228f443e3ca4d62b59aca84e990cacaf5c52b0930daa23de94ce87017ba2d84988ddfc9c58db67aada613c2dd08457941a6"
		if hex.EncodeToString(ctrRef(unhex(key), unhex(iv), 0, unhex(pt))) != ct {
			fail(2, "reference self-check failed for AES-CTR KAT")
		}
		s.add(ct, true, key, iv, "0", pt)
		s.add(ct[64:], true, key, iv, "32", pt[64:])
		s.add(ct[34:], true, key, iv, "17", pt[34:])
	}
	ivs := func() []byte {
		switch rng.Intn(6) {
		case 0:
			return bytes.Repeat([]byte{0xff}, 16) // wraps to zero after the first block
		case 1:
			iv := rng.Bytes(16)
			copy(iv[8:], bytes.Repeat([]byte{0xff}, 8)) // carry into the high half
			iv[15] = byte(0xff - rng.Intn(3))
			return iv
		case 2:
			iv := rng.Bytes(16)
			iv[15], iv[14] = byte(0xfe+rng.Intn(2)), 0xff // carry across bytes
			return iv
		case 3:
			return make([]byte, 16)
		}
		return rng.Bytes(16)
	}
	skips := []int{0, 0, 0, 1, 15, 16, 17, 31, 32, 33, 47, 48, 100, 255, 256, 257, 4095, 4096, 4097}
	lens := []int{0, 1, 2, 15, 16, 17, 31, 32, 33, 47, 48, 49, 63, 64, 65, 100, 255, 256, 257, 1000, 1024}
	add := func(skip, l int) {
		key, iv, data := rng.Bytes(32), ivs(), rng.Bytes(l)
		s.add(hc.Hex(ctrRef(key, iv, skip, data)), false, hex.EncodeToString(key), hex.EncodeToString(iv), strconv.Itoa(skip), hc.Hex(data))
	}
	for _, sk := range skips {
		for _, l := range lens {
			if thorough || rng.Chance(50) {
				add(sk, l)
			}
		}
	}
	for i := 0; i < n(100, 1000); i++ {
		add(rng.Intn(70000), rng.Intn(300))
	}
	add(0, 65536)
	add(12345, 65537)
	if thorough {
		add(1<<20+5, 1<<20+3)
	}
	return s
}

func hmacSuites() (*suite, *suite) {
	s256, s512 := &suite{op: "hmac256"}, &suite{op: "hmac512"}
	mac := func(h func() hash.Hash, key, msg []byte) []byte {
		m := hmac.New(h, key)
		m.Write(msg)
		return m.Sum(nil)
	}
	// RFC 4231 test cases 1, 2, 3, 6 (key longer than the block), 7.
	for _, k := range []struct{ key, msg, o256, o512 string }{
		{strings.Repeat("0b", 20), hex.EncodeToString([]byte("Hi There")),
			"b0344c61d8db38535ca8afceaf0bf12b881dc200c9833da726e9376c2e32cff7",
			"87aa7cdea5ef619d4ff0b4241a1d6cb02379f4e2ce4ec2787ad0b30545e17cdedaa833b7d6b8a702038b274eaea3f4e4be9d914eeb61f1702e696c203a126854"},
		{hex.EncodeToString([]byte("Jefe")), hex.EncodeToString([]byte("what do ya want for nothing?")),
			"5bdcc146bf60754e6a042426089575c75a003f089d2739839dec58b964ec3843",
			"164b7a7bfcf819e2e395fbe73b56e0a387bd64222e831fd610270cd7ea2505549758bf75c05a994a6d034f65f8f0e6fdcaeab1a34d4a6b4b636e070a38bce737"},
		{strings.Repeat("aa", 20), strings.Repeat("dd", 50),
			"773ea91e36800e46854db8ebd09181a72959098b3ef8c122d9635514ced565fe",
			"fa73b0089d56a284efb0f0756c890be9b1b5dbdd8ee81a3655f83e33b2279d39bf3e848279a722c806b485a47e67c807b946a337bee8942674278859e13292fb"},
		{strings.Repeat("aa", 131), hex.EncodeToString([]byte("Test Using Larger Than Block-Size Key - Hash Key First")),
			"60e431591ee0b67f0d8a26aacbf5b77f8e0bc6213728c5140546040f0ee37f54",
			"80b24263c7c1a3ebb71493c1dd7be8b49b46d1f41b4aeec1121b013783f8f3526b56d037e05f2598bd0fd2215d6a1e5295e64f73f63f0aec8b915a985d786598"},
		{strings.Repeat("aa", 131), hex.EncodeToString([]byte("This is a test using a larger than block-size key and a larger than block-size data. The key needs to be hashed before being used by the HMAC algorithm.")),
			"9b09ffa71b942fcb27635fbcd5b0e944bfdc63644f0713938a7f51535c3a35e2",
			"e37b6a775dc87dbaa4dfa9f96e5e3ffddebd71f8867289865df5a32d20cdc944b6022cac3c4982b10d5eeb55c3e4de15134676fb6de0446065c97440fa8c6a58"},
	} {
		if hex.EncodeToString(mac(sha256.New, unhex(k.key), unhex(k.msg))) != k.o256 ||
			hex.EncodeToString(mac(sha512.New, unhex(k.key), unhex(k.msg))) != k.o512 {
			fail(2, "reference self-check failed for HMAC KAT key=%.16s…", k.key)
		}
		s256.add(k.o256, true, k.key, k.msg)
		s512.add(k.o512, true, k.key, k.msg)
	}
	keyLens := []int{0, 1, 16, 31, 32, 33, 63, 64, 65, 66, 100, 127, 128, 129, 130, 200, 300}
	for _, kl := range keyLens {
		for _, ml := range boundary {
			if !thorough && !rng.Chance(30) {
				continue
			}
			key, msg := rng.Bytes(kl), rng.Bytes(ml)
			s256.add(hex.EncodeToString(mac(sha256.New, key, msg)), false, hc.Hex(key), hc.Hex(msg))
			s512.add(hex.EncodeToString(mac(sha512.New, key, msg)), false, hc.Hex(key), hc.Hex(msg))
		}
	}
	for i := 0; i < n(200, 2000); i++ {
		key, msg := rng.Bytes(rng.Intn(300)), rng.Bytes(rng.Intn(600))
		s256.add(hex.EncodeToString(mac(sha256.New, key, msg)), false, hc.Hex(key), hc.Hex(msg))
		s512.add(hex.EncodeToString(mac(sha512.New, key, msg)), false, hc.Hex(key), hc.Hex(msg))
	}
	return s256, s512
}

func pbkdf2Suite() *suite {
	s := &suite{op: "pbkdf2"}
	add := func(kat bool, pw, salt []byte, iters, dk int) {
		s.add(hex.EncodeToString(pbkdf2.Key(pw, salt, iters, dk, sha512.New)), kat, hc.Hex(pw), hc.Hex(salt), strconv.Itoa(iters), strconv.Itoa(dk))
	}
	// Widely published PBKDF2-HMAC-SHA512 vectors ("password"/"salt").
	for _, k := range []struct {
		pw, salt  string
		iters, dk int
		out       string
	}{
		{"password", "salt", 1, 64, "867f70cf1ade02cff3752599a3a53dc4af34c7a669815ae5d513554e1c8cf252c02d470a285a0501bad999bfe943c08f050235d7d68b1da55e63f73b60a57fce"},
		{"password", "salt", 2, 64, "e1d9c16aa681708a45f5c7c4e215ceb66e011a2e9f0040713f18aefdb866d53cf76cab2868a39b9f7840edce4fef5a82be67335c77a6068e04112754f27ccf4e"},
		{"password", "salt", 4096, 64, "d197b1b33db0143e018b12f3d1d1479e6cdebdcc97c5c0f87f6902e072f457b5143f30602641b3d55cd335988cb36b84376060ecd532e039b742a239434af2d5"},
		{"passwordPASSWORDpassword", "saltSALTsaltSALTsaltSALTsaltSALTsalt", 4096, 64, "8c0511f4c6e597c6ac6315d8f0362e225f3c501495ba23b868c005174dc4ee71115b59f9e60cd9532fa33e0f75aefe30225c583a186cd82bd4daea9724a3d3b8"},
	} {
		if hex.EncodeToString(pbkdf2.Key([]byte(k.pw), []byte(k.salt), k.iters, k.dk, sha512.New)) != k.out {
			fail(2, "reference self-check failed for PBKDF2 KAT %q/%d", k.pw, k.iters)
		}
		add(true, []byte(k.pw), []byte(k.salt), k.iters, k.dk)
	}
	for _, dk := range []int{1, 20, 63, 64, 65, 127, 128, 129, 200} {
		for _, it := range []int{1, 2, 3, 10, 100} {
			add(false, rng.Bytes(rng.Intn(40)), rng.Bytes(rng.Intn(40)), it, dk)
		}
	}
	for _, l := range []int{0, 1, 111, 112, 127, 128, 129, 200, 300} { // password / salt around the SHA-512 block
		add(false, rng.Bytes(l), rng.Bytes(16), 5, 64)
		add(false, rng.Bytes(16), rng.Bytes(l), 5, 64)
	}
	for i := 0; i < n(30, 300); i++ {
		add(false, rng.Bytes(rng.Intn(200)), rng.Bytes(rng.Intn(200)), rng.Range(1, 300), rng.Range(1, 150))
	}
	// Telegram's SRP password hash: 100000 iterations, 64 bytes.
	add(false, rng.Bytes(32), rng.Bytes(40), 100000, 64)
	return s
}

func randBig(bits int) *big.Int {
	if bits == 0 {
		return new(big.Int)
	}
	b := rng.Bytes((bits + 7) / 8)
	b[0] &= byte(0xff >> uint(len(b)*8-bits))
	if rng.Chance(80) {
		b[0] |= byte(1 << uint((bits-1)%8)) // exact bit length most of the time
	}
	return new(big.Int).SetBytes(b)
}

func numSuites() []*suite {
	mp := &suite{op: "modpow"}
	add := func(kat bool, b, e, m *big.Int) {
		var mm *big.Int
		if m.Sign() != 0 {
			mm = m
		}
		mp.add(new(big.Int).Exp(b, e, mm).String(), kat, b.String(), e.String(), m.String())
	}
	bi := func(s string) *big.Int { v, _ := new(big.Int).SetString(s, 10); return v }
	add(true, bi("2"), bi("10"), bi("1000"))
	add(true, bi("4"), bi("13"), bi("497")) // = 445
	add(true, bi("0"), bi("0"), bi("7"))    // = 1
	add(true, bi("0"), bi("0"), bi("1"))    // = 0
	add(true, bi("5"), bi("0"), bi("1"))
	add(true, bi("0"), bi("5"), bi("13"))
	add(true, bi("3"), bi("7"), bi("0")) // modulus 0: plain power, as math/big
	add(true, bi("7"), bi("0"), bi("0"))
	sizes := []int{0, 1, 2, 8, 31, 32, 33, 63, 64, 65, 127, 128, 129, 256, 1024, 2047, 2048, 2049}
	for i := 0; i < n(300, 3000); i++ {
		m := randBig(hc.Pick(rng, sizes...))
		if m.Sign() == 0 {
			m.SetInt64(int64(rng.Range(1, 3)))
		}
		add(false, randBig(hc.Pick(rng, sizes...)), randBig(hc.Pick(rng, sizes...)), m)
	}
	for i := 0; i < n(20, 200); i++ { // the DH shape: 2048-bit everything, odd (prime-like) and even moduli
		m := randBig(2048)
		if rng.Bool() {
			m.SetBit(m, 0, 1)
		}
		add(false, randBig(2048), randBig(2048), m)
	}
	for i := 0; i < 20; i++ { // modulus 0 with small operands
		add(false, randBig(rng.Intn(40)), big.NewInt(int64(rng.Intn(30))), new(big.Int))
	}

	ofbe, tobe, tomin := &suite{op: "natofbe"}, &suite{op: "nattobe"}, &suite{op: "nattobemin"}
	for i := 0; i < n(300, 3000); i++ {
		l := hc.Pick(rng, 0, 1, 2, 7, 8, 9, 16, 32, 255, 256, 257)
		b := rng.Bytes(l)
		if l > 0 && rng.Chance(30) {
			z := rng.Intn(l + 1)
			copy(b, make([]byte, z)) // leading zeros
		}
		v := new(big.Int).SetBytes(b)
		ofbe.add(v.String(), false, hc.Hex(b))
		tomin.add(hc.Hex(v.Bytes()), false, v.String())
		// fixed length: exact, longer (left padded) and shorter (high bytes dropped: value mod 256^len)
		for _, fl := range []int{l, l + rng.Intn(5), rng.Intn(l + 1)} {
			r := new(big.Int).Mod(v, new(big.Int).Lsh(big.NewInt(1), uint(8*fl)))
			tobe.add(hc.Hex(r.FillBytes(make([]byte, fl))), false, strconv.Itoa(fl), v.String())
		}
	}
	return []*suite{mp, ofbe, tobe, tomin}
}

func fail(code int, f string, a ...any) {
	fmt.Fprintf(os.Stderr, "prim: "+f+"\n", a...)
	os.Exit(code)
}

func clip(s string) string {
	if len(s) > 300 {
		return fmt.Sprintf("%s…(%d chars)", s[:300], len(s))
	}
	return s
}

func main() {
	driver := flag.String("driver", "/verif/lean/.lake/build/bin/drv_prim", "path of the Lean drv_prim executable")
	seed := flag.Uint64("seed", 0, "PRNG seed (default $VERIF_SEED or 1)")
	tier := flag.String("tier", "quick", "quick|thorough")
	only := flag.String("only", "", "comma separated ops to check (default all)")
	verbose := flag.Bool("v", false, "print per-op timings")
	flag.Parse()
	if *seed == 0 {
		*seed = 1
		if v, err := strconv.ParseUint(os.Getenv("VERIF_SEED"), 10, 64); err == nil && v != 0 {
			*seed = v
		}
	}
	thorough = *tier == "thorough"
	want := map[string]bool{}
	for _, o := range strings.Split(*only, ",") {
		if o != "" {
			want[o] = true
		}
	}

	// Each suite draws from its own fork so that `-only` does not change the inputs of an op.
	root := hc.NewRNG(*seed)
	mk := func(f func() []*suite) []*suite { rng = root.Fork(); return f() }
	one := func(f func() *suite) func() []*suite { return func() []*suite { return []*suite{f()} } }
	two := func(f func() (*suite, *suite)) func() []*suite {
		return func() []*suite { a, b := f(); return []*suite{a, b} }
	}
	var suites []*suite
	for _, g := range []func() []*suite{one(sha256Suite), one(sha1Suite), two(aesBlockSuites), one(aesCtrSuite),
		two(hmacSuites), one(sha512Suite), one(pbkdf2Suite), one(md5Suite), one(crc32Suite), numSuites} {
		suites = append(suites, mk(g)...)
	}

	drv, err := hc.StartDriver(*driver)
	if err != nil {
		fail(2, "cannot start driver %s: %v", *driver, err)
	}
	defer drv.Close()

	total := 0
	for _, s := range suites {
		if len(want) > 0 && !want[s.op] {
			continue
		}
		lines := make([]string, len(s.cases))
		for i, c := range s.cases {
			lines[i] = c.line
		}
		t0 := time.Now()
		got, err := drv.Batch(lines)
		if err != nil {
			fail(2, "%s: driver: %v", s.op, err)
		}
		kats := 0
		for i, c := range s.cases {
			if got[i] != c.want {
				kind := "random"
				if c.kat {
					kind = "known-answer"
				}
				fmt.Printf("MISMATCH op=%s case=%d (%s) seed=%d\n  request: %s\n  go:      %s\n  lean:    %s\n", s.op, i, kind, *seed, clip(c.line), clip(c.want), clip(got[i]))
				os.Exit(1)
			}
			if c.kat {
				kats++
			}
		}
		total += len(s.cases)
		if *verbose {
			fmt.Printf("ok %-10s %5d cases (%d known-answer) %v\n", s.op, len(s.cases), kats, time.Since(t0).Round(time.Millisecond))
		} else {
			fmt.Printf("ok %-10s %5d cases (%d known-answer)\n", s.op, len(s.cases), kats)
		}
	}
	if total == 0 {
		fail(2, "no op selected")
	}
	fmt.Printf("prim: all %d answers agree with Go (seed %d, tier %s)\n", total, *seed, *tier)
}
