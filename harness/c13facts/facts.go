// Package c13facts regenerates the Lean facts of property C13 from /repo/crypto (switch table of
// CheckGP, translated InRange / CheckDHParams, translated pieces of DecomposePQ, …).  It is a library so
// that the checks of properties whose models import the C13 model (C15) regenerate these facts too.
package c13facts

import (
	"fmt"
	"go/ast"
	"go/token"
	"strconv"
	"strings"

	"verif/harness/hc"
)

// ---------------------------------------------------------------------------------------------
// facts

func lit(e ast.Expr) (string, bool) {
	if b, ok := e.(*ast.BasicLit); ok && b.Kind == token.INT {
		v, err := strconv.ParseInt(b.Value, 0, 64)
		if err == nil && v >= 0 {
			return strconv.FormatInt(v, 10), true
		}
	}
	return "", false
}

func isIdent(e ast.Expr, name string) bool {
	id, ok := e.(*ast.Ident)
	return ok && id.Name == name
}

// callNamed returns the arguments of a call `name(args…)` or `x.name(args…)`.
func callNamed(e ast.Expr, name string) ([]ast.Expr, bool) {
	c, ok := e.(*ast.CallExpr)
	if !ok {
		return nil, false
	}
	switch f := c.Fun.(type) {
	case *ast.Ident:
		return c.Args, f.Name == name
	case *ast.SelectorExpr:
		return c.Args, f.Sel.Name == name
	}
	return nil, false
}

// gpTable reads the `switch g` of CheckGP: case value → none (`result = true`) or
// some (divider, residues) (`result = checkSubgroup(p, divider, residues…)`).
func gpTable(f *hc.Facts) (string, bool) {
	fd := f.FuncDecl("crypto", "CheckGP")
	if fd == nil || fd.Body == nil {
		return "", false
	}
	var sw *ast.SwitchStmt
	for _, s := range fd.Body.List {
		if x, ok := s.(*ast.SwitchStmt); ok && isIdent(x.Tag, "g") {
			sw = x
		}
	}
	if sw == nil {
		return "", false
	}
	var rows []string
	for _, s := range sw.Body.List {
		cc := s.(*ast.CaseClause)
		if cc.List == nil {
			continue // default: error (modelled as "no row")
		}
		if len(cc.Body) != 1 {
			return "", false
		}
		as, ok := cc.Body[0].(*ast.AssignStmt)
		if !ok || len(as.Lhs) != 1 || len(as.Rhs) != 1 || !isIdent(as.Lhs[0], "result") {
			return "", false
		}
		var rhs string
		if isIdent(as.Rhs[0], "true") {
			rhs = "none"
		} else if args, ok := callNamed(as.Rhs[0], "checkSubgroup"); ok && len(args) >= 2 && isIdent(args[0], "p") {
			d, ok := lit(args[1])
			if !ok {
				return "", false
			}
			var rs []string
			for _, a := range args[2:] {
				r, ok := lit(a)
				if !ok {
					return "", false
				}
				rs = append(rs, r)
			}
			rhs = fmt.Sprintf("some (%s, [%s])", d, strings.Join(rs, ", "))
		} else {
			return "", false
		}
		for _, e := range cc.List {
			v, ok := lit(e)
			if !ok {
				return "", false
			}
			rows = append(rows, fmt.Sprintf("(%s, %s)", v, rhs))
		}
	}
	return "[" + strings.Join(rows, ", ") + "]", true
}

// intExpr evaluates literal / package constant / a±b.
func intExpr(f *hc.Facts, e ast.Expr) (int64, bool) {
	switch x := e.(type) {
	case *ast.BasicLit:
		s, ok := lit(x)
		if !ok {
			return 0, false
		}
		v, _ := strconv.ParseInt(s, 10, 64)
		return v, true
	case *ast.Ident:
		s, ok := f.ConstInt("crypto", x.Name)
		if !ok {
			return 0, false
		}
		v, err := strconv.ParseInt(s, 10, 64)
		return v, err == nil
	case *ast.ParenExpr:
		return intExpr(f, x.X)
	case *ast.BinaryExpr:
		a, ok1 := intExpr(f, x.X)
		b, ok2 := intExpr(f, x.Y)
		if !ok1 || !ok2 {
			return 0, false
		}
		switch x.Op {
		case token.ADD:
			return a + b, true
		case token.SUB:
			return a - b, true
		}
	}
	return 0, false
}

// pqFacts: the size of the random words drawn by DecomposePQ (`rndMax = 1 << 64`); everything else of the
// function is translated by pqtr.go.
func pqFacts(f *hc.Facts) {
	fd := f.FuncDecl("crypto", "DecomposePQ")
	rndBits := ""
	if fd != nil && fd.Body != nil {
		ast.Inspect(fd.Body, func(n ast.Node) bool {
			if x, ok := n.(*ast.ValueSpec); ok {
				for i, id := range x.Names {
					if i < len(x.Values) && id.Name == "rndMax" {
						if a, ok := callNamed(x.Values[i], "SetBit"); ok && len(a) == 3 {
							if v, ok := lit(a[1]); ok && f.Src(a[2]) == "1" {
								rndBits = v
							}
						}
					}
				}
			}
			return true
		})
	}
	if rndBits == "" {
		f.Missing("pqRndBits", "rndMax = big.NewInt(0).SetBit(big.NewInt(0), bits, 1) not found in crypto.DecomposePQ")
		return
	}
	f.Raw("def pqRndBits : Nat := " + rndBits + " -- crypto.DecomposePQ: rndMax = 1 << bits")
}

// Facts emits all facts of C13.
func Facts(f *hc.Facts) {
	if t, ok := gpTable(f); ok {
		f.Raw("/-- `switch g` of crypto.CheckGP: (case value, none = `result = true` | some (divider, residues) = checkSubgroup(p, divider, residues…)) -/")
		f.Raw("def gpTable : List (Nat × Option (Nat × List Nat)) := " + t)
	} else {
		f.Missing("gpTable", "switch table of crypto.CheckGP not in the expected shape")
	}
	f.Const("rsaKeyBits", "crypto", "RSAKeyBits")
	// CheckDH: first statement `if p.BitLen() != RSAKeyBits`
	cond := ""
	if fd := f.FuncDecl("crypto", "CheckDH"); fd != nil && fd.Body != nil && len(fd.Body.List) > 0 {
		if s, ok := fd.Body.List[0].(*ast.IfStmt); ok {
			cond = f.Src(s.Cond)
		}
	}
	f.Str("checkDHBitsCond", cond, "condition of the first `if` of crypto.CheckDH (rejects)")
	// Prime: const probabilityN
	rounds := ""
	if fd := f.FuncDecl("crypto", "Prime"); fd != nil && fd.Body != nil {
		ast.Inspect(fd.Body, func(n ast.Node) bool {
			if vs, ok := n.(*ast.ValueSpec); ok && len(vs.Names) == 1 && vs.Names[0].Name == "probabilityN" && len(vs.Values) == 1 {
				if v, ok := lit(vs.Values[0]); ok {
					rounds = v
				}
			}
			return true
		})
	}
	if rounds == "" {
		f.Missing("primeRounds", "probabilityN not found in crypto.Prime")
	} else {
		f.Raw("def primeRounds : Nat := " + rounds + " -- crypto.Prime: probabilityN (Miller–Rabin rounds)")
	}
	pqFacts(f)
	// the model of InRange / CheckDHParams itself is regenerated (bigtr.go)
	tr := &bigTr{f: f, fns: map[string]string{}}
	tr.translate("inRangeT", "InRange")
	tr.translate("checkDHParamsT", "CheckDHParams")
	pqTranslate(f)
}
