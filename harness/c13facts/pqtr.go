package c13facts

// Block translator for crypto.DecomposePQ: the straight-line pieces of the three nested loops
// (drawing v and x, per-round initialisation, the binary multiplication step, the z / gcd / y / j / flag
// tail of the inner loop, the final p, q construction) and the three loop conditions are TRANSLATED
// from the current Go source to Lean definitions over `Nat`; the model (Model/C13.lean) is composed of
// these definitions plus the loop skeleton.
//
// Subset (anything else ⇒ `Missing`, fails closed).  Statements on *big.Int variables mutate the
// receiver: `d.Op(a, b)`, `d = d.Op(a, b)`, `d = F.Op(a, b)` (F fresh), with Op ∈ Add, Sub, Mul, Mod, Div,
// And, Rsh, Set, SetInt64, GCD(nil, nil, a, b); Go ints/bools: `x := e`, `x = e`, `x++`; `p, q = q, p`;
// `if c { … } [else { … }]`.  Conditions: `X.Cmp(Y) OP k`, int comparisons, `!`, `&&`, `||`, bool variables.
// Numbers are non-negative; `Sub` becomes truncated subtraction on `Nat` (exact whenever the Go value is
// non-negative, which the theorems about the model establish where it matters).
import (
	"fmt"
	"go/ast"
	"go/token"
	"sort"
	"strings"

	"verif/harness/hc"
)

type pqTr struct {
	f      *hc.Facts
	consts map[string]string // valueNN → numeral
	bools  map[string]bool
	fail   string
}

func (t *pqTr) bad(format string, a ...any) string {
	if t.fail == "" {
		t.fail = fmt.Sprintf(format, a...)
	}
	return "0"
}

// blockCtx tracks, for one block, which variables are defined (assigned) so far and which are free.
type blockCtx struct {
	defined map[string]bool
	free    []string
	order   []string // assigned variables in order of first assignment
}

func (c *blockCtx) use(v string) {
	if !c.defined[v] {
		for _, x := range c.free {
			if x == v {
				return
			}
		}
		c.free = append(c.free, v)
	}
}

func (c *blockCtx) def(v string) {
	if !c.defined[v] {
		c.defined[v] = true
	}
	for _, x := range c.order {
		if x == v {
			return
		}
	}
	c.order = append(c.order, v)
}

func (t *pqTr) ident(c *blockCtx, name string) string {
	if v, ok := t.consts[name]; ok {
		return v
	}
	c.use(name)
	return name
}

// value of a big/int expression
func (t *pqTr) val(c *blockCtx, e ast.Expr) string {
	switch x := e.(type) {
	case *ast.Ident:
		if x.Name == "true" || x.Name == "false" {
			return x.Name
		}
		return t.ident(c, x.Name)
	case *ast.BasicLit:
		return x.Value
	case *ast.ParenExpr:
		return "(" + t.val(c, x.X) + ")"
	case *ast.BinaryExpr:
		a, b := t.val(c, x.X), t.val(c, x.Y)
		switch x.Op {
		case token.ADD:
			return "(" + a + " + " + b + ")"
		case token.SUB:
			return "(" + a + " - " + b + ")"
		case token.AND:
			return "(" + a + " &&& " + b + ")"
		case token.SHL:
			if a == "1" {
				return "(2 ^ " + b + ")"
			}
		}
	case *ast.CallExpr:
		if id, ok := x.Fun.(*ast.Ident); ok && (id.Name == "uint" || id.Name == "int") && len(x.Args) == 1 {
			return t.val(c, x.Args[0])
		}
		if sel, ok := x.Fun.(*ast.SelectorExpr); ok {
			return t.method(c, sel.Sel.Name, x.Args, e)
		}
	}
	return t.bad("unsupported expression %s", t.f.Src(e))
}

func (t *pqTr) method(c *blockCtx, op string, args []ast.Expr, e ast.Expr) string {
	bin := map[string]string{"Add": "+", "Sub": "-", "Mul": "*", "Mod": "%", "Div": "/", "And": "&&&"}
	switch {
	case bin[op] != "" && len(args) == 2:
		return "(" + t.val(c, args[0]) + " " + bin[op] + " " + t.val(c, args[1]) + ")"
	case op == "Rsh" && len(args) == 2:
		return "(" + t.val(c, args[0]) + " >>> " + t.val(c, args[1]) + ")"
	case (op == "Set" || op == "SetInt64") && len(args) == 1:
		return t.val(c, args[0])
	case op == "GCD" && len(args) == 4 && isIdent(args[0], "nil") && isIdent(args[1], "nil"):
		return "(Nat.gcd " + t.val(c, args[2]) + " " + t.val(c, args[3]) + ")"
	}
	return t.bad("unsupported method call %s", t.f.Src(e))
}

// recvOf returns the receiver identifier of a method call statement, "" when the receiver is fresh.
func recvOf(call *ast.CallExpr) (string, bool) {
	sel, ok := call.Fun.(*ast.SelectorExpr)
	if !ok {
		return "", false
	}
	if id, ok := sel.X.(*ast.Ident); ok {
		return id.Name, true
	}
	if freshRecv(sel.X) {
		return "", true
	}
	return "", false
}

// cond translates a condition; `pre` receives `let` lines for receivers mutated inside the condition.
func (t *pqTr) cond(c *blockCtx, e ast.Expr, pre *[]string) string {
	switch x := e.(type) {
	case *ast.ParenExpr:
		return "(" + t.cond(c, x.X, pre) + ")"
	case *ast.Ident:
		t.bools[x.Name] = true
		c.use(x.Name)
		return x.Name
	case *ast.UnaryExpr:
		if x.Op == token.NOT {
			return "(!" + t.cond(c, x.X, pre) + ")"
		}
	case *ast.BinaryExpr:
		switch x.Op {
		case token.LAND:
			return "(" + t.cond(c, x.X, pre) + " && " + t.cond(c, x.Y, pre) + ")"
		case token.LOR:
			return "(" + t.cond(c, x.X, pre) + " || " + t.cond(c, x.Y, pre) + ")"
		case token.GTR, token.GEQ, token.LSS, token.LEQ, token.EQL, token.NEQ:
			if call, ok := x.X.(*ast.CallExpr); ok {
				if args, ok := callNamed(call, "Cmp"); ok && len(args) == 1 {
					recv := call.Fun.(*ast.SelectorExpr).X
					var a string
					if inner, ok := recv.(*ast.CallExpr); ok { // b2.And(b, value1).Cmp(…): b2 is assigned first
						r, ok := recvOf(inner)
						if !ok || r == "" {
							return t.bad("unsupported receiver in %s", t.f.Src(e))
						}
						v := t.val(c, inner)
						c.def(r)
						*pre = append(*pre, fmt.Sprintf("let %s := %s", r, v))
						a = r
					} else {
						a = t.val(c, recv)
					}
					b := t.val(c, args[0])
					k := t.f.Src(x.Y)
					rel := ""
					switch k {
					case "0":
						rel = map[token.Token]string{token.GTR: ">", token.GEQ: "≥", token.LSS: "<", token.LEQ: "≤", token.EQL: "=", token.NEQ: "≠"}[x.Op]
					case "1":
						rel = map[token.Token]string{token.EQL: ">", token.NEQ: "≤", token.GEQ: ">", token.LSS: "≤"}[x.Op]
					case "-1":
						rel = map[token.Token]string{token.EQL: "<", token.NEQ: "≥", token.LEQ: "<", token.GTR: "≥"}[x.Op]
					}
					if rel == "" {
						return t.bad("unsupported comparison %s", t.f.Src(e))
					}
					return fmt.Sprintf("decide (%s %s %s)", a, rel, b)
				}
			}
			rel := map[token.Token]string{token.GTR: ">", token.GEQ: "≥", token.LSS: "<", token.LEQ: "≤", token.EQL: "=", token.NEQ: "≠"}[x.Op]
			return fmt.Sprintf("decide (%s %s %s)", t.val(c, x.X), rel, t.val(c, x.Y))
		}
	}
	return t.bad("unsupported condition %s", t.f.Src(e))
}

func tupleOf(vs []string) string {
	if len(vs) == 1 {
		return vs[0]
	}
	return "(" + strings.Join(vs, ", ") + ")"
}

// assignedIn lists the variables a statement list assigns (receivers, lhs), in order.
func (t *pqTr) assignedIn(stmts []ast.Stmt) []string {
	c := &blockCtx{defined: map[string]bool{}}
	var lines []string
	t2 := *t
	t2.fail = ""
	(&t2).stmts(c, stmts, &lines, "")
	return c.order
}

// stmts appends `let …` lines for the statements.
func (t *pqTr) stmts(c *blockCtx, stmts []ast.Stmt, out *[]string, ind string) {
	for _, st := range stmts {
		switch s := st.(type) {
		case *ast.ExprStmt:
			call, ok := s.X.(*ast.CallExpr)
			if !ok {
				t.bad("unsupported statement %s", t.f.Src(st))
				continue
			}
			r, ok := recvOf(call)
			if !ok || r == "" {
				t.bad("unsupported statement %s", t.f.Src(st))
				continue
			}
			v := t.val(c, call)
			c.def(r)
			*out = append(*out, fmt.Sprintf("%slet %s := %s", ind, r, v))
		case *ast.IncDecStmt:
			id, ok := s.X.(*ast.Ident)
			if !ok || s.Tok != token.INC {
				t.bad("unsupported statement %s", t.f.Src(st))
				continue
			}
			v := t.ident(c, id.Name)
			c.def(id.Name)
			*out = append(*out, fmt.Sprintf("%slet %s := %s + 1", ind, id.Name, v))
		case *ast.AssignStmt:
			if len(s.Lhs) == 2 && len(s.Rhs) == 2 && s.Tok == token.ASSIGN { // p, q = q, p
				a, b := t.val(c, s.Rhs[0]), t.val(c, s.Rhs[1])
				l0, l1 := t.f.Src(s.Lhs[0]), t.f.Src(s.Lhs[1])
				c.def(l0)
				c.def(l1)
				*out = append(*out, fmt.Sprintf("%slet (%s, %s) := (%s, %s)", ind, l0, l1, a, b))
				continue
			}
			if len(s.Lhs) != 1 || len(s.Rhs) != 1 {
				t.bad("unsupported assignment %s", t.f.Src(st))
				continue
			}
			lhs, ok := s.Lhs[0].(*ast.Ident)
			if !ok {
				t.bad("unsupported assignment %s", t.f.Src(st))
				continue
			}
			if call, ok := s.Rhs[0].(*ast.CallExpr); ok {
				if _, isSel := call.Fun.(*ast.SelectorExpr); isSel {
					r, ok := recvOf(call)
					if !ok || (r != "" && r != lhs.Name) {
						t.bad("result of %s is not assigned to its receiver", t.f.Src(st))
						continue
					}
				}
			}
			v := t.val(c, s.Rhs[0])
			if v == "true" || v == "false" {
				t.bools[lhs.Name] = true
			}
			c.def(lhs.Name)
			*out = append(*out, fmt.Sprintf("%slet %s := %s", ind, lhs.Name, v))
		case *ast.IfStmt:
			if s.Init != nil {
				t.bad("unsupported if with init")
				continue
			}
			var pre []string
			cnd := t.cond(c, s.Cond, &pre)
			for _, p := range pre {
				*out = append(*out, ind+p)
			}
			var elseStmts []ast.Stmt
			if s.Else != nil {
				eb, ok := s.Else.(*ast.BlockStmt)
				if !ok {
					t.bad("unsupported else-if")
					continue
				}
				elseStmts = eb.List
			}
			vars := t.assignedIn(s.Body.List)
			for _, v := range t.assignedIn(elseStmts) {
				dup := false
				for _, w := range vars {
					dup = dup || v == w
				}
				if !dup {
					vars = append(vars, v)
				}
			}
			if len(vars) == 0 {
				t.bad("if without assignments")
				continue
			}
			for _, v := range vars { // the untouched value flows through the other branch
				c.use(v)
			}
			var thenL, elseL []string
			save := copyDefined(c.defined)
			t.stmts(c, s.Body.List, &thenL, ind+"    ")
			c.defined = copyDefined(save)
			t.stmts(c, elseStmts, &elseL, ind+"    ")
			c.defined = save
			tup := tupleOf(vars)
			*out = append(*out, fmt.Sprintf("%slet %s :=", ind, tup))
			*out = append(*out, fmt.Sprintf("%s  if %s then", ind, cnd))
			*out = append(*out, thenL...)
			*out = append(*out, fmt.Sprintf("%s    %s", ind, tup))
			*out = append(*out, fmt.Sprintf("%s  else", ind))
			*out = append(*out, elseL...)
			*out = append(*out, fmt.Sprintf("%s    %s", ind, tup))
			for _, v := range vars {
				c.def(v)
			}
		default:
			t.bad("unsupported statement %s", t.f.Src(st))
		}
	}
}

func copyDefined(m map[string]bool) map[string]bool {
	o := map[string]bool{}
	for k, v := range m {
		o[k] = v
	}
	return o
}

func (t *pqTr) typeOf(v string) string {
	if t.bools[v] {
		return "Bool"
	}
	return "Nat"
}

// block emits `def name (free…) : results := …` for a statement list; `inputs` fixes the parameter order
// (every free variable must be listed), results = assigned variables in order of first assignment.
func (t *pqTr) block(name string, inputs []string, stmts []ast.Stmt, what string) {
	t.fail = ""
	c := &blockCtx{defined: map[string]bool{}}
	var lines []string
	if len(stmts) == 0 {
		t.bad("empty block")
	}
	t.stmts(c, stmts, &lines, "  ")
	for _, v := range c.free {
		ok := false
		for _, i := range inputs {
			ok = ok || i == v
		}
		if !ok {
			t.bad("unexpected free variable %s", v)
		}
	}
	if t.fail != "" {
		t.f.Missing(name, what+": outside the translated subset: "+t.fail)
		return
	}
	var ps, rts []string
	for _, i := range inputs {
		ps = append(ps, fmt.Sprintf("(%s : %s)", i, t.typeOf(i)))
	}
	for _, v := range c.order {
		rts = append(rts, t.typeOf(v))
	}
	var src []string
	for _, s := range stmts {
		src = append(src, t.f.Src(s))
	}
	doc := strings.ReplaceAll(strings.ReplaceAll(strings.Join(src, "\n"), "-/", "- /"), "/-", "/ -")
	t.f.Raw(fmt.Sprintf("/-- translated from crypto.DecomposePQ (%s); results: %s\n```go\n%s\n```\n-/", what, strings.Join(c.order, ", "), doc))
	t.f.Raw(fmt.Sprintf("def %s %s : %s :=\n%s\n  %s", name, strings.Join(ps, " "), strings.Join(rts, " × "), strings.Join(lines, "\n"), tupleOf(c.order)))
}

func (t *pqTr) condDef(name string, inputs []string, e ast.Expr, what string) {
	t.fail = ""
	c := &blockCtx{defined: map[string]bool{}}
	var pre []string
	s := t.cond(c, e, &pre)
	if len(pre) > 0 {
		t.bad("condition with side effects")
	}
	sort.Strings(c.free)
	for _, v := range c.free {
		ok := false
		for _, i := range inputs {
			ok = ok || i == v
		}
		if !ok {
			t.bad("unexpected free variable %s", v)
		}
	}
	if t.fail != "" {
		t.f.Missing(name, what+": outside the translated subset: "+t.fail)
		return
	}
	var ps []string
	for _, i := range inputs {
		ps = append(ps, fmt.Sprintf("(%s : %s)", i, t.typeOf(i)))
	}
	t.f.Raw(fmt.Sprintf("/-- translated loop condition of crypto.DecomposePQ (%s): `%s` -/", what, t.f.Src(e)))
	t.f.Raw(fmt.Sprintf("def %s %s : Bool := %s", name, strings.Join(ps, " "), s))
}

func isRandInt(st ast.Stmt) bool {
	as, ok := st.(*ast.AssignStmt)
	if !ok || len(as.Rhs) != 1 {
		return false
	}
	_, ok = callNamed(as.Rhs[0], "Int")
	return ok
}

func pqTranslate(f *hc.Facts) {
	names := []string{"pqDrawVT", "pqRoundInitT", "pqInnerInitT", "pqMulStepT", "pqInnerTailT", "pqFinishT", "pqOuterContT", "pqInnerContT", "pqMulContT"}
	missAll := func(why string) {
		for _, n := range names {
			f.Missing(n, why)
		}
	}
	fd := f.FuncDecl("crypto", "DecomposePQ")
	if fd == nil || fd.Body == nil {
		missAll("crypto.DecomposePQ not found")
		return
	}
	t := &pqTr{f: f, consts: map[string]string{}, bools: map[string]bool{"flag": true}}
	ast.Inspect(fd.Body, func(n ast.Node) bool { // var ( value15 = big.NewInt(15) … )
		if vs, ok := n.(*ast.ValueSpec); ok {
			for i, id := range vs.Names {
				if i < len(vs.Values) && strings.HasPrefix(id.Name, "value") {
					if a, ok := callNamed(vs.Values[i], "NewInt"); ok && len(a) == 1 {
						if v, ok := lit(a[0]); ok {
							t.consts[id.Name] = v
						}
					}
				}
			}
		}
		return true
	})
	var outer *ast.ForStmt
	outerIdx := -1
	for i, s := range fd.Body.List {
		if fs, ok := s.(*ast.ForStmt); ok && outer == nil {
			outer, outerIdx = fs, i
		}
	}
	if outer == nil || outer.Cond == nil {
		missAll("outer loop of crypto.DecomposePQ not found")
		return
	}
	ob := outer.Body.List
	var draws []int
	midIdx := -1
	for i, s := range ob {
		if isRandInt(s) {
			draws = append(draws, i)
		}
		if _, ok := s.(*ast.ForStmt); ok && midIdx < 0 {
			midIdx = i
		}
	}
	if len(draws) != 2 || midIdx < 0 || draws[0]+2 > draws[1] || draws[1]+2 > midIdx || midIdx != len(ob)-2 {
		missAll("round structure of crypto.DecomposePQ not recognised")
		return
	}
	if _, ok := ob[len(ob)-1].(*ast.IncDecStmt); !ok {
		missAll("outer loop does not end with i++")
		return
	}
	mid := ob[midIdx].(*ast.ForStmt)
	mb := mid.Body.List
	innIdx := -1
	for i, s := range mb {
		if _, ok := s.(*ast.ForStmt); ok && innIdx < 0 {
			innIdx = i
		}
	}
	if innIdx < 0 || mid.Cond == nil {
		missAll("inner loops of crypto.DecomposePQ not recognised")
		return
	}
	inn := mb[innIdx].(*ast.ForStmt)
	if inn.Cond == nil {
		missAll("innermost loop without condition")
		return
	}
	// after the outer loop: everything up to the final return
	tailStmts := fd.Body.List[outerIdx+1:]
	if n := len(tailStmts); n == 0 {
		missAll("no statements after the outer loop")
		return
	} else if _, ok := tailStmts[n-1].(*ast.ReturnStmt); ok {
		tailStmts = tailStmts[:n-1]
	}
	t.block("pqDrawVT", []string{"v", "what"}, ob[draws[0]+2:draws[1]], "from the first rand.Int to the second: v")
	t.block("pqRoundInitT", []string{"x", "what", "i"}, ob[draws[1]+2:midIdx], "after the second rand.Int, before the inner loop")
	t.block("pqInnerInitT", []string{"x", "v"}, mb[:innIdx], "head of the inner loop body")
	t.block("pqMulStepT", []string{"a", "b", "c", "what"}, inn.Body.List, "body of the innermost loop")
	t.block("pqInnerTailT", []string{"c", "y", "what", "j", "flag"}, mb[innIdx+1:], "rest of the inner loop body")
	t.block("pqFinishT", []string{"g", "what"}, tailStmts, "after the outer loop")
	t.condDef("pqOuterContT", []string{"g", "what"}, outer.Cond, "outer loop")
	t.condDef("pqInnerContT", []string{"j", "lim", "flag"}, mid.Cond, "inner loop")
	t.condDef("pqMulContT", []string{"b"}, inn.Cond, "innermost loop")
}
