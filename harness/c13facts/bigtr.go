package c13facts

// A tiny translator from straight-line math/big code to Lean (`Int`), used to REGENERATE the
// model of crypto.InRange / crypto.CheckDHParams from the repository's current source.
//
// Subset (anything else makes the definition `Missing`, i.e. fails closed):
//   parameters            *big.Int or int                         → Int
//   x := <big>            (single :=, fresh variable)             → let x : Int := …
//   if <cond> { return <error value> }                            → if … then some k else …   (k = 0,1,… in source order)
//   return nil                                                    → none
//   return <cond>         (function with result bool)             → the condition
//   <big>  ::= ident | big.NewInt(c) | F.Sub(a,b) | F.Add(a,b) | F.Mul(a,b) | F.Exp(a,b,nil)
//              where the receiver F is a fresh value (big.NewInt(_) / new(big.Int)), so that no
//              variable is mutated in place, and c is an integer constant expression
//   <cond> ::= a.Cmp(b) OP k (k ∈ {-1,0,1}) | !c | c && c | c || c | f(args…) for an already translated f
import (
	"fmt"
	"go/ast"
	"go/token"
	"strings"

	"verif/harness/hc"
)

type bigTr struct {
	f    *hc.Facts
	fns  map[string]string // Go function name → Lean name (result Bool)
	fail string
}

func (t *bigTr) bad(format string, a ...any) string {
	if t.fail == "" {
		t.fail = fmt.Sprintf(format, a...)
	}
	return "0"
}

func freshRecv(e ast.Expr) bool {
	if a, ok := callNamed(e, "NewInt"); ok && len(a) == 1 {
		return true
	}
	if c, ok := e.(*ast.CallExpr); ok {
		if id, ok := c.Fun.(*ast.Ident); ok && id.Name == "new" && len(c.Args) == 1 {
			return true
		}
	}
	return false
}

func (t *bigTr) big(e ast.Expr) string {
	switch x := e.(type) {
	case *ast.Ident:
		return x.Name
	case *ast.ParenExpr:
		return t.big(x.X)
	case *ast.CallExpr:
		sel, ok := x.Fun.(*ast.SelectorExpr)
		if !ok {
			return t.bad("unsupported call %s", t.f.Src(e))
		}
		if id, ok := sel.X.(*ast.Ident); ok && id.Name == "big" && sel.Sel.Name == "NewInt" && len(x.Args) == 1 {
			v, ok := intExpr(t.f, x.Args[0])
			if !ok {
				return t.bad("non-constant big.NewInt argument %s", t.f.Src(x.Args[0]))
			}
			return fmt.Sprintf("(%d : Int)", v)
		}
		if !freshRecv(sel.X) {
			return t.bad("receiver of %s is not a fresh value (in-place mutation)", t.f.Src(e))
		}
		switch sel.Sel.Name {
		case "Sub", "Add", "Mul":
			if len(x.Args) != 2 {
				return t.bad("arity of %s", t.f.Src(e))
			}
			op := map[string]string{"Sub": "-", "Add": "+", "Mul": "*"}[sel.Sel.Name]
			return fmt.Sprintf("(%s %s %s)", t.big(x.Args[0]), op, t.big(x.Args[1]))
		case "Exp":
			if len(x.Args) != 3 || !isIdent(x.Args[2], "nil") {
				return t.bad("only Exp(a, b, nil) is supported: %s", t.f.Src(e))
			}
			return fmt.Sprintf("(%s ^ (%s).toNat)", t.big(x.Args[0]), t.big(x.Args[1]))
		}
		return t.bad("unsupported method %s", sel.Sel.Name)
	}
	return t.bad("unsupported expression %s", t.f.Src(e))
}

func (t *bigTr) cond(e ast.Expr) string {
	switch x := e.(type) {
	case *ast.ParenExpr:
		return t.cond(x.X)
	case *ast.UnaryExpr:
		if x.Op == token.NOT {
			return "(!" + t.cond(x.X) + ")"
		}
	case *ast.BinaryExpr:
		switch x.Op {
		case token.LAND:
			return "(" + t.cond(x.X) + " && " + t.cond(x.Y) + ")"
		case token.LOR:
			return "(" + t.cond(x.X) + " || " + t.cond(x.Y) + ")"
		case token.GTR, token.GEQ, token.LSS, token.LEQ, token.EQL, token.NEQ:
			args, ok := callNamed(x.X, "Cmp")
			sel, ok2 := x.X.(*ast.CallExpr)
			if !ok || !ok2 || len(args) != 1 {
				break
			}
			recv := sel.Fun.(*ast.SelectorExpr).X
			k := t.f.Src(x.Y)
			a, b := t.big(recv), t.big(args[0])
			rel := ""
			switch k {
			case "0":
				rel = map[token.Token]string{token.GTR: ">", token.GEQ: "≥", token.LSS: "<", token.LEQ: "≤", token.EQL: "=", token.NEQ: "≠"}[x.Op]
			case "1":
				rel = map[token.Token]string{token.EQL: ">", token.NEQ: "≤", token.GEQ: ">", token.LSS: "≤"}[x.Op]
			case "-1":
				rel = map[token.Token]string{token.EQL: "<", token.NEQ: "≥", token.LEQ: "<", token.GTR: "≥"}[x.Op]
			}
			if rel == "" {
				break
			}
			return fmt.Sprintf("decide (%s %s %s)", a, rel, b)
		}
	case *ast.CallExpr:
		if id, ok := x.Fun.(*ast.Ident); ok {
			if ln, ok := t.fns[id.Name]; ok {
				var as []string
				for _, a := range x.Args {
					as = append(as, t.big(a))
				}
				return "(" + ln + " " + strings.Join(as, " ") + ")"
			}
		}
	}
	return t.bad("unsupported condition %s", t.f.Src(e))
}

// translate emits `def leanName …` for the Go function goName of /repo/crypto.
func (t *bigTr) translate(leanName, goName string) {
	t.fail = ""
	fd := t.f.FuncDecl("crypto", goName)
	if fd == nil || fd.Body == nil {
		t.f.Missing(leanName, "crypto."+goName+" not found")
		return
	}
	var params []string
	for _, fl := range fd.Type.Params.List {
		for _, n := range fl.Names {
			params = append(params, n.Name)
		}
	}
	resBool := fd.Type.Results != nil && len(fd.Type.Results.List) == 1 && isIdent(fd.Type.Results.List[0].Type, "bool")
	var b strings.Builder
	src := strings.ReplaceAll(strings.ReplaceAll(t.f.Src(fd), "-/", "- /"), "/-", "/ -")
	fmt.Fprintf(&b, "/-- translated from crypto.%s:\n```go\n%s\n```\n-/\n", goName, src)
	if resBool {
		fmt.Fprintf(&b, "def %s (%s : Int) : Bool :=\n", leanName, strings.Join(params, " "))
	} else {
		fmt.Fprintf(&b, "def %s (%s : Int) : Option Nat :=\n", leanName, strings.Join(params, " "))
	}
	k, done := 0, false
	for _, st := range fd.Body.List {
		if done {
			t.bad("statement after the final return")
		}
		switch s := st.(type) {
		case *ast.AssignStmt:
			if s.Tok != token.DEFINE || len(s.Lhs) != 1 || len(s.Rhs) != 1 {
				t.bad("unsupported assignment %s", t.f.Src(s))
				continue
			}
			id, ok := s.Lhs[0].(*ast.Ident)
			if !ok {
				t.bad("unsupported assignment %s", t.f.Src(s))
				continue
			}
			fmt.Fprintf(&b, "  let %s : Int := %s\n", id.Name, t.big(s.Rhs[0]))
		case *ast.IfStmt:
			if s.Init != nil || s.Else != nil || len(s.Body.List) != 1 || resBool {
				t.bad("unsupported if %s", t.f.Src(s.Cond))
				continue
			}
			r, ok := s.Body.List[0].(*ast.ReturnStmt)
			if !ok || len(r.Results) != 1 || isIdent(r.Results[0], "nil") {
				t.bad("if-body is not `return <error>`")
				continue
			}
			fmt.Fprintf(&b, "  if %s then some %d else\n", t.cond(s.Cond), k)
			k++
		case *ast.ReturnStmt:
			done = true
			if len(s.Results) != 1 {
				t.bad("unsupported return")
				continue
			}
			if resBool {
				fmt.Fprintf(&b, "  %s\n", t.cond(s.Results[0]))
			} else if isIdent(s.Results[0], "nil") {
				fmt.Fprintf(&b, "  none\n")
			} else {
				t.bad("unconditional error return")
			}
		default:
			t.bad("unsupported statement %s", t.f.Src(st))
		}
	}
	if !done {
		t.bad("no final return")
	}
	if t.fail != "" {
		t.f.Missing(leanName, "crypto."+goName+" is outside the translated subset: "+t.fail)
		return
	}
	t.f.Raw(strings.TrimRight(b.String(), "\n"))
	if resBool {
		t.fns[goName] = leanName
	}
}
