#!/bin/bash
# Run once after a fresh restore, offline: build the Lean library + drivers and warm the Go build cache.
set -u
cd "$(dirname "$0")"
export GOFLAGS=-mod=mod GOPROXY=off
unset GOSUMDB
mkdir -p .build evidence replays lean/TdModel/Gen
cp /repo/go.sum harness/go.sum 2>/dev/null
props=$(python3 -c "import json;print(' '.join(c['property_id'] for c in json.load(open('MANIFEST.json'))['checks']))")
rc=0
# 1. harness binaries (also warms the build cache for /repo with -tags verif)
for p in $props; do
  l=$(echo $p | tr A-Z a-z)
  (cd harness && go build -tags verif -o ../.build/$l ./$l) || { echo "setup: harness $l failed to build"; rc=1; }
done
# 2. facts, then the Lean library and drivers
for p in $props; do
  l=$(echo $p | tr A-Z a-z)
  [ -x .build/$l ] && .build/$l facts -out lean/TdModel/Gen/$p.lean
done
targets=""
for p in $props; do l=$(echo $p | tr A-Z a-z); targets="$targets TdModel.Props.$p drv_$l"; done
(cd lean && lake build $targets 2>&1 | tail -5) || rc=1
exit $rc
